"""RandomAccessIndexIterator (Array, const Array, RingBuffer, const RingBuffer) against spec/containers/IterP.tla.

Every edge of TLC's graph (++/--, pre and post, += -= + -, begin/end on two iterators over four elements) is
executed on the real iterators of all four container flavours; after every step the positions, the returned
iterator, the dereferenced values, the difference and the six comparisons are compared with the TLC state."""
from lib import common, pathcover

SPEC = common.SPEC / "containers"
FLAGS = ["-O1", "-g", "-UNDEBUG", "-fsanitize=address,undefined", "-fno-sanitize=nonnull-attribute", "-fno-omit-frame-pointer"]
TITLE = "RandomAccessIndexIterator: arithmetic, comparisons, dereference over Array and RingBuffer"
KINDS = ["array", "carray", "ring", "cring"]


def harness():
    return common.build("iter_h", ["containers/iter_harness.cpp"], FLAGS, [])


def step_line(g, ei):
    _, _, name, args = g.edges[ei]
    if len(args) == 2:
        return "S op=%s a=%d k=%d" % (name, args[0], args[1])
    return "S op=%s a=%d" % (name, args[0])


def run(tier, seed):
    notes = []
    mc = common.model_check(SPEC, "IterP.tla", "MC_Iter.cfg", "IterP")
    dot, dst = common.dump_graph(SPEC, "IterP.tla", "MC_Iter.cfg", "IterP")
    g = common.load_graph(dot)
    paths, covered = pathcover.cover(g, max_len=60)
    n = 4
    lines, meta = [], {}
    for pi, path in enumerate(paths):
        for kind in KINDS:
            xid = "i%d-%s" % (pi, kind)
            lines.append("X %s kind=%s n=%d" % (xid, kind, n))
            lines += [step_line(g, ei) for ei in path]
            lines.append("E")
            meta[xid] = (path, kind)
    res = common.run_harness(harness(), "\n".join(lines) + "\n")
    vals = [10 * (k + 1) for k in range(n)]
    for xid, (path, kind) in meta.items():
        recs = res.get(xid, [])
        obs = {r["i"]: r for r in recs if r.get("e") == "Obs"}
        crash = next((r for r in recs if r.get("e") == "Crash"), None)
        for i, ei in enumerate(path):
            st = g.states[g.edges[ei][1]]
            r = obs.get(i)
            hist = [step_line(g, e)[2:] for e in path[:i + 1]]
            if r is None:
                notes.append("%s %s: stopped at step %d (%s)" % (kind, hist, i, (crash or {}).get("stderr", "")[:300]))
                break
            itv = st["it"]   # a function with domain 1..2 is printed by TLC as a tuple
            p1, p2 = (itv[0], itv[1]) if isinstance(itv, (tuple, list)) else (itv[1], itv[2])
            want = {"p1": p1, "p2": p2, "ret": st["ret"], "d1": vals[p1] if p1 < n else -1, "d2": vals[p2] if p2 < n else -1, "diff": p1 - p2,
                    "cmp": [int(p1 == p2), int(p1 != p2), int(p1 < p2), int(p1 > p2), int(p1 <= p2), int(p1 >= p2)], "n": n}
            got = {k: r[k] for k in want}
            if got != want:
                bad = [k for k in want if got[k] != want[k]]
                notes.append("%s %s: %s = %s, IterP says %s" % (kind, hist, bad, [got[k] for k in bad], [want[k] for k in bad]))
                break
    return {"title": TITLE, "spec": "spec/containers/IterP.tla", "states": len(g.states), "transitions": len(g.edges),
            "edges_replayed": len(covered), "executions": len(meta), "model_checks": [mc], "graph_dumps": [dst], "notes": notes}
