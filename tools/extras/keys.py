"""RoutingKeyBuilder / RoutingKey / RoutingLevelView against spec/observer/RoutingKeyP.tla.

Every edge of TLC's graph (build a key of up to three levels from names and regexes through the chained
builder or the variadic constructor, copy / move it, walk the view up and down) is executed on the real
classes; after every step count, index, isRoot, isLeaf, isRegex, asString and matches() of every probe
name are compared with the TLC state."""
from lib import common, pathcover

SPEC = common.SPEC / "observer"
FLAGS = ["-O1", "-g", "-UNDEBUG", "-fsanitize=address,undefined", "-fno-sanitize=nonnull-attribute", "-fno-omit-frame-pointer"]
REPO_SRC = ["src/observer/routing/RoutingKey.cpp", "src/observer/routing/RoutingKeyBuilder.cpp", "src/observer/routing/RoutingLevelView.cpp"]
TITLE = "routing keys: builder, key value semantics, level view navigation and matching"


def harness():
    return common.build("key_h", ["observer/key_harness.cpp"], FLAGS, REPO_SRC)


def step_line(g, ei):
    _, _, name, args = g.edges[ei]
    if name == "AddName":
        return "S op=AddName n=%s" % args[0]
    if name == "AddRegex":
        return "S op=AddRegex r=%s" % args[0][2:]
    if name == "Build":
        return "S op=Build how=%s" % args[0]
    return "S op=%s" % name


def run(tier, seed):
    notes = []
    mc = common.model_check(SPEC, "MC_RoutingKey.tla", "MC_RoutingKey.cfg", "RoutingKeyP")
    dot, dst = common.dump_graph(SPEC, "MC_RoutingKey.tla", "MC_RoutingKey.cfg", "RoutingKeyP")
    g = common.load_graph(dot)
    paths, covered = pathcover.cover(g, max_len=60)
    probes = ["", "a", "b", "c", "ab"]
    lines, meta = [], {}
    for pi, path in enumerate(paths):
        xid = "k%d" % pi
        lines.append("X %s probes=%s" % (xid, ",".join(p or "~" for p in probes)))
        lines += [step_line(g, ei) for ei in path]
        lines.append("E")
        meta[xid] = path
    res = common.run_harness(harness(), "\n".join(lines) + "\n")
    nexec = 0
    for xid, path in meta.items():
        recs = res.get(xid, [])
        nexec += 1
        obs = {r["i"]: r for r in recs if r.get("e") == "Obs"}
        crash = next((r for r in recs if r.get("e") == "Crash"), None)
        for i, ei in enumerate(path):
            src, dstn, name, args = g.edges[ei]
            st = g.states[dstn]
            if st["phase"] != "built":
                continue
            r = obs.get(i)
            hist = [step_line(g, e)[2:] for e in path[:i + 1]]
            if r is None:
                notes.append("history %s: stopped at step %d (%s)" % (hist, i, (crash or {}).get("stderr", "")[:300]))
                break
            ob = st["ob"]
            want = {"count": ob["count"], "index": ob["index"], "root": int(ob["root"]), "leaf": int(ob["leaf"]), "regex": int(ob["regex"]),
                    "str": ob["str"], "m": sorted(ob["m"])}
            got = {k: (sorted(r[k]) if k == "m" else r[k]) for k in want}
            if got != want:
                bad = [k for k in want if got[k] != want[k]]
                notes.append("history %s: %s = %s, RoutingKeyP says %s" % (hist, bad, [got[k] for k in bad], [want[k] for k in bad]))
                break
    return {"title": TITLE, "spec": "spec/observer/RoutingKeyP.tla", "states": len(g.states), "transitions": len(g.edges),
            "edges_replayed": len(covered), "executions": nexec, "model_checks": [mc], "graph_dumps": [dst], "notes": notes}
