"""tulz::DynamicLibrary against spec/fs/DynLibP.tla.

Two DynamicLibrary objects over two tiny shared objects built here; every edge of TLC's graph (load, load of a
missing file, load through a prefix view, close, lookups of four names, getError) is executed on the real class;
isLoaded() of both objects and the result of every lookup / getError are compared with the TLC state."""
import subprocess

from lib import common, pathcover

SPEC = common.SPEC / "fs"
FLAGS = ["-O1", "-g", "-UNDEBUG", "-fno-omit-frame-pointer"]
TITLE = "DynamicLibrary: load / close / lookup / pending error over two shared objects"


def harness():
    return common.build("dynlib_h", ["fs/dynlib_harness.cpp"], FLAGS, ["src/DynamicLibrary.cpp"])


def shared_objects():
    d = common.scratch() / "dl"
    d.mkdir(parents=True, exist_ok=True)
    out = {}
    for n in ("a", "b"):
        so = d / ("libverif_%s.so" % n)
        r = subprocess.run(["gcc", "-shared", "-fPIC", "-o", str(so), str(common.HARNESS / "fs" / "dl" / ("lib_%s.c" % n))], capture_output=True, text=True)
        if r.returncode != 0:
            raise common.InfraError("cannot build %s: %s" % (so, r.stderr[-500:]))
        out[n] = so
    return out


def step_line(g, ei):
    _, _, name, args = g.edges[ei]
    if name == "Load":
        return "S op=Load o=%d l=%s" % (args[0], args[1])
    if name == "Lookup":
        return "S op=Lookup o=%d n=%s" % (args[0], args[1])
    if name == "GetError":
        return "S op=GetError"
    return "S op=%s o=%d" % (name, args[0])


def run(tier, seed):
    notes = []
    mc = common.model_check(SPEC, "DynLibP.tla", "MC_DynLib.cfg", "DynLibP")
    dot, dst = common.dump_graph(SPEC, "DynLibP.tla", "MC_DynLib.cfg", "DynLibP")
    g = common.load_graph(dot)
    paths, covered = pathcover.cover(g, max_len=20)
    so = shared_objects()
    lines, meta = [], {}
    for pi, path in enumerate(paths):
        xid = "d%d" % pi
        lines.append("X %s liba=%s libb=%s" % (xid, so["a"], so["b"]))
        lines += [step_line(g, ei) for ei in path]
        lines.append("E")
        meta[xid] = path
    res = common.run_harness(harness(), "\n".join(lines) + "\n")
    for xid, path in meta.items():
        recs = res.get(xid, [])
        obs = {r["i"]: r for r in recs if r.get("e") == "Obs"}
        crash = next((r for r in recs if r.get("e") == "Crash"), None)
        for i, ei in enumerate(path):
            st = g.states[g.edges[ei][1]]
            r = obs.get(i)
            hist = [step_line(g, e)[2:] for e in path[:i + 1]]
            if r is None:
                notes.append("%s: stopped at step %d (%s)" % (hist, i, (crash or {}).get("stderr", "")[:300]))
                break
            lv = st["lib"]
            l1, l2 = (lv[0], lv[1]) if isinstance(lv, (tuple, list)) else (lv[1], lv[2])
            want = {"l1": int(l1 != "none"), "l2": int(l2 != "none"), "ret": st["ret"]}
            got = {k: r[k] for k in want}
            if got != want:
                bad = [k for k in want if got[k] != want[k]]
                notes.append("%s: %s = %s, DynLibP says %s" % (hist, bad, [got[k] for k in bad], [want[k] for k in bad]))
                break
    return {"title": TITLE, "spec": "spec/fs/DynLibP.tla", "states": len(g.states), "transitions": len(g.edges),
            "edges_replayed": len(covered), "executions": len(meta), "model_checks": [mc], "graph_dumps": [dst], "notes": notes}
