"""tulz::ThreadPool: C07 (task life cycle) and C08 (stop() terminates, quiescent, restartable).

PoolImpl (one action per scheduler-visible step of ThreadPool.cpp) is model-checked by TLC (deadlock
freedom = stop() terminates, quiescence after stop, queue/task consistency, liveness); every edge of its
state graph is replayed step by step on the real pool under vsched and the fields are compared (X);
random owner programs under random/PCT schedules are recorded (Y); all executions are validated by
TLC against the task life-cycle contract PoolP (PoolPTrace).
"""
import json
import random
import time

from lib import common, pathcover, tracecheck
from lib.common import log

SPEC = common.SPEC / "pool"
REPO_SRC = ["src/threading/ThreadPool.cpp", "src/threading/Thread.cpp", "src/threading/Runnable.cpp"]
FLAGS = ["-O1", "-g", "-UNDEBUG", "-fno-omit-frame-pointer"]
P_EVENTS = {"MaxSet", "Begin", "Submit", "StartRet", "StartThrew", "RunBegin", "RunEnd", "Destroy", "ClearCall", "ClearRet", "StopCall", "StopRet",
            "WorkerStart", "WorkerExit", "Quiescent", "Done", "Deadlock", "Crash", "TooLong", "RunOnDead", "DestroyedWhileRunning", "ArgMismatch"}
C08_EVENTS = {"StopRet", "WorkerStart", "WorkerExit"}

ASSUMPTIONS = [
    "A2: vsched's model of POSIX mutex/condvar/create/join is faithful",
    "one program in sixteen runs with a failing pthread_create (EAGAIN once, for the first worker): start() throws std::system_error there, which the owner catches; "
    "thread creation that fails is outside the property's quantifier, so whatever PoolPTrace refuses in those executions is printed as SPEC-NOTE and never counted",
    "A3: code between two intercepted pthread operations is deterministic; where shared state is touched without a mutex "
    "(m_isRunning before the fix) the model has its own step boundary",
    "one owner thread calls start/clear/stop; workers do not expire (setExpiryTimeout(-1)); tasks do not block on anything",
    "TLC results are exhaustive for the stated constants only; larger programs are sampled (direction Y)",
]


def harness():
    exe = common.build("pool_proj", ["pool/pool_harness.cpp", "vsched/vsched.cpp"], FLAGS + ["-DVS_PROJECT"], REPO_SRC, may_fail=True)
    if exe is not None:
        return exe, True
    return common.build("pool_plain", ["pool/pool_harness.cpp", "vsched/vsched.cpp"], FLAGS, REPO_SRC), False


def configs(tier):
    # "expiry": workers expire (virtual clock Tick) and the owner calls update(); replayed with setExpiryTimeout(10)
    return ["quick", "single", "expiry"] if tier == "quick" else ["quick", "single", "expiry", "thorough", "three"]


def model_checks(tier):
    res = [common.model_check(SPEC, "MC_Pool.tla", "MC_Pool_%s.cfg" % c, "PoolImpl " + c, heap="16g") for c in configs(tier)]
    res.append(common.model_check(SPEC, "MC_Pool.tla", "MC_Pool_live.cfg", "PoolImpl liveness"))
    return res


def x_scripts(cfgname):
    dot, st = common.dump_graph(SPEC, "MC_Pool.tla", "MC_Pool_%s.cfg" % cfgname, "PoolImpl-" + cfgname)
    g = common.load_graph(dot)
    paths, covered = pathcover.cover(g, max_len=120)
    init = g.states[g.init[0]]
    # MaxThreads is not a state variable: read it from the cfg
    cfgtxt = (SPEC / ("MC_Pool_%s.cfg" % cfgname)).read_text()
    mx = int(cfgtxt.split("MaxThreads =")[1].split()[0])
    maxspawn = int(cfgtxt.split("MaxSpawn =")[1].split()[0])
    lines, meta = [], {}
    for pi, path in enumerate(paths):
        xid = "%s-%d" % (cfgname, pi)
        lines.append("X %s mode=script max=%d expiry=%d" % (xid, mx, 10 if cfgname.startswith("expiry") else -1))
        for ei in path:
            src, dst, name, args = g.edges[ei]
            if name == "Tick":
                lines.append("S t=0 act=Clock ms=11")
            elif name in ("SCall", "SPush", "SPool", "SCreate", "CCall", "CClear", "TFlag", "TNotify", "TLockPool", "TJoin", "TClearQ",
                          "UCall", "UNotify", "ULockPool", "UJoin"):
                lines.append("S t=0 act=%s" % name)
            elif name == "TCall":
                lines.append("S t=0 act=TCall final=%d" % (1 if g.states[src]["opsLeft"] == 0 else 0))
            elif name == "SNotify":
                lines.append("S t=0 act=SNotify wake=%d" % (args[0] if args[0] != 0 else -1))
            else:
                lines.append("S t=%d act=%s" % (args[0], name))
        lines.append("E")
        meta[xid] = path
    return g, meta, "\n".join(lines) + "\n", st, len(covered), mx, maxspawn


def fget(f, i):
    """TLC prints a function with domain 1..n as a tuple."""
    return f[i - 1] if isinstance(f, tuple) else f[i]


def compare_projection(g, path, recs, maxspawn):
    for r in recs:
        if r.get("e") == "Drift":
            return "scheduler could not follow the script: " + r.get("why", "")
    steps = [r for r in recs if r.get("e") == "Step"]
    if len(steps) < len(path):
        return "only %d of %d steps were executed" % (len(steps), len(path))
    for i, ei in enumerate(path):
        dst = g.edges[ei][1]
        st = g.states[dst]
        pr = steps[i]["proj"]
        name = g.edges[ei][2]
        nw = st["nextW"] - 1
        exp = {"opc": st["opc"], "wpc": [fget(st["wpc"], w) for w in range(1, nw + 1)], "wtask": [fget(st["wtask"], w) for w in range(1, nw + 1)],
               "woken": [w in st["woken"] for w in range(1, nw + 1)]}
        if "queue" in pr:
            exp.update({"queue": list(st["queue"]), "pool": len(st["pool"]), "running": st["running"], "qmx": st["qmx"], "pmx": st["pmx"]})
        for k, v in exp.items():
            if pr.get(k) != v:
                return "step %d (%s): %s = %s, PoolImpl says %s" % (i, name, k, pr.get(k), v)
        if st["opc"] == "s_create" and st["nextW"] > maxspawn:
            continue
        spec_en = set()
        for oe in g.out.get(dst, ()):
            n2, a2 = g.edges[oe][2], g.edges[oe][3]
            if n2 in ("Spurious", "Tick"):
                continue
            spec_en.add(a2[0] if n2.startswith("W") else 0)
        real_en = set(steps[i]["en"])
        if spec_en != real_en:
            return "step %d (%s): enabled threads %s, PoolImpl says %s" % (i, name, sorted(real_en), sorted(spec_en))
    return None


def y_scripts(seed, count):
    rnd = random.Random("pool-%s" % seed)
    lines, cfgs = [], {}
    for i in range(count):
        mx = rnd.choice([1, 1, 2, 2, 3, 4]) if rnd.random() > 0.04 else 0   # 0: no worker may ever be spawned, tasks wait for stop()/clear()
        n = rnd.randrange(1, 9)
        prog = ""
        tasks = 0
        for _ in range(n):
            r = rnd.random()
            if r < 0.55 and tasks < 8:
                prog += "S" if rnd.random() < 0.7 else "K"   # K: the task is a callable with by-value arguments (TRunnable)
                tasks += 1
            elif r < 0.67:
                prog += "C"
            elif r < 0.80:
                prog += "T"
            elif r < 0.90:
                prog += "Q" if mx > 0 else "G"   # without workers nothing ever becomes quiescent-with-everything-run
            elif r < 0.925 and mx >= 2 and ("S" in prog or "K" in prog):
                prog += "L"     # setMaxThreadCount(1) while workers exist
            elif r < 0.95 and mx >= 1 and tasks < 5 and "L" not in prog:
                prog += "M"     # a second client thread calls start() concurrently with the owner (3 + 2 tasks)
                tasks += 5
            else:
                prog += "G"
        if rnd.random() < 0.5 and mx > 0:
            prog += "Q"
        sched = "seed=%d" % rnd.randrange(1, 2 ** 31)
        if rnd.random() < 0.35:
            sched += " pct=%d len=%d" % (rnd.randrange(1, 4), rnd.randrange(20, 150))
        else:
            sched += " stay=%d stayden=%d" % rnd.choice([(1, 2), (3, 4), (1, 4), (7, 8)])
        if rnd.random() < 0.3:
            sched += " spurious=%d" % rnd.choice([20, 60, 150])
        if i % 16 == 5 and mx >= 1:
            # the first worker cannot be created (pthread_create fails once with EAGAIN): start() throws, the task stays queued, and the
            # next start() -- which follows at once, the program begins with two submissions -- spawns the worker that runs both
            prog = "SS" + prog.replace("M", "S")
            sched += " failcreate=1"
        cfg = "mode=random max=%d prog=%s %s" % (mx, prog or "Q", sched)
        xid = "y%d" % i
        lines += ["X %s %s" % (xid, cfg), "E"]
        cfgs[xid] = cfg
    return "\n".join(lines) + "\n", cfgs


def p_events(recs):
    return [{"e": r["e"], "k": r.get("k", 0), "w": r.get("w", 0), "n": r.get("n", 0)} for r in recs if r.get("e") in P_EVENTS]


def owners(info):
    """Which property a rejected execution is attributed to, from the event that P refused."""
    nx = info.get("next") or {}
    e = nx.get("e")
    matched = info["events"][:info["matched"]]
    restarted = False
    seen_stop = False
    for ev in matched:
        if ev["e"] == "StopRet":
            seen_stop = True
        if ev["e"] == "Submit" and seen_stop:
            restarted = True
    if e == "Deadlock":
        return {"C08"} if nx.get("n") == ord("T") else {"C07"}
    if e in C08_EVENTS:
        return {"C08"}
    if e in ("Quiescent", "Done") and restarted:
        return {"C07", "C08"}
    if e == "StopRet":
        return {"C08"}
    if e == "Crash":
        return {"C07", "C08"} if any(ev["e"] == "StopCall" for ev in matched) and not any(ev["e"] == "StopRet" for ev in matched[-3:]) else {"C07"}
    return {"C07"}


def check(pid, tier, seed):
    t0 = time.time()
    verdict = common.Verdict(pid)
    exe, projecting = harness()
    mcs = model_checks(tier)
    execs, src = {}, {}
    tot_states = tot_edges = tot_cov = 0
    drifts = []
    dumps = []
    npaths = 0
    for cfgname in configs(tier):
        g, meta, script, dst, ncov, mx, maxspawn = x_scripts(cfgname)
        dumps.append(dst)
        tot_states += len(g.states)
        tot_edges += len(g.edges)
        tot_cov += ncov
        npaths += len(meta)
        res = common.run_harness(exe, script)
        for xid, path in meta.items():
            recs = res.get(xid, [])
            d = compare_projection(g, path, recs, maxspawn) if projecting else "projection unavailable (fields renamed)"
            if d:
                drifts.append(d)
            execs[xid] = p_events(recs)
            src[xid] = {"kind": "tlc-path", "config": cfgname, "max": mx,
                        "steps": ["%s%s" % (g.edges[ei][2], tuple(g.edges[ei][3]) if g.edges[ei][3] else "") for ei in path]}
        log("[%s] graph %s: %d states / %d edges, %d paths" % (pid, cfgname, len(g.states), len(g.edges), len(meta)))
    if drifts:
        log("DRIFT property=%s %d of %d replayed paths deviate from PoolImpl; first: %s" % (pid, len(drifts), npaths, drifts[0]))
    ycount = {"quick": 1500, "thorough": 200000}[tier]
    ys, ycfgs = y_scripts(seed, ycount)
    yres = common.run_harness(exe, ys)
    for xid, recs in yres.items():
        execs[xid] = p_events(recs)
        src[xid] = {"kind": "random", "cfg": ycfgs[xid]}
    # torn executions (see concrouter.py): the same kind of programs on the access-instrumented build, with a share of the
    # plain memory accesses as scheduling points
    from components import races
    tcount = {"quick": 800, "thorough": 30000}[tier]
    ts, tcfgs = y_scripts("%s-torn" % seed, tcount)
    ts = "\n".join((l.replace("X y", "X a", 1) + " accy=%d" % (500 + 700 * (k % 5))) if l.startswith("X y") else l for k, l in enumerate(ts.split("\n")))
    tres = common.run_harness(races._race_build("pool_race", "pool/pool_harness.cpp", REPO_SRC), ts)
    for xid, recs in tres.items():
        execs[xid] = p_events(recs)
        src[xid] = {"kind": "random-torn", "cfg": tcfgs["y" + xid[1:]] + " accy=on"}
    # thread creation that fails is not in the quantifier of C07 / C08 / C15: what happens in those executions is reported as a
    # specification note, whatever it is (the specification has grown to cover it; the properties have not)
    beyond = {x for x in execs if "failcreate=" in str(src[x].get("cfg", ""))}
    toolong = [x for x, e in execs.items() if any(ev["e"] == "TooLong" for ev in e)]
    for x in [t for t in toolong if t in beyond]:
        verdict.note("pool[thread creation fails] the execution does not end", src[x].get("cfg"))
        del execs[x]
    toolong = [t for t in toolong if t not in beyond]
    if toolong:
        raise common.InfraError("executions exceeded the step budget: %s" % toolong[:3])
    acc, rej, tst = tracecheck.validate(SPEC, "PoolPTrace.tla", "PoolPTrace_%s.cfg" % pid, execs)
    log("[%s] trace validation: %d executions (%d distinct), %d rejected, TLC %.1fs" % (pid, tst["executions"], tst["distinct_traces"], len(rej), tst["tlc_wall_s"]))
    for x, info in rej.items():
        if x in beyond:
            nx = info.get("next") or {}
            verdict.note("pool[thread creation fails]@%s(k=%s,n=%s)" % (nx.get("e"), nx.get("k"), nx.get("n")), src[x].get("cfg"))
            continue
        if pid in owners(info):
            nx = info.get("next") or {}
            sig = "pool@%s(k=%s,n=%s)" % (nx.get("e"), nx.get("k"), nx.get("n"))
            verdict.violation(sig, {"matched": info["matched"], "next": nx}, {"component": "pool", "xid": x, "source": src[x], "events": info["events"]})
    distinct = len({json.dumps(e) for e in execs.values()})
    samples = [{"source": src[x], "events": execs[x][:40]} for x in list(execs)[:1] + list(yres)[:2]]
    cov = {
        "states": tot_states, "transitions": tot_edges, "traces_validated_against_impl": len(execs), "samples": samples,
        "exhaustive": bool(projecting and not drifts and tot_cov == tot_edges),
        "evaluations": len(execs), "distinct_nontrivial": distinct,
        "rule": "X: path cover of every edge of TLC's graphs of PoolImpl (owner program of <= MaxOps start/clear/stop calls + final stop, "
                "worker threads at pthread-operation granularity); Y: random owner programs (<= 9 operations, <= 8 tasks, max threads 1-4, "
                "quiescence probes, restarts) under seeded random/PCT schedules with spurious wake-ups; distinct = distinct observable event sequences",
        "edge_cover": {"edges": tot_edges, "edges_replayed": tot_cov, "paths": npaths, "paths_conforming": npaths - len(drifts),
                       "drift": drifts[:5], "projection": projecting},
        "model_checks": mcs, "graph_dumps": dumps, "trace_validation": [tst],
    }
    rc = verdict.finish()
    common.write_evidence(pid, tier, seed, "model_checking", cov, ASSUMPTIONS, time.time() - t0, len(verdict.violations))
    return rc


TRACE_SPEC = lambda pid: ("PoolPTrace.tla", "PoolPTrace_%s.cfg" % pid)


def all_harnesses():
    exe, _ = harness()
    return {exe.name: exe}


def replay(pid, path):
    import sys
    return common.replay(pid, path, sys.modules[__name__])
