"""tulz::RingBuffer: C04 (bounded deque semantics) and C09 (element lifetimes).

TLC model-checks RingBufferImpl (the header transcribed: index arithmetic, three resize branches,
shells) against BDeque; every edge of its state graph (every internal layout x operation, for the
stated capacities) is executed on the real container for int / std::string / lifetime-tracked
elements and the public observations are compared with the TLC state (X); longer random histories
with capacities up to 16 are validated by TLC against BDequeTrace (Y).
"""
import json
import random
import time
from collections import Counter

from lib import common, pathcover, tracecheck
from lib.common import log

SPEC = common.SPEC / "containers"
FLAGS = ["-O1", "-g", "-UNDEBUG", "-fno-lifetime-dse", "-fsanitize=address,undefined", "-fno-omit-frame-pointer"]

ASSUMPTIONS = [
    "element types are bitwise relocatable (int, heap-allocated std::string, the tracked type); libstdc++ short strings are not and are excluded by the property",
    "histories respect the documented preconditions (no pop/front/back on empty, no push on a full non-overwriting buffer, capacity >= 1, moved-from objects are only assigned to or destroyed)",
    "TLC results are exhaustive for the stated capacities only; larger capacities are sampled (direction Y)",
    "out-of-bounds accesses and leaks are observed by AddressSanitizer/LeakSanitizer during the replays, not proved absent",
]


PLAIN_FLAGS = ["-O1", "-g", "-UNDEBUG", "-fno-lifetime-dse", "-fno-omit-frame-pointer"]


def harness(sanitize=True):
    """C09 runs the sanitized build (memory errors are its subject); C04 runs an unsanitized build so that a
    wrong index shows as wrong contents instead of ending the history at the first out-of-bounds access."""
    flags = FLAGS if sanitize else PLAIN_FLAGS
    tag = "asan" if sanitize else "plain"
    exe = common.build("ringbuffer_proj_" + tag, ["containers/ringbuffer_harness.cpp"], flags + ["-DVS_PROJECT"], [], may_fail=True)
    if exe is not None:
        return exe, True
    return common.build("ringbuffer_noproj_" + tag, ["containers/ringbuffer_harness.cpp"], flags, []), False


def graphs(tier):
    if tier == "quick":
        return [("one_TRUE", ["int", "str", "trk", "vec", "weq"]), ("one_FALSE", ["int", "str", "trk", "vec", "weq"]), ("two_TRUE", ["trk"]), ("two_FALSE", ["trk"])]
    return [("one4_TRUE", ["int", "str", "trk", "vec", "weq"]), ("one4_FALSE", ["int", "str", "trk", "vec", "weq"]), ("one5_TRUE", ["trk"]), ("one5_FALSE", ["trk"]),
            ("two_TRUE", ["int", "str", "trk"]), ("two_FALSE", ["int", "str", "trk"])]


def mc_only(tier):
    """Configurations that are model-checked but too large to dump and replay edge by edge (1.7 M states)."""
    return ["two3_TRUE"] if tier == "thorough" else []


def model_checks(tier):
    res = []
    for name in [n for n, _ in graphs(tier)] + mc_only(tier):
        res.append(common.model_check(SPEC, "MC_RingBuffer.tla", "MC_RingBuffer_%s.cfg" % name, "RingBufferImpl=>BDeque " + name, heap="16g"))
    return res


def step_line(g, ei):
    src, dst, name, args = g.edges[ei]
    o = args[0]
    d = g.states[dst]
    op = name[:-1]  # PushBackA -> PushBack
    if op == "PushBack":
        return "S op=PushBack o=%s v=%d" % (o, d["buf"][o][-1])
    if op == "PushFront":
        return "S op=PushFront o=%s v=%d" % (o, d["buf"][o][0])
    if op == "Resize":
        return "S op=Resize o=%s n=%d" % (o, args[1])
    return "S op=%s o=%s" % (op, o)


def x_scripts(name, types, huge=True):
    dot, st = common.dump_graph(SPEC, "MC_RingBuffer.tla", "MC_RingBuffer_%s.cfg" % name, "RingBuffer-" + name)
    g = common.load_graph(dot)
    ow = 1 if name.endswith("TRUE") else 0
    lines, meta = [], {}
    covered = set()
    # in the two-object graphs the single-object operations are only connectors (they are covered,
    # layout by layout, by the one-object graphs): the edges to cover are the two-object operations
    two = name.startswith("two")
    flt = (lambda e: e[2] in ("CopyConstructA", "CopyAssignA", "MoveConstructA", "MoveAssignA", "DestroyA")) if two else None
    nwant = sum(1 for e in g.edges if flt is None or flt(e))
    for init in g.init:
        paths, covered = pathcover.cover(g, init=init, max_len=80, covered=covered, edge_filter=flt)
        s0 = g.states[init]
        for pi, path in enumerate(paths):
            for ty in types:
                xid = "%s-%d-%d-%s" % (name, init % 100000, pi, ty)
                lines.append("X %s type=%s ow=%d cap=%d init=%d list=%d" % (xid, ty, ow, s0["cap"]["A"], len(s0["buf"]["A"]), (pi + len(s0["buf"]["A"])) % 2))
                for ei in path:
                    lines.append(step_line(g, ei))
                lines.append("E")
                meta[xid] = (name, init, path, ty)
    if name.startswith("one") and huge:
        # the same behaviours on a buffer of 2^32 + cap slots (element type unsigned char; the storage is only touched where elements
        # are): every behaviour that never fills the model's buffer and does not resize -- its answers do not depend on the capacity
        def small(e):
            d = g.states[e[1]]
            return e[2] in ("PushBackA", "PushFrontA", "PopBackA", "PopFrontA", "ClearA") and len(d["buf"]["A"]) < d["cap"]["A"]
        for init in g.init:
            s0 = g.states[init]
            if len(s0["buf"]["A"]) != 0 or s0["cap"]["A"] < 3:
                continue
            for pi, path in enumerate(walks_within(g, init, small)):
                xid = "%s-%d-%d-huge" % (name, init % 100000, pi)
                lines.append("X %s type=u8 ow=%d cap=%d init=0 huge=1" % (xid, ow, s0["cap"]["A"]))
                lines += [step_line(g, ei) for ei in path]
                lines.append("E")
                meta[xid] = (name, init, path, "u8")
    ncov = sum(1 for ei in covered if flt is None or flt(g.edges[ei]))
    return g, meta, "\n".join(lines) + "\n", st, (ncov, nwant)


def walks_within(g, init, ok, limit=60):
    """Paths from init that only use edges accepted by ok(), covering each such reachable edge once (depth-first)."""
    paths, seen = [], set()

    def rec(node, path, depth):
        ext = False
        for ei in g.out.get(node, ()):
            if ei in seen or not ok(g.edges[ei]) or depth >= 12:
                continue
            seen.add(ei)
            ext = True
            path.append(ei)
            rec(g.edges[ei][1], path, depth + 1)
            path.pop()
        if not ext and path:
            paths.append(list(path))
    rec(init, [], 0)
    return paths[:limit]


def compare(g, init, path, ty, recs):
    """Returns (c04_problem, c09_problem, drift). Each None or a string."""
    c04 = c09 = drift = None
    obs = {r["i"]: r for r in recs if r.get("e") == "Obs"}
    crash = next((r for r in recs if r.get("e") == "Crash"), None)
    fin = next((r for r in recs if r.get("e") == "Final"), None)
    states = [g.states[init]] + [g.states[g.edges[ei][1]] for ei in path]
    for k, stt in enumerate(states):
        i = k - 1
        r = obs.get(i)
        opname = "Create" if i < 0 else g.edges[path[i]][2][:-1]
        if r is None:
            break
        for o in ("A", "B"):
            exp_st = stt["st"][o]
            ob = r[o]
            if exp_st == "none":
                if ob is not None and c04 is None:
                    c04 = "step %d (%s): object %s should not exist" % (i, opname, o)
                continue
            if exp_st == "moved":
                continue
            items = list(stt["buf"][o])
            if not isinstance(ob, dict):
                c04 = c04 or "step %d (%s): object %s not observable" % (i, opname, o)
                continue
            want = {"size": len(items), "cap": stt["cap"][o], "items": items, "iter": items, "citer": items,
                    "empty": len(items) == 0, "full": len(items) == stt["cap"][o], "itok": True, "eqsame": True, "eqlonger": False}
            if items:
                want.update({"front": items[0], "back": items[-1], "frontalias": True, "backalias": True, "eqdiff": False})
            for kf, v in want.items():
                if ob.get(kf) != v and c04 is None:
                    c04 = "step %d (%s) object %s: %s = %s, deque model says %s (contents %s)" % (i, opname, o, kf, ob.get(kf), v, items)
            if "pos" in ob and ob["pos"] != stt["pos"][o] and drift is None:
                drift = "step %d (%s): m_pos = %s, RingBufferImpl says %s" % (i, opname, ob["pos"], stt["pos"][o])
        if i >= 0:
            if r["ret"] != stt["ret"] and c04 is None:
                c04 = "step %d (%s): returned %s, deque model says %s" % (i, opname, r["ret"], stt["ret"])
            if opname in ("PushBack", "PushFront"):
                o = g.edges[path[i]][3][0]
                v = stt["buf"][o][-1] if opname == "PushBack" else stt["buf"][o][0]
                if (r.get("alias") is not True or r.get("refval") != v) and c04 is None:
                    c04 = "step %d (%s): returned reference does not alias the inserted element %s (alias=%s, value %s)" % (i, opname, v, r.get("alias"), r.get("refval"))
            if "eqAB" in r:
                exp = list(stt["buf"]["A"]) == list(stt["buf"]["B"])
                if (r["eqAB"] != exp or r["eqBA"] != exp) and c04 is None:
                    c04 = "step %d (%s): A==B is %s/%s, model says %s" % (i, opname, r["eqAB"], r["eqBA"], exp)
        if ty == "trk" and c09 is None:
            if r.get("anom"):
                c09 = "step %d (%s): %s" % (i, opname, r["anom"][0])
            else:
                definite = Counter(list(stt["buf"]["A"]) + list(stt["buf"]["B"]))
                maybe = Counter(list(stt["limbo"]["A"]) + list(stt["limbo"]["B"]))
                live = Counter(r.get("live", []))
                missing = definite - live
                extra = live - definite
                if missing:
                    c09 = "step %d (%s): element values %s are in the container but their objects are destroyed" % (i, opname, sorted(missing.elements()))
                elif extra - maybe:
                    c09 = "step %d (%s): values %s are still alive but no longer in any container (not destroyed)" % (i, opname, sorted((extra - maybe).elements()))
    if crash is not None:
        txt = crash.get("stderr", "")
        if "Sanitizer" in txt:
            c09 = c09 or "sanitizer report during a valid history: " + " ".join(txt.split())[:300]
        else:
            c04 = c04 or "history ended by signal %s / %s" % (crash.get("sig"), " ".join(txt.split())[:200])
            c09 = c09 or "signal %s during a valid history: %s" % (crash.get("sig"), " ".join(txt.split())[:200])
    elif fin is not None and c09 is None:
        if fin.get("anom"):
            c09 = "after destroying everything: " + fin["anom"][0]
        elif fin.get("live"):
            c09 = "after destroying everything values %s are still alive (leak)" % fin["live"]
        elif fin.get("lsan_leak"):
            c09 = "LeakSanitizer: memory allocated by the container was never freed"
    elif fin is None and len(obs) < len(states):
        c04 = c04 or "history stopped after %d of %d steps" % (len(obs) - 1, len(path))
    return c04, c09, drift


# ------------------------------------------------------------------------------------------
# direction Y
# ------------------------------------------------------------------------------------------
def y_scripts(seed, count):
    rnd = random.Random("rb-%s" % seed)
    lines, cfgs = [], {}
    for n in range(count):
        ow = rnd.randrange(2)
        cap = rnd.choice([1, 2, 3, 4, 5, 7, 8, 11, 16])
        init = rnd.randrange(0, min(cap, 4) + 1)
        ty = rnd.choice(["int", "str", "trk", "vec"])
        if ty == "int" and n % 2 == 0:
            ty = "weq"       # trivially copyable, but equal elements need not be equal bytes (comparison is part of C04)
        xid = "y%d" % n
        hdr = "X %s type=%s ow=%d cap=%d init=%d list=%d" % (xid, ty, ow, cap, init, rnd.randrange(2))
        lines.append(hdr)
        size = {"A": init, "B": 0}
        capo = {"A": cap, "B": 0}
        stt = {"A": "live", "B": "none"}
        nextv = init + 1
        steps = []
        for _ in range(rnd.randrange(10, 120)):
            o = "A" if stt["B"] != "live" or rnd.random() < 0.7 else "B"
            other = "B" if o == "A" else "A"
            r = rnd.random()
            cands = []
            if stt[o] == "live":
                if size[o] < capo[o] or ow:
                    cands += ["PushBack", "PushFront"] * 3
                if size[o] > 0:
                    cands += ["PopBack", "PopFront"] * 2
                cands += ["Resize"]
                if rnd.random() < 0.15:
                    cands += ["SelfCopyAssign", "SelfMoveAssign"]
                if ow and size[o] == capo[o] and size[o] > 0 and rnd.random() < 0.3:
                    cands += ["PushBackOfFront", "PushFrontOfBack"] * 2
            if r < 0.12:
                cands = []
                if stt["B"] == "none":
                    cands += ["CopyConstruct:B", "MoveConstruct:B"]
                else:
                    for t in ("A", "B"):
                        u = "B" if t == "A" else "A"
                        if stt[u] == "live":
                            cands += ["CopyAssign:" + t, "MoveAssign:" + t]
                    cands += ["Destroy:B"]
            if not cands:
                continue
            c = rnd.choice(cands)
            if ":" in c:
                op, t = c.split(":")
                u = "B" if t == "A" else "A"
                if op in ("CopyConstruct", "CopyAssign"):
                    if stt[u] != "live":
                        continue
                    size[t], capo[t], stt[t] = size[u], capo[u], "live"
                elif op in ("MoveConstruct", "MoveAssign"):
                    if stt[u] != "live":
                        continue
                    size[t], capo[t], stt[t] = size[u], capo[u], "live"
                    size[u], capo[u], stt[u] = 0, 0, "moved"
                else:
                    size[t], capo[t], stt[t] = 0, 0, "none"
                steps.append("S op=%s o=%s" % (op, t))
                continue
            if c in ("PushBack", "PushFront"):
                steps.append("S op=%s o=%s v=%d" % (c, o, nextv))
                nextv += 1
                size[o] = min(size[o] + 1, capo[o])
            elif c in ("PopBack", "PopFront"):
                steps.append("S op=%s o=%s" % (c, o))
                size[o] -= 1
            elif c in ("SelfCopyAssign", "SelfMoveAssign", "PushBackOfFront", "PushFrontOfBack"):
                steps.append("S op=%s o=%s" % (c, o))
            else:
                n2 = rnd.choice([1, 2, 3, 4, 5, 6, 8, 9, 12, 16])
                steps.append("S op=Resize o=%s n=%d" % (o, n2))
                capo[o] = n2
                size[o] = min(size[o], n2)
        lines += steps
        lines.append("E")
        cfgs[xid] = {"header": hdr, "steps": steps, "ow": ow, "ty": ty}
    return "\n".join(lines) + "\n", cfgs


def y_events(recs, steps):
    """Recorded observations -> events of BDequeTrace."""
    evs = []
    obs = [r for r in recs if r.get("e") == "Obs"]
    for r in obs:
        i = r["i"]
        e = {"e": r["op"], "o": "A", "v": 0, "n": 0, "ret": r["ret"]}
        if i >= 0:
            kv = dict(t.split("=") for t in steps[i].split()[1:])
            e["o"] = kv.get("o", "A")
            e["v"] = int(kv.get("v", 0))
            e["n"] = int(kv.get("n", 0))
        for o, ks, ki, kc in (("A", "sa", "ia", "ca"), ("B", "sb", "ib", "cb")):
            ob = r[o]
            if isinstance(ob, dict):
                ok = ob["items"] == ob["iter"] == ob["citer"] and ob["size"] == len(ob["items"])
                e[ks], e[ki], e[kc] = "live", ob["items"] if ok else [-1], ob["cap"]
            elif ob == "moved":
                e[ks], e[ki], e[kc] = "moved", [], 0
            else:
                e[ks], e[ki], e[kc] = "none", [], 0
        evs.append(e)
    return evs


def check(pid, tier, seed):
    t0 = time.time()
    verdict = common.Verdict(pid)
    exe, projecting = harness(sanitize=(pid == "C09"))
    mcs = model_checks(tier)
    total_states = total_edges = replayed = wanted = 0
    nexec = 0
    drifts = []
    layouts = set()
    samples = []
    dumps = []
    for name, types in graphs(tier):
        # (not under ASan: poisoning the shadow of a 4 GiB block takes seconds per execution; C04's build is the plain one)
        g, meta, script, st, (ncov, nwant) = x_scripts(name, types, huge=(pid == "C04"))
        dumps.append(st)
        total_states += len(g.states)
        total_edges += len(g.edges)
        replayed += ncov
        wanted += nwant
        res = common.run_harness(exe, script)
        for xid, (nm, init, path, ty) in meta.items():
            recs = res.get(xid, [])
            nexec += 1
            c04, c09, drift = compare(g, init, path, ty, recs)
            if drift:
                drifts.append(drift)
            for r in recs:
                if r.get("e") == "Obs" and isinstance(r.get("A"), dict):
                    layouts.add((r["A"].get("pos"), r["A"]["size"], r["A"]["cap"]))
            prob = c04 if pid == "C04" else c09
            if prob:
                ops = [" ".join(step_line(g, ei).split()[1:]) for ei in path]
                k = int(prob.split()[1]) if prob.startswith("step ") and prob.split()[1].lstrip("-").isdigit() else len(ops) - 1
                sig = "ringbuffer[%s,%s] %s" % (ty, "ow" if nm.endswith("TRUE") else "now", prob.split(":")[0] if pid == "C04" else " ".join(prob.split()[2:8]))
                verdict.violation(sig, prob, {"component": "ringbuffer", "xid": xid, "type": ty, "overwrite": nm.endswith("TRUE"),
                                              "initial": {"cap": g.states[init]["cap"]["A"], "contents": list(g.states[init]["buf"]["A"])},
                                              "history": ops[:k + 1]})
            if len(samples) < 2 and len(path) > 4:
                samples.append({"source": "tlc-path " + nm, "type": ty, "history": [" ".join(step_line(g, ei).split()[1:]) for ei in path][:25]})
        log("[%s] graph %s: %d states / %d edges, %d executions so far" % (pid, name, len(g.states), len(g.edges), nexec))
    if drifts:
        log("DRIFT property=%s %d executions deviate from RingBufferImpl's layout; first: %s" % (pid, len(drifts), drifts[0]))

    # direction Y
    ycount = {"quick": 600, "thorough": 12000}[tier]
    ys, ycfg = y_scripts(seed, ycount)
    yres = common.run_harness(exe, ys)
    tstats = []
    if pid == "C04":
        for owv, cfgname in ((1, "BDequeTrace_TRUE.cfg"), (0, "BDequeTrace_FALSE.cfg")):
            execs = {x: y_events(yres.get(x, []), c["steps"]) for x, c in ycfg.items() if c["ow"] == owv}
            execs = {x: e for x, e in execs.items() if e}
            acc, rej, stt = tracecheck.validate(SPEC, "BDequeTrace.tla", cfgname, execs)
            tstats.append(stt)
            log("[C04] trace validation ow=%d: %d histories, %d rejected, TLC %.1fs" % (owv, len(execs), len(rej), stt["tlc_wall_s"]))
            for x, info in rej.items():
                crash = next((r for r in yres[x] if r.get("e") == "Crash"), None)
                if crash and info["matched"] >= len(info["events"]) - 1:
                    continue
                nx = info["next"] or {}
                sig = "ringbuffer[%s,%s] random history rejected at %s" % (ycfg[x]["ty"], "ow" if owv else "now", nx.get("e"))
                verdict.violation(sig, {"matched": info["matched"], "next": nx},
                                  {"component": "ringbuffer", "xid": x, "header": ycfg[x]["header"], "history": ycfg[x]["steps"][:info["matched"] + 1]})
        for x, c in ycfg.items():
            recs = yres.get(x, [])
            crash = next((r for r in recs if r.get("e") == "Crash"), None)
            if crash and "Sanitizer" not in crash.get("stderr", ""):
                verdict.violation("ringbuffer[%s] random history ended by a signal" % c["ty"], crash.get("stderr", "")[:300],
                                  {"component": "ringbuffer", "xid": x, "header": c["header"], "history": c["steps"]})
    else:
        for x, c in ycfg.items():
            recs = yres.get(x, [])
            prob = None
            crash = next((r for r in recs if r.get("e") == "Crash"), None)
            fin = next((r for r in recs if r.get("e") == "Final"), None)
            nobs = 0
            for r in recs:
                if r.get("e") == "Obs":
                    nobs += 1
                    if r.get("anom"):
                        prob = "step %d (%s): %s" % (r["i"], r["op"], r["anom"][0])
                        break
                    if c["ty"] == "trk":
                        inside = []
                        for o in ("A", "B"):
                            if isinstance(r[o], dict):
                                inside += r[o]["items"]
                        live = Counter(r.get("live", []))
                        if Counter(inside) - live:
                            prob = "step %d (%s): values %s are in a container but destroyed" % (r["i"], r["op"], sorted((Counter(inside) - live).elements()))
                            break
            if prob is None and crash is not None:
                prob = "sanitizer / signal during a valid history: " + " ".join(crash.get("stderr", "").split())[:300]
            if prob is None and fin is not None:
                if fin.get("anom"):
                    prob = "after destroying everything: " + fin["anom"][0]
                elif fin.get("live"):
                    prob = "after destroying everything values %s are still alive (leak)" % fin["live"]
                elif fin.get("lsan_leak"):
                    prob = "LeakSanitizer: memory allocated by the container was never freed"
            if prob:
                verdict.violation("ringbuffer[%s] %s" % (c["ty"], " ".join(prob.split()[2:8])), prob,
                                  {"component": "ringbuffer", "xid": x, "header": c["header"], "history": c["steps"][:max(1, nobs)]})
    for x in list(ycfg)[:1]:
        samples.append({"source": "random", "header": ycfg[x]["header"], "history": ycfg[x]["steps"][:25]})
    nexec += len(ycfg)
    cov = {
        "states": total_states, "transitions": total_edges,
        "traces_validated_against_impl": nexec, "samples": samples,
        "exhaustive": bool(replayed == wanted and not drifts and projecting),
        "evaluations": nexec, "distinct_nontrivial": len(layouts),
        "rule": "X: path cover of every edge of TLC's graphs of RingBufferImpl (every reachable (head, size, capacity, shell pattern) x operation "
                "for the listed capacities, both overwrite modes, one- and two-object configurations) executed for each element type; "
                "Y: random histories (capacity <= 16, 10-120 operations); distinct_nontrivial = distinct (m_pos, size, capacity) layouts reached on the real object",
        "edge_cover": {"edges": total_edges, "edges_to_cover": wanted, "edges_replayed": replayed,
                       "note": "in two-object graphs only the copy/move/assign/destroy edges are to be covered; single-object edges are covered in the one-object graphs", "drift": drifts[:5], "projection": projecting},
        "model_checks": mcs, "graph_dumps": dumps, "trace_validation": tstats,
    }
    extra_cov = None
    if tier == "thorough":   # the neighbouring specification module that no property speaks about (SPEC-NOTEs only)
        from lib import extrarun
        extra_cov = {"spec_growth": extrarun.summary("iters", tier, seed)}
    rc = verdict.finish()
    common.write_evidence(pid, tier, seed, "model_checking", cov, ASSUMPTIONS, time.time() - t0, len(verdict.violations), extra=extra_cov)
    return rc


def all_harnesses():
    a, _ = harness(True)
    b, _ = harness(False)
    return {a.name: a, b.name: b}


def replay(pid, path):
    import sys
    return common.replay(pid, path, sys.modules[__name__])
