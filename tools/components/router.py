"""tulz::SubjectRouter / ConcurrentSubjectRouter from one thread: C06 (matching and argument delivery) and C13 (shrink / exists / depth).

Router.tla (tree of keys, per-key subjects, lazy removal, shrink() transcribed) is model-checked by TLC
(prefix closure, exists/depth consistency, the shrink obligations evaluated on every Shrink step); every
edge of its state graph -- subscribe / unsubscribe / invalidate / notify(pattern) / shrink(pattern) from
every reachable tree -- is executed on both router classes for five argument signatures; deliveries,
received values, return values, exists() of every probe pattern and depth() are compared with TLC.
"""
import json
import random
import time

from lib import common, pathcover, tracecheck
from lib.common import log

SPEC = common.SPEC / "observer"
# vptr is off: the router stores every Subject<Args...> as Subject<> by design (reinterpret_cast), which UBSan's
# vptr check reports on every destruction; that type erasure is not what C06/C13 are about
FLAGS = ["-O1", "-g", "-UNDEBUG", "-fsanitize=address,undefined", "-fno-sanitize=nonnull-attribute,vptr", "-fno-omit-frame-pointer"]
REPO_SRC = ["src/observer/routing/SubjectRouter.cpp", "src/observer/routing/RoutingKey.cpp", "src/observer/routing/RoutingKeyBuilder.cpp",
            "src/observer/routing/RoutingLevelView.cpp", "src/threading/rwp/Resource.cpp"]
SIGS = ["none", "int", "str", "cref", "istr"]
EXPECT = {"none": lambda a: 0, "int": lambda a: a * 7 + 1, "str": lambda a: a, "cref": lambda a: a, "istr": lambda a: (a + 100) * 1000 + a}
ASSUMPTIONS = [
    "notify is called with explicit template arguments and correctly typed rvalues, and every observer under a router uses the same signature (the documented calling convention)",
    "the match table of the specification (names a, b, c, ab against the regexes .*, a, a|b, [^a], c, a|ab, a.*?) is checked against std::regex_match in every shard",
    "keys whose only observers are invalidated but not yet lazily removed may or may not survive a shrink (the model follows the code: they survive)",
    "order of deliveries across different keys is not judged; within one key it is subscription order",
    "TLC results are exhaustive for keys of depth <= 2 over {a,b}, <= 3 subscriptions (quick: <= 2 for the full pattern sets), patterns of <= 2 levels; deeper trees in thorough",
]


def level_match(l, name):
    return {"r:.*": True, "r:a": name == "a", "r:a|b": name in ("a", "b"), "r:[^a]": name in ("b", "c"), "r:c": name == "c",
            "r:a|ab": name in ("a", "ab"), "r:a.*?": name in ("a", "ab"), "r:.+": name != ""}.get(l, l == name)


def harness():
    return common.build("router_h", ["observer/router_harness.cpp"], FLAGS, REPO_SRC, libs=("-lpthread",))


def pstr(p):
    return "/".join(x if x != "" else "~" for x in p) if len(p) else "-"     # "~" stands for an empty level


def step_line(g, ei, k):
    _, _, name, args = g.edges[ei]
    if name == "Subscribe":
        return "S op=Subscribe k=%s" % pstr(args[0])
    if name in ("Unsubscribe", "Invalidate"):
        return "S op=%s id=%d" % (name, args[0])
    if name == "Notify":
        return "S op=Notify p=%s a=%d" % (pstr(args[0]), k + 1)
    return "S op=Shrink p=%s" % pstr(args[0])


def graph_for(cfg):
    dot, st = common.dump_graph(SPEC, "MC_Router.tla", "MC_Router_%s.cfg" % cfg, "Router-" + cfg, heap="16g", workers=4)
    return common.load_graph(dot), st


def x_scripts(cfg, variants, max_len=80):
    g, st = graph_for(cfg)
    paths, covered = pathcover.cover(g, max_len=max_len)
    probes = sorted(g.states[g.init[0]]["ex"].keys())
    pheader = ";".join(pstr(p) for p in probes)
    lines, meta = [], {}
    for pi, path in enumerate(paths):
        for (rt, sig) in variants:
            xid = "%s-%d-%s-%s" % (cfg, pi, rt, sig)
            lines.append("X %s router=%s sig=%s table=%d probes=%s" % (xid, rt, sig, 1 if pi % 97 == 0 else 0, pheader))
            for k, ei in enumerate(path):
                lines.append(step_line(g, ei, k))
            lines.append("E")
            meta[xid] = (path, rt, sig)
    return g, probes, meta, "\n".join(lines) + "\n", st, len(covered)


def compare(g, probes, path, sig, recs, pid):
    """Returns (c06 problem, c13 problem)."""
    c06 = c13 = None
    obs = {r["i"]: r for r in recs if r.get("e") == "Obs"}
    crash = next((r for r in recs if r.get("e") == "Crash"), None)
    fin = next((r for r in recs if r.get("e") == "Final"), None)
    mt = next((r for r in recs if r.get("e") == "MatchTable"), None)
    if mt:
        for k, v in mt["t"].items():
            l, name = k.split("~")
            if level_match(l, name) != v:
                raise common.InfraError("std::regex_match disagrees with the specification's match table for %s" % k)
    for i, ei in enumerate(path):
        src, dst, name, args = g.edges[ei]
        st = g.states[dst]
        r = obs.get(i)
        if r is None:
            break
        if name == "Notify" and c06 is None:
            d, ret = g.states[src]["nf"][args[0]]
            ids = [e[0] for e in r["log"]]
            if sorted(ids) != sorted(d):
                c06 = "step %d notify(%s): delivered to %s, model says exactly %s once each" % (i, pstr(args[0]), sorted(ids), sorted(d))
            elif any(e[1] != EXPECT[sig](i + 1) for e in r["log"]):
                c06 = "step %d notify(%s): received values %s, every receiver must get %s" % (i, pstr(args[0]), [e[1] for e in r["log"]], EXPECT[sig](i + 1))
            elif r["ret"] != ret:
                c06 = "step %d notify(%s): returned %s, model says %s matched keys with a subject" % (i, pstr(args[0]), r["ret"], ret)
            else:
                keyof = {e["id"]: e["key"] for e in g.states[src]["obs"]}
                seen = {}
                for x in ids:
                    k = keyof.get(x)
                    if k in seen and seen[k] > x:
                        c06 = "step %d notify(%s): observers of key %s invoked out of subscription order %s" % (i, pstr(args[0]), pstr(k), ids)
                    seen[k] = x
        if c13 is None:
            exp_ex = [1 if st["ex"][p] else 0 for p in probes]
            if r["ex"] != exp_ex:
                bad = [pstr(p) for p, a, b in zip(probes, r["ex"], exp_ex) if a != b]
                c13 = "step %d (%s %s): exists() differs from the model for patterns %s" % (i, name, pstr(args[0]) if name in ("Notify", "Shrink", "Subscribe") else args[0], bad[:6])
            elif r["dp"] != st["dp"]:
                c13 = "step %d (%s): depth() = %s, model says %s" % (i, name, r["dp"], st["dp"])
        gone = sorted(set(range(1, st["nid"])) - {e["id"] for e in st["obs"]})
        if sorted(r["destroyed"]) != gone:
            msg = "step %d (%s): observers destroyed so far %s, model says %s" % (i, name, sorted(r["destroyed"]), gone)
            if name == "Shrink":
                c13 = c13 or msg    # a shrink that destroys (or fails to keep) an observer: "never removes a live subscription"
            else:
                c06 = c06 or msg
    if crash is not None:
        msg = "sanitizer / signal during a valid history: " + " ".join(crash.get("stderr", "").split())[:300]
        # attribute to the property whose operation was running: the step after the last observation
        k = len(obs)
        opn = g.edges[path[k]][2] if k < len(path) else "?"
        if opn == "Shrink":
            c13 = c13 or msg
        else:
            c06 = c06 or msg
            if "::shrink" in crash.get("freed_by", ""):
                # the operation that crashed touched memory that an earlier shrink() had released ("freed by ... Node::shrink"):
                # that shrink removed something a later operation still needed, which is C13's business as well
                c13 = c13 or msg
    elif fin is not None:
        if sorted(fin["destroyed"]) != list(range(1, fin["subscribed"] + 1)):
            c06 = c06 or "after destroying the router: observers destroyed %s of %d subscribed" % (sorted(fin["destroyed"]), fin["subscribed"])
        elif fin.get("lsan_leak"):
            c13 = c13 or "LeakSanitizer: memory leaked"
    elif len(obs) < len(path):
        c06 = c06 or "history stopped after %d of %d steps" % (len(obs), len(path))
    return c06, c13


YLEVELS = ["a", "b", "c", "r:.*", "r:a|b", "r:[^a]", "r:c", "ab", "r:a|ab", "r:a.*?"]
YPROBES = [("a",), ("c",), ("a", "b"), ("r:.*", "r:.*"), ("a", "r:[^a]", "c"), ("r:.*", "r:.*", "r:.*"), ("r:a|b", "r:.*", "r:.*", "r:.*"),
           ("a", "b", "c", "a"), ("r:[^a]",), ("b", "r:a|b"), ("r:a|ab",), ("ab", "r:a.*?")]


def y_scripts(seed, count):
    """Random histories over deeper trees (keys of depth <= 4 over {a,b,c,ab}, up to 8 subscriptions)."""
    rnd = random.Random("router-%s" % seed)
    lines, cfgs = [], {}
    for n in range(count):
        rt = rnd.choice(["plain", "conc"])
        sig = rnd.choice(SIGS)
        xid = "y%d" % n
        steps = []
        alive, invalid, nid = [], set(), 1
        used_keys = []
        throwing = n % 6 == 4    # every sixth history: some callbacks throw out of notify(); no invalidated observers in these
        thr_of = {}
        for k in range(rnd.randrange(10, 40)):
            r = rnd.random()
            if throwing and 0.42 <= r < 0.50:
                r = 0.6     # a notify instead of an Invalidate
            if (r < 0.3 or not alive) and nid <= 8:
                key = tuple(rnd.choice(["a", "b", "c", "a", "b", "ab"]) for _ in range(rnd.randrange(1, 5)))
                if used_keys and rnd.random() < 0.45:
                    key = rnd.choice(used_keys)    # several observers under one key, subscribed at different times
                used_keys.append(key)
                steps.append(("Subscribe", key, nid))
                thr_of[nid] = 1 if throwing and rnd.random() < 0.3 else 0
                alive.append(nid)
                nid += 1
            elif r < 0.42 and [i for i in alive if i not in invalid]:
                i = rnd.choice([i for i in alive if i not in invalid])
                alive.remove(i)
                steps.append(("Unsubscribe", (), i))
            elif r < 0.50 and [i for i in alive if i not in invalid]:
                i = rnd.choice([i for i in alive if i not in invalid])
                invalid.add(i)
                steps.append(("Invalidate", (), i))
            elif r < 0.80:
                steps.append(("Notify", tuple(rnd.choice(YLEVELS) for _ in range(rnd.randrange(1, 5))), 0))
            else:
                steps.append(("Shrink", tuple(rnd.choice(["r:.*", "r:.*", "a", "b", "r:[^a]"]) for _ in range(rnd.randrange(1, 5))), 0))
        lines.append("X %s router=%s sig=%s table=0 probes=%s" % (xid, rt, sig, ";".join(pstr(p) for p in YPROBES)))
        for k, (op, p, i) in enumerate(steps):
            if op == "Subscribe":
                lines.append("S op=Subscribe k=%s thr=%d" % (pstr(p), thr_of.get(i, 0)))
            elif op in ("Unsubscribe", "Invalidate"):
                lines.append("S op=%s id=%d" % (op, i))
            elif op == "Notify":
                lines.append("S op=Notify p=%s a=%d" % (pstr(p), k + 1))
            else:
                lines.append("S op=Shrink p=%s" % pstr(p))
        lines.append("E")
        cfgs[xid] = {"rt": rt, "sig": sig, "steps": steps, "thr": thr_of}
    return "\n".join(lines) + "\n", cfgs


def y_check(pid, tier, seed, exe, verdict):
    count = {"quick": 400, "thorough": 8000}[tier]
    script, cfgs = y_scripts(seed, count)
    res = common.run_harness(exe, script)
    execs = {}
    for x, c in cfgs.items():
        recs = res.get(x, [])
        evs = [{"op": "Probes", "p": [], "id": 0, "dl": [], "ret": 0, "dp": 0, "ex": [], "probes": [list(p) for p in YPROBES], "thr": 0}]
        bad_values = None
        for r in recs:
            if r.get("e") != "Obs":
                continue
            op, p, i = c["steps"][r["i"]]
            if op == "Notify" and any(e[1] != EXPECT[c["sig"]](r["i"] + 1) for e in r["log"]) and bad_values is None:
                bad_values = (r["i"], p, [e[1] for e in r["log"]])
            evs.append({"op": r.get("op", op) if op == "Notify" else op, "p": list(p), "id": i, "dl": sorted(e[0] for e in r["log"]), "ret": max(r["ret"], 0), "dp": r["dp"], "ex": r["ex"],
                        "probes": [], "thr": c["thr"].get(i, 0) if op == "Subscribe" else 0})
        execs[x] = evs
        crash = next((r for r in recs if r.get("e") == "Crash"), None)
        hist = ["%s %s %s" % (op, pstr(p), i or "") for op, p, i in c["steps"]]
        if pid == "C06" and bad_values:
            verdict.violation("router[%s,%s] random history: received values" % (c["rt"], c["sig"]),
                              "step %d notify(%s): received values %s, every receiver must get %s" % (bad_values[0], pstr(bad_values[1]), bad_values[2], EXPECT[c["sig"]](bad_values[0] + 1)),
                              {"component": "router", "xid": x, "router": c["rt"], "sig": c["sig"], "history": hist[:bad_values[0] + 1]})
        if crash is not None and any(c["thr"].values()):
            verdict.note("router[%s,%s, a callback throws] sanitizer / signal" % (c["rt"], c["sig"]), " ".join(crash.get("stderr", "").split())[:200])
        elif crash is not None:
            k = sum(1 for r in recs if r.get("e") == "Obs")
            opn = c["steps"][k][0] if k < len(c["steps"]) else "?"
            if (pid == "C13") == (opn == "Shrink") or (pid == "C13" and "::shrink" in crash.get("freed_by", "")):
                verdict.violation("router[%s,%s] random history: sanitizer / signal in %s" % (c["rt"], c["sig"], opn), " ".join(crash.get("stderr", "").split())[:300],
                                  {"component": "router", "xid": x, "router": c["rt"], "sig": c["sig"], "history": hist[:k + 1]})
    acc, rej, tst = tracecheck.validate(SPEC, "RouterTraceMC.tla", "RouterTrace.cfg", execs)
    log("[%s] random histories: %d executions, %d rejected, TLC %.1fs" % (pid, len(execs), len(rej), tst["tlc_wall_s"]))
    for x, info in rej.items():
        nx = info.get("next") or {}
        # who owns the rejection: a wrong delivery set / return value is C06's, wrong exists()/depth()/tree after a shrink is C13's
        k = info["matched"]   # index of the rejected event (0 = the probes header)
        c = cfgs[x]
        own = "C06"
        if nx.get("op") == "Shrink":
            own = "C13"
        elif nx.get("op") == "Notify":
            own = "C06"
        else:
            own = "C13"     # subscribe / unsubscribe / invalidate only fail through exists()/depth()
        if any(c["thr"].values()):
            # callbacks that throw out of notify() are outside the quantifier of C06 / C13: reported, not judged
            verdict.note("router[%s,%s, a callback throws] random history rejected at %s" % (c["rt"], c["sig"], nx.get("op")), {"matched": k})
            continue
        if own == pid:
            hist = ["%s %s %s" % (op, pstr(p), i or "") for op, p, i in c["steps"]]
            verdict.violation("router[%s,%s] random history rejected at %s" % (c["rt"], c["sig"], nx.get("op")), {"matched": k, "next": {a: nx.get(a) for a in ("op", "p", "id", "dl", "ret", "dp")}},
                              {"component": "router", "xid": x, "router": c["rt"], "sig": c["sig"], "history": hist[:k]})
    return len(execs), tst


def check(pid, tier, seed):
    t0 = time.time()
    verdict = common.Verdict(pid)
    exe = harness()
    if tier == "quick":
        plan = [("quick2", [("plain", sig) for sig in SIGS] + [("conc", "str"), ("conc", "int")]), ("rx", [("plain", "int"), ("conc", "str")]), ("empty", [("plain", "int"), ("conc", "str")])]
    else:
        plan = [("quick2", [(rt, sig) for rt in ("plain", "conc") for sig in SIGS]), ("quick", [("plain", "istr"), ("conc", "str"), ("plain", "int")]),
                ("deep", [("plain", "istr"), ("conc", "str")]), ("rx", [(rt, sig) for rt in ("plain", "conc") for sig in ("int", "str", "istr")]),
                ("empty", [(rt, sig) for rt in ("plain", "conc") for sig in ("int", "str")])]
    mcs, dumps, samples = [], [], []
    tot_states = tot_edges = tot_cov = nexec = 0
    trees = set()
    for cfg, variants in plan:
        mcs.append(common.model_check(SPEC, "MC_Router.tla", "MC_Router_%s.cfg" % cfg, "Router " + cfg, heap="16g"))
        g, probes, meta, script, dst, ncov = x_scripts(cfg, variants)
        dumps.append(dst)
        tot_states += len(g.states)
        tot_edges += len(g.edges)
        tot_cov += ncov
        res = common.run_harness(exe, script)
        for xid, (path, rt, sig) in meta.items():
            recs = res.get(xid, [])
            nexec += 1
            c06, c13 = compare(g, probes, path, sig, recs, pid)
            prob = c06 if pid == "C06" else c13
            for ei in path:
                st = g.states[g.edges[ei][1]]
                trees.add((frozenset(st["nodes"]), frozenset(st["subj"])))
            if prob:
                ops = [step_line(g, ei, k)[2:] for k, ei in enumerate(path)]
                k = int(prob.split()[1]) if prob.startswith("step ") and prob.split()[1].isdigit() else sum(1 for r in recs if r.get("e") == "Obs")
                verdict.violation("router[%s,%s] %s" % (rt, sig, " ".join(prob.split()[2:7])), prob,
                                  {"component": "router", "xid": xid, "router": rt, "sig": sig, "history": ops[:k + 1]})
            if len(samples) < 2 and len(path) > 5:
                samples.append({"source": "tlc-path " + cfg, "router": rt, "sig": sig, "history": [step_line(g, ei, k)[2:] for k, ei in enumerate(path)][:20]})
        log("[%s] graph %s: %d states / %d edges, %d executions so far" % (pid, cfg, len(g.states), len(g.edges), nexec))
    ny, tst = y_check(pid, tier, seed, exe, verdict)
    nexec += ny
    cov = {"states": tot_states, "transitions": tot_edges, "traces_validated_against_impl": nexec, "samples": samples, "trace_validation": [tst],
           "exhaustive": bool(tot_cov == tot_edges), "evaluations": nexec, "distinct_nontrivial": len(trees),
           "rule": "path cover of every edge of TLC's graphs of Router.tla, executed for SubjectRouter and ConcurrentSubjectRouter and the listed argument "
                   "signatures; after every step exists() of every probe pattern, depth(), deliveries with received values and notify's return value are "
                   "compared with the TLC state / edge; distinct_nontrivial = distinct (stored keys, keys with subject) trees reached",
           "edge_cover": {"edges": tot_edges, "edges_replayed": tot_cov}, "model_checks": mcs, "graph_dumps": dumps}
    extra_cov = None
    if tier == "thorough":   # the neighbouring specification module that no property speaks about (SPEC-NOTEs only)
        from lib import extrarun
        extra_cov = {"spec_growth": extrarun.summary("keys", tier, seed)}
    rc = verdict.finish()
    common.write_evidence(pid, tier, seed, "model_checking", cov, ASSUMPTIONS, time.time() - t0, len(verdict.violations), extra=extra_cov)
    return rc


def all_harnesses():
    exe = harness()
    return {exe.name: exe}


def replay(pid, path):
    import sys
    return common.replay(pid, path, sys.modules[__name__])
