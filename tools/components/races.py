"""C15: data-race freedom of Resource + guards, ThreadPool/Thread and ConcurrentSubjectRouter under their intended use.

Model side: PoolImpl carries a footprint table (which plain shared locations the next step of every thread
reads/writes, under which mutexes) and TLC checks NoRace in every reachable state (it fails for the pre-fix
stop()). Code side: the tulz sources and the harness TUs are compiled with -fsanitize=thread (compile only)
and linked against a stub runtime (harness/vsched/racedet.cpp): a vector-clock happens-before detector whose
clocks are advanced by the operations the scheduler intercepts. Every controlled execution of the lock, pool
(with expiring workers, update(), a virtual clock) and router harnesses reports the unordered conflicting
access pairs; pairs whose two sites are both in tulz code are Race events, which no intended-use program may produce.
"""
import json
import random
import subprocess
import time

from lib import common
from lib.common import log
from components import lock, pool, concrouter

RFLAGS = ["-O1", "-g", "-UNDEBUG", "-fno-pie", "-no-pie", "-fno-omit-frame-pointer", "-DVS_PROJECT"]
TSAN = ("-fsanitize=thread",)     # compile only: the objects are linked against racedet.cpp, not libtsan
PLAIN = ["vsched/vsched.cpp", "vsched/racedet.cpp"]
PFLAGS = ("-O1", "-g", "-fno-pie")
ASSUMPTIONS = [
    "executions are serialised by vsched; happens-before is built from mutex release->acquire, thread create/join and seq_cst atomics "
    "(condition-variable signalling creates no edge), i.e. the C++ memory model's synchronises-with for what tulz uses",
    "only accesses performed by instrumented code are seen: all tulz translation units and every tulz template/inline function instantiated in the harness TUs; "
    "libstdc++.so internals are not instrumented",
    "a race is reported when both access sites lie in tulz code (or in standard-library code inlined into a tulz function); harness and scheduler accesses are ignored",
    "intended use as stated by the property: one owner thread for start/clear/update/stop and the getters, setters only before the first start, router callbacks do not re-enter",
    "schedules are sampled (seeded random/PCT), not exhausted; the model-level NoRace invariant is exhaustive for the PoolImpl constants only",
]


def _race_build(name, src, repo_src):
    """-DVS_PROJECT lets the harness read private fields for its step records; a tree whose fields were renamed still
    gets an instrumented build, without that projection (the race verdict does not use it)."""
    exe = common.build(name, [src], RFLAGS, repo_src, plain_sources=PLAIN, plain_flags=PFLAGS, compile_only_flags=TSAN, may_fail=True)
    if exe is None:
        exe = common.build(name + "_np", [src], [f for f in RFLAGS if f != "-DVS_PROJECT"], repo_src, plain_sources=PLAIN, plain_flags=PFLAGS,
                           compile_only_flags=TSAN)
    return exe


def build_all():
    exes = {}
    exes["lock"] = _race_build("resource_race", "resource/resource_harness.cpp", lock.REPO_SRC)
    exes["pool"] = _race_build("pool_race", "pool/pool_harness.cpp", pool.REPO_SRC)
    exes["router"] = _race_build("concrouter_race", "observer/conc_router_harness.cpp", concrouter.REPO_SRC)
    return exes


def expiry_programs(seed, count):
    rnd = random.Random("exp-%s" % seed)
    lines, cfgs = [], {}
    for i in range(count):
        mx = rnd.choice([1, 2, 2, 3])
        prog = ""
        tasks = 0
        for _ in range(rnd.randrange(2, 9)):
            r = rnd.random()
            if r < 0.45 and tasks < 8:
                prog += "S"
                tasks += 1
            elif r < 0.70:
                prog += "U"
            elif r < 0.80:
                prog += "G"
            elif r < 0.88:
                prog += "C"
            elif r < 0.94:
                prog += "T"
            else:
                prog += "Q"
        cfg = "mode=random max=%d expiry=%d prog=%s seed=%d clock=%d stay=%d stayden=%d" % (
            mx, rnd.choice([0, 10, 50]), prog, rnd.randrange(1, 2 ** 31), rnd.choice([60, 150, 300]), *rnd.choice([(1, 2), (3, 4), (1, 4)]))
        lines += ["X e%d %s" % (i, cfg), "E"]
        cfgs["e%d" % i] = cfg
    return "\n".join(lines) + "\n", cfgs


def symbolize(exe, pcs):
    """pc (return address) -> list of (function, file:line) frames, innermost first."""
    if not pcs:
        return {}
    addrs = [hex(int(p, 16) - 1) for p in pcs]
    out = subprocess.run(["addr2line", "-a", "-f", "-i", "-C", "-e", str(exe)] + addrs, capture_output=True, text=True).stdout
    res, cur = {}, None
    lines = out.splitlines()
    i = 0
    order = []
    while i < len(lines):
        if lines[i].startswith("0x"):
            cur = []
            order.append(cur)
            i += 1
            continue
        if i + 1 < len(lines) and cur is not None:
            cur.append((lines[i].strip(), lines[i + 1].strip()))
        i += 2
    for p, fr in zip(pcs, order):
        res[p] = fr
    return res


def _own_name(fn):
    """Qualified name of the function itself: template arguments and the parameter list removed."""
    out, depth = "", 0
    for ch in fn.split("(")[0] if not fn.startswith("(") else fn:
        if ch == "<":
            depth += 1
        elif ch == ">":
            depth = max(0, depth - 1)
        elif depth == 0:
            out += ch
    return out


def _is_tulz_fn(fn):
    """The function is a member of tulz::, or a standard-library template instantiated for tulz types (its own
    code runs on behalf of tulz: e.g. std::_Rb_tree<.., tulz::SubjectRouter::Node ..>::_M_erase_aux called by
    Node::shrink). Harness and scheduler functions never count; the harnesses keep their own shared state out of
    the recording (rd_ignore) so that this rule has nothing of theirs to match."""
    name = _own_name(fn)
    if name.startswith(("(anonymous namespace)", "vs::", "hr::", "rd::", "trk::")):
        return False
    return "tulz::" in fn


def _is_library_frame(fn, loc):
    """Code of the C++ runtime / standard library itself (it acts on behalf of whoever called it)."""
    name = _own_name(fn)
    return name.startswith(("std::", "__gnu_cxx::", "operator new", "operator delete", "decltype", "void std::", "bool std::")) or " std::" in name[:40] or loc.startswith("/usr/")


def caller_is_tulz(frames, stack_frames):
    """frames: the (inlined) frames of the access itself; stack_frames: the frames of the call sites above it, innermost
    first. The access belongs to the first frame that is not library code: tulz code -> True, harness / scheduler -> False."""
    root = str(common.REPO)
    for fn, loc in list(frames) + list(stack_frames):
        if loc.startswith(root + "/include/") or loc.startswith(root + "/src/"):
            return True
        if _is_library_frame(fn, loc):
            continue
        return _is_tulz_fn(fn)
    return False


def caller_site(frames, stack_frames):
    root = str(common.REPO)
    for fn, loc in list(frames) + list(stack_frames):
        if loc.startswith(root + "/"):
            return "%s %s" % (loc[len(root) + 1:].split(" ")[0], fn.split("(")[0][-60:])
    return None


def in_tulz(frames):
    """A site is tulz code if some (inlined) frame lies in the repository's sources, or is a tulz:: function
    (implicit destructors and template instantiations carry standard-library file names)."""
    root = str(common.REPO)
    for fn, loc in frames:
        if loc.startswith(root + "/include/") or loc.startswith(root + "/src/"):
            return True
        if _is_tulz_fn(fn):
            return True
    return False


def site(frames):
    root = str(common.REPO)
    for fn, loc in frames:
        if loc.startswith(root + "/"):
            return "%s %s" % (loc[len(root) + 1:].split(" ")[0], fn.split("(")[0][-60:])
    for fn, loc in frames:
        if _is_tulz_fn(fn):
            return "%s (%s)" % (_own_name(fn)[-70:], loc.split("/")[-1].split(" ")[0])
    return frames[0][1] if frames else "?"


def check(pid, tier, seed):
    t0 = time.time()
    verdict = common.Verdict(pid)
    exes = build_all()
    mcs = [common.model_check(pool.SPEC, "MC_Pool.tla", "MC_Pool_%s.cfg" % c, "PoolImpl NoRace " + c, heap="16g") for c in pool.configs(tier)]
    n = {"quick": 400, "thorough": 30000}[tier]
    batches = []
    s1, c1 = lock.y_scripts(seed, n, "mixed")
    batches.append(("lock", s1, c1))
    s2, c2 = pool.y_scripts(seed, n)
    # C15's intended use is ONE owner thread for start/clear/update/stop: drop the multi-client phases
    s2 = "\n".join(l if not l.startswith("X ") else " ".join(t if not t.startswith("prog=") else (t.replace("M", "S").replace("L", "G") or "prog=Q") for t in l.split(" ")) for l in s2.split("\n"))
    c2 = {k: " ".join(t if not t.startswith("prog=") else t.replace("M", "S").replace("L", "G") for t in v.split(" ")) for k, v in c2.items()}
    batches.append(("pool", s2, c2))
    s3, c3 = expiry_programs(seed, n)
    batches.append(("pool", s3, c3))
    s4, c4 = concrouter.programs(seed, n)
    batches.append(("router", s4, c4))
    s5, c5 = concrouter.oneshot_programs(seed, max(100, n // 4))
    batches.append(("router:one-shot observer", s5, c5))
    total = 0
    races = {}
    accesses_seen = 0
    per_component = {}
    for comp, script, cfgs in batches:
        res = common.run_harness(exes[comp.split(":")[0]], script)
        total += len(cfgs)
        pcs = set()
        found = []
        for x, recs in res.items():
            for r in recs:
                if r.get("e") == "Race":
                    pcs.add(r["pc1"])
                    pcs.add(r["pc2"])
                    pcs.update(r.get("s1", []))
                    pcs.update(r.get("s2", []))
                    found.append((x, r))
                elif r.get("e") == "Crash" and "Assertion" not in r.get("stderr", ""):
                    pass
        sym = symbolize(exes[comp.split(":")[0]], sorted(pcs))
        per_component[comp] = per_component.get(comp, 0) + len(cfgs)
        for x, r in found:
            f1, f2 = sym.get(r["pc1"], []), sym.get(r["pc2"], [])
            st1 = [fr for p in r.get("s1", []) for fr in sym.get(p, [])]
            st2 = [fr for p in r.get("s2", []) for fr in sym.get(p, [])]
            # a site is tulz's if its own frames say so, or if it is library code that was called (through library code only) by tulz code
            t1 = in_tulz(f1) or caller_is_tulz(f1, st1)
            t2 = in_tulz(f2) or caller_is_tulz(f2, st2)
            if t1 and t2:
                n1 = site(f1) if in_tulz(f1) else "%s via %s" % (caller_site(f1, st1), site(f1))
                n2 = site(f2) if in_tulz(f2) else "%s via %s" % (caller_site(f2, st2), site(f2))
                key = tuple(sorted([n1 + (" [write]" if r["w1"] else " [read]"), n2 + (" [write]" if r["w2"] else " [read]")]))
                if ":" in comp:   # a batch with its own label: its pairs are reported (and matched against known findings) under that label
                    key = (comp.split(":")[1],) + key
                if key not in races:
                    races[key] = {"component": comp, "cfg": cfgs.get(x), "id": x, "threads": [r["t1"], r["t2"]], "count": 0}
                races[key]["count"] += 1
    for key, info in races.items():
        label = ""
        if len(key) == 3:
            label, key = "[%s]" % key[0], key[1:]
        verdict.violation("race%s: %s <-> %s" % ((label,) + key), {"occurrences": info["count"], "threads": info["threads"]},
                          {"component": info["component"], "xid": info["id"], "cfg": info["cfg"], "sites": list(key)})
    log("[%s] %d controlled executions with access instrumentation, %d distinct tulz race pairs" % (pid, total, len(races)))
    cov = {"states": sum(m["distinct_states"] for m in mcs), "transitions": sum(m["states_generated"] for m in mcs),
           "traces_validated_against_impl": total,
           "samples": [{"component": c, "cfg": list(cf.values())[0]} for c, _, cf in batches],
           "evaluations": total, "distinct_nontrivial": total,
           "rule": "every execution = one seeded schedule of a random intended-use program on the TSan-instrumented build under the happens-before detector "
                   "(lock: 2-6 threads of lock/unlock pairs; pool: owner programs incl. restarts, and expiring-worker programs with update() and a virtual clock; "
                   "router: 2-4 threads of notify/subscribe/unsubscribe/shrink/exists/depth); all executions are distinct by seed and non-trivial (>= 2 threads)",
           "executions_per_component": per_component, "race_pairs": [list(k) for k in races], "model_checks": mcs}
    rc = verdict.finish()
    common.write_evidence(pid, tier, seed, "model_checking", cov, ASSUMPTIONS, time.time() - t0, len(verdict.violations))
    return rc


def all_harnesses():
    return {e.name: e for e in build_all().values()}


def replay(pid, path):
    import sys
    return common.replay(pid, path, sys.modules[__name__])
