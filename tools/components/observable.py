"""tulz::Observable (C16): notifies exactly on change, with the new value.

ObservableP is model-checked by TLC for integer, unsigned, tolerance-compared floating point and string
instantiations (ExactlyOnce, NewValue, ChangeNotifies); every edge of every graph is executed on the real
Observable<int|long|unsigned|float,NearEq|double,NearEq|std::string> with two subscribers, and the
notifications of every operation, the operator results and value() are compared with the TLC state.
"""
import time

from lib import common, pathcover
from lib.common import log

SPEC = common.SPEC / "observer"
FLAGS = ["-O1", "-g", "-UNDEBUG", "-fsanitize=address,undefined", "-fno-sanitize=nonnull-attribute", "-fno-omit-frame-pointer"]
PLAN = [("int", ["int", "long"]), ("thr", ["int"]), ("uns", ["uns"]), ("flt", ["float", "double"]), ("fltc", ["fcoarse"]), ("flte", ["fexact", "dexact"]), ("str", ["str"])]
ASSUMPTIONS = [
    "floating point values are multiples of 1/4 and the tolerances are 0.3 and 1.5 (the latter larger than one increment), so every comparison and operation is exact in binary",
    "operations stay inside the model's value domain (no integer overflow, no integer division by zero); floating point instantiations also reach 2^24 / 2^53 (where adding 0.25 or 0.5 is absorbed) and the infinities produced by dividing a finite non-zero value by zero",
    "integer instantiations also receive double operands k/2 (k in -1, 1, 3) through += -= *= /=: the result is the built-in one (computed in double, truncated)",
    "exhaustive over the stated value domains, operand sets and two subscribers; other values are not sampled",
]


def harness():
    return common.build("observable_h", ["observer/observable_harness.cpp"], FLAGS, [])


def enc(kind, v):
    if kind == "str":
        return "".join(str(x) for x in v) if len(v) else "-"
    return v


def op_name(g, ei):
    src, dst, name, args = g.edges[ei]
    if name == "Step":      # PreInc / PostInc / PreDec / PostDec are instances of Step(newValue, result)
        a, b = g.states[src], g.states[dst]
        return ("Pre" if b["ret"] == b["val"] else "Post") + ("Inc" if b["val"] > a["val"] else "Dec")
    if name == "Mutate":
        return "Mutate"
    return name


def step_line(g, ei, kind):
    _, _, name, args = g.edges[ei]
    name = op_name(g, ei)
    if name in ("Assign", "Add", "Sub", "Mul", "Div", "Concat", "AddF", "SubF", "MulF", "DivF", "AssignF", "AddAbsorbed"):
        return "S op=%s v=%s" % (name, enc(kind, args[0]))
    if name == "MulWrap":     # an ordinary *= whose product wraps around
        return "S op=Mul v=%s" % args[0]
    if name == "Apply":
        return "S op=Apply f=%s" % args[0]
    if name in ("Subscribe", "Unsubscribe"):
        return "S op=%s s=%d" % (name, args[0])
    return "S op=%s" % name


def check(pid, tier, seed):
    t0 = time.time()
    verdict = common.Verdict(pid)
    exe = harness()
    mcs, dumps, samples = [], [], []
    tot_states = tot_edges = tot_cov = nexec = 0
    seen = set()
    for cfg0, types in PLAN:
        kind = "str" if cfg0 == "str" else cfg0
        thrower = 1 if cfg0 == "thr" else 0
        cfg = cfg0 + ("_th" if tier == "thorough" else "")   # thorough: wider value domains (int -4..10, unsigned 0..10, float k/4 in [-3,3], strings up to 4)
        mcs.append(common.model_check(SPEC, "MC_Obs.tla", "MC_Obs_%s.cfg" % cfg, "ObservableP " + cfg))
        dot, dst = common.dump_graph(SPEC, "MC_Obs.tla", "MC_Obs_%s.cfg" % cfg, "ObservableP-" + cfg)
        dumps.append(dst)
        g = common.load_graph(dot)
        covered = set()
        lines, meta = [], {}
        for init in g.init:
            paths, covered = pathcover.cover(g, init=init, max_len=100, covered=covered)
            for pi, path in enumerate(paths):
                for ty in types:
                    xid = "%s-%d-%d-%s" % (cfg, init % 100000, pi, ty)
                    lines.append("X %s type=%s thrower=%d init=%s" % (xid, ty, thrower, enc(kind, g.states[init]["val"])))
                    lines += [step_line(g, ei, kind) for ei in path]
                    lines.append("E")
                    meta[xid] = (path, ty)
        # long random walks over the same graph (one Observable object through 15-60 operations): what an object carries over
        # from earlier operations -- a cached comparison, a remembered subscriber list -- is not visible to an edge cover
        import random as _random
        wr = _random.Random("obs-walk-%s-%s" % (seed, cfg))
        for wi, (init, path) in enumerate(pathcover.random_walks(g, wr, {"quick": 60, "thorough": 3000}[tier], 15, 60)):
            ty = types[wi % len(types)]
            xid = "%s-w%d-%s" % (cfg, wi, ty)
            # a crowd of further subscribers (none, 7, 8, 9, 17, 33, 70) in the walks that do not move the observable and have no thrower
            crowd = [0, 7, 8, 9, 17, 33, 70][wi % 7] if kind != "str" and not thrower and not any(op_name(g, ei).startswith("Move") for ei in path) else 0
            lines.append("X %s type=%s thrower=%d crowd=%d init=%s" % (xid, ty, thrower, crowd, enc(kind, g.states[init]["val"])))
            lines += [step_line(g, ei, kind) for ei in path]
            lines.append("E")
            meta[xid] = (path, ty)
        tot_states += len(g.states)
        tot_edges += len(g.edges)
        tot_cov += len(covered)
        res = common.run_harness(exe, "\n".join(lines) + "\n")
        for xid, (path, ty) in meta.items():
            recs = res.get(xid, [])
            nexec += 1
            obs = {r["i"]: r for r in recs if r.get("e") == "Obs"}
            prob = None
            for i, ei in enumerate(path):
                st = g.states[g.edges[ei][1]]
                name = op_name(g, ei)
                r = obs.get(i)
                if r is None:
                    prob = prob or "history stopped after %d of %d steps: %s" % (len(obs), len(path), [x.get("stderr", "")[:200] for x in recs if x.get("e") == "Crash"])
                    break
                want_notes = sorted([n[0], enc(kind, n[1])] for n in st["notes"])
                got = sorted(r["notes"])
                seen.add((ty, name, tuple(map(tuple, got))))
                if got != want_notes:
                    prob = "step %d (%s): notifications %s, model says %s (subscriber, value)" % (i, name, got, want_notes)
                elif r["val"] != enc(kind, st["val"]):
                    prob = "step %d (%s): value() = %s, model says %s" % (i, name, r["val"], enc(kind, st["val"]))
                elif bool(r.get("threw")) != bool(thrower and {n[0] for n in st["notes"]} >= {2}):
                    prob = "step %d (%s): the operator %s, but subscriber 2 %s" % (i, name, "threw" if r.get("threw") else "returned normally", "was notified and throws" if thrower else "does not throw")
                elif r["ret"] != enc(kind, st["ret"]) and not r.get("threw"):
                    prob = "step %d (%s): operator result %s, model says %s" % (i, name, r["ret"], enc(kind, st["ret"]))
                elif r.get("crowd"):
                    # the further subscribers: all alike, at most once, and exactly when (and with what) the model's subscribers are notified
                    c = r["crowd"]
                    if c["min"] != c["max"] or c["max"] > 1:
                        prob = "step %d (%s): of the further subscribers, number %d was notified %d times and number %d %d times" % (i, name, c["who_min"], c["min"], c["who_max"], c["max"])
                    elif c["max"] == 1 and (not c["same"] or c["val"] != r["val"]):
                        prob = "step %d (%s): a further subscriber was notified with %s, value() = %s" % (i, name, c["val"], r["val"])
                    elif want_notes and c["max"] != 1:
                        prob = "step %d (%s): the model's subscribers were notified, the further subscribers were not" % (i, name)
                    elif not want_notes and c["max"] != 0 and (name in ("Subscribe", "Unsubscribe") or len(g.states[g.edges[ei][0]]["subs"]) > 0):
                        prob = "step %d (%s): nobody is notified according to the model, the further subscribers were" % (i, name)
                if prob and thrower:
                    # a subscriber that throws is outside C16's quantifier: reported, not judged
                    verdict.note("observable[%s, a subscriber throws] %s" % (ty, name), prob)
                    break
                if prob:
                    ops = [step_line(g, e2, kind)[2:] for e2 in path]
                    verdict.violation("observable[%s] %s %s" % (ty, name, prob.split(":")[1].strip().split()[0]), prob,
                                      {"component": "observable", "xid": xid, "type": ty, "init": enc(kind, g.states[g.edges[path[0]][0]]["val"]), "history": ops[:i + 1]})
                    break
            if prob and not prob.startswith("step") and not thrower:
                verdict.violation("observable[%s] stopped" % ty, prob, {"component": "observable", "type": ty})
            if len(samples) < 3 and len(path) > 6 and ty in ("int", "float", "str"):
                samples.append({"type": ty, "init": enc(kind, g.states[g.edges[path[0]][0]]["val"]), "history": [step_line(g, e2, kind)[2:] for e2 in path][:20]})
        log("[%s] graph %s: %d states / %d edges, %d executions so far" % (pid, cfg, len(g.states), len(g.edges), nexec))
    cov = {"states": tot_states, "transitions": tot_edges, "traces_validated_against_impl": nexec, "samples": samples,
           "exhaustive": bool(tot_cov == tot_edges), "evaluations": nexec, "distinct_nontrivial": len(seen),
           "rule": "path cover of every edge of TLC's graphs of ObservableP (int/long over -2..6, unsigned over 0..6, float/double over k/4 in [-2,2] with "
                   "tolerance 0.3, std::string up to 3 chars; two subscribers); distinct_nontrivial = distinct (type, operation, notification set) observed",
           "edge_cover": {"edges": tot_edges, "edges_replayed": tot_cov}, "model_checks": mcs, "graph_dumps": dumps}
    rc = verdict.finish()
    common.write_evidence(pid, tier, seed, "model_checking", cov, ASSUMPTIONS, time.time() - t0, len(verdict.violations))
    return rc


def all_harnesses():
    exe = harness()
    return {exe.name: exe}


def replay(pid, path):
    import sys
    return common.replay(pid, path, sys.modules[__name__])
