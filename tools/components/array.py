"""tulz::Array (C14): value semantics and element lifetimes.

ArrayP (P layer; the class has no hidden layout) is model-checked by TLC and every edge of its state
graph -- every construction path, copy/move/assign/swap/resize/write/destroy from every reachable
pair of contents -- is executed on the real class for int, double, std::string and a lifetime-tracked
type; random longer histories are validated by TLC against ArrayTrace.
"""
import random
import time
from collections import Counter

from lib import common, pathcover, tracecheck
from lib.common import log

SPEC = common.SPEC / "containers"
# nonnull-attribute is off: memcpy(dst, nullptr, 0) on an empty array is flagged by UBSan but touches no memory
FLAGS = ["-O1", "-g", "-UNDEBUG", "-fno-lifetime-dse", "-fsanitize=address,undefined", "-fno-sanitize=nonnull-attribute", "-fno-omit-frame-pointer"]
TYPES = ["int", "dbl", "str", "trk", "pod", "any"]   # pod: trivially copyable class with default member initialisers; any: std::any
CLASS_TYPES = ("str", "trk", "pod", "any")

ASSUMPTIONS = [
    "element types are bitwise relocatable; Array(ptr, n, copy=false) is only given a malloc'ed, placement-constructed buffer",
    "cells the statement leaves unspecified (Array<int>(n), resize(n) growth for arithmetic types) are not compared",
    "TLC results are exhaustive for lengths <= 2 (quick) / <= 3 (thorough) over two values; longer arrays are sampled (direction Y, lengths <= 64)",
    "out-of-bounds accesses and leaks are observed by AddressSanitizer/LeakSanitizer during the replays, not proved absent",
]


def harness():
    return common.build("array_h", ["containers/array_harness.cpp"], FLAGS, [])


def seqarg(s):
    return ",".join(str(v) for v in s) if len(s) else "-"


def step_line(g, ei):
    _, _, name, args = g.edges[ei]
    o = args[0]
    if name in ("CtorPtr", "CtorAdopt", "CtorList"):
        return "S op=%s o=%s s=%s" % (name, o, seqarg(args[1]))
    if name in ("CtorSized", "Resize"):
        return "S op=%s o=%s n=%d" % (name, o, args[1])
    if name in ("CtorFilled", "ResizeFill"):
        return "S op=%s o=%s n=%d v=%d" % (name, o, args[1], args[2])
    if name == "Write":
        return "S op=Write o=%s i=%d v=%d" % (o, args[1], args[2])
    if name == "ResizeFillFrom":
        return "S op=ResizeFillFrom o=%s n=%d i=%d" % (o, args[1], args[2])
    return "S op=%s o=%s" % (name, o)


def x_scripts(tier):
    cfg = "MC_Array_quick.cfg" if tier == "quick" else "MC_Array_thorough.cfg"
    dot, st = common.dump_graph(SPEC, "ArrayP.tla", cfg, "ArrayP-" + cfg)
    g = common.load_graph(dot)
    paths, covered = pathcover.cover(g, max_len=80)
    lines, meta = [], {}
    for pi, path in enumerate(paths):
        for ty in TYPES:
            if ty == "str" and any(0 in g.states[g.edges[ei][1]]["arr"][o] or 0 in g.states[g.edges[ei][1]]["limbo"][o]
                                   for ei in path for o in ("A", "B")):
                continue   # default-constructed (short) libstdc++ strings are not bitwise relocatable: outside the property
            xid = "a%d-%s" % (pi, ty)
            lines.append("X %s type=%s" % (xid, ty))
            for ei in path:
                lines.append(step_line(g, ei))
            lines.append("E")
            meta[xid] = (path, ty)
    return g, meta, "\n".join(lines) + "\n", st, len(covered)


def eq_items(ty, got, want):
    if len(got) != len(want):
        return False
    for a, b in zip(got, want):
        if b == 0 and ty not in CLASS_TYPES:
            continue   # unspecified cell of an arithmetic array
        if a != b:
            return False
    return True


def compare(g, path, ty, recs):
    prob = None
    obs = {r["i"]: r for r in recs if r.get("e") == "Obs"}
    crash = next((r for r in recs if r.get("e") == "Crash"), None)
    fin = next((r for r in recs if r.get("e") == "Final"), None)
    for i, ei in enumerate(path):
        stt = g.states[g.edges[ei][1]]
        opname = g.edges[ei][2]
        r = obs.get(i)
        if r is None:
            break
        for o in ("A", "B"):
            es = stt["st"][o]
            ob = r[o]
            if es == "none":
                if ob is not None and prob is None:
                    prob = "step %d (%s): object %s should not exist" % (i, opname, o)
                continue
            if es == "moved":
                continue
            items = list(stt["arr"][o])
            if not isinstance(ob, dict):
                prob = prob or "step %d (%s): object %s not observable" % (i, opname, o)
                continue
            if ob["size"] != len(items) and prob is None:
                prob = "step %d (%s) object %s: size() = %s, model says %s" % (i, opname, o, ob["size"], len(items))
            for kf in ("items", "iter", "citer", "raw"):
                if prob is None and not eq_items(ty, ob[kf], items):
                    prob = "step %d (%s) object %s: %s = %s, model says %s" % (i, opname, o, kf, ob[kf], items)
            if prob is None and (ob["empty"] != (len(items) == 0) or not ob["itok"]):
                prob = "step %d (%s) object %s: empty()/iterator distance inconsistent" % (i, opname, o)
            if prob is None and items and not (eq_items(ty, [ob["front"]], items[:1]) and eq_items(ty, [ob["back"]], items[-1:])):
                prob = "step %d (%s) object %s: front/back = %s/%s, model says %s" % (i, opname, o, ob["front"], ob["back"], items)
        if ty == "trk" and prob is None:
            if r.get("anom"):
                prob = "step %d (%s): %s" % (i, opname, r["anom"][0])
            else:
                definite = Counter(list(stt["arr"]["A"]) + list(stt["arr"]["B"]))
                maybe = Counter(list(stt["limbo"]["A"]) + list(stt["limbo"]["B"]))
                live = Counter(r.get("live", []))
                if definite - live:
                    prob = "step %d (%s): element values %s are in an array but their objects are destroyed" % (i, opname, sorted((definite - live).elements()))
                elif (live - definite) - maybe:
                    prob = "step %d (%s): values %s are alive but in no array (constructed and never destroyed)" % (i, opname, sorted(((live - definite) - maybe).elements()))
    if crash is not None:
        prob = prob or "sanitizer / signal during a valid history: " + " ".join(crash.get("stderr", "").split())[:300]
    elif fin is not None and prob is None:
        if fin.get("anom"):
            prob = "after destroying everything: " + fin["anom"][0]
        elif fin.get("live"):
            prob = "after destroying everything values %s are still alive (leak)" % fin["live"]
        elif fin.get("lsan_leak"):
            prob = "LeakSanitizer: memory allocated by the array was never freed"
    elif fin is None and len(obs) < len(path):
        prob = prob or "history stopped after %d of %d steps" % (len(obs), len(path))
    return prob


def y_scripts(seed, count):
    rnd = random.Random("arr-%s" % seed)
    lines, cfgs = [], {}
    for n in range(count):
        ty = rnd.choice(TYPES)
        xid = "y%d" % n
        steps = []
        ln = {"A": 0, "B": 0}
        stt = {"A": "none", "B": "none"}

        def rs(maxn=64):
            k = rnd.choice([0, 1, 2, 3, 5, 8, 17, 33, 64])
            return [rnd.randrange(1, 10) for _ in range(min(k, maxn))]
        # short (default-constructed) libstdc++ strings are not bitwise relocatable: no default cells for "str"
        c = rnd.choice(["CtorPtr", "CtorAdopt", "CtorList", "CtorFilled", "CtorDefault"] + ([] if ty == "str" else ["CtorSized"]))
        if c in ("CtorPtr", "CtorAdopt", "CtorList"):
            s = rs(4 if c == "CtorList" else 64)
            steps.append("S op=%s o=A s=%s" % (c, seqarg(s)))
            ln["A"] = len(s)
        elif c == "CtorSized":
            k = rnd.choice([0, 1, 4, 19, 64])
            steps.append("S op=CtorSized o=A n=%d" % k)
            ln["A"] = k
        elif c == "CtorFilled":
            k = rnd.choice([0, 1, 4, 19, 64])
            steps.append("S op=CtorFilled o=A n=%d v=%d" % (k, rnd.randrange(1, 10)))
            ln["A"] = k
        else:
            steps.append("S op=CtorDefault o=A")
        stt["A"] = "live"
        for _ in range(rnd.randrange(5, 60)):
            o = rnd.choice(["A", "B"]) if stt["B"] == "live" else "A"
            u = "B" if o == "A" else "A"
            r = rnd.random()
            if r < 0.25:
                cands = []
                if stt["B"] == "none" and stt["A"] == "live":
                    cands = [("CopyConstruct", "B"), ("MoveConstruct", "B")]
                elif stt["B"] != "none":
                    for t in ("A", "B"):
                        w = "B" if t == "A" else "A"
                        if stt[w] == "live":
                            cands += [("CopyAssign", t), ("MoveAssign", t)]
                    if stt["A"] == "live" and stt["B"] == "live":
                        cands.append(("Swap", "A"))
                    cands.append(("Destroy", "B"))
                if not cands:
                    continue
                op, t = rnd.choice(cands)
                w = "B" if t == "A" else "A"
                if op in ("CopyConstruct", "CopyAssign"):
                    ln[t], stt[t] = ln[w], "live"
                elif op in ("MoveConstruct", "MoveAssign"):
                    ln[t], stt[t] = ln[w], "live"
                    ln[w], stt[w] = 0, ("moved" if op == "MoveAssign" else "live")
                elif op == "Swap":
                    ln["A"], ln["B"] = ln["B"], ln["A"]
                else:
                    ln[t], stt[t] = 0, "none"
                steps.append("S op=%s o=%s" % (op, t))
                continue
            if stt[o] != "live":
                continue
            if r < 0.04:
                steps.append("S op=%s o=%s" % (rnd.choice(["SelfCopyAssign", "SelfMoveAssign"]), o))
            elif r < 0.5 and ln[o] > 0:
                steps.append("S op=Write o=%s i=%d v=%d" % (o, rnd.randrange(1, ln[o] + 1), rnd.randrange(1, 10)))
            elif r < 0.75:
                k = rnd.choice([0, 1, 2, 3, 7, 16, 40, 64])
                if ty == "str":
                    k = min(k, ln[o])
                steps.append("S op=Resize o=%s n=%d" % (o, k))
                ln[o] = k
            elif r < 0.92 or ln[o] == 0 or ty not in CLASS_TYPES:
                k = rnd.choice([0, 1, 2, 3, 7, 16, 40, 64])
                steps.append("S op=ResizeFill o=%s n=%d v=%d" % (o, k, rnd.randrange(1, 10)))
                ln[o] = k
            else:
                # class types only: every cell of such an array holds a proper value (arithmetic cells may be unspecified)
                k = rnd.choice([0, 1, 2, 3, 7, 16, 40, 64])
                steps.append("S op=ResizeFillFrom o=%s n=%d i=%d" % (o, k, rnd.randrange(1, ln[o] + 1)))
                ln[o] = k
        lines.append("X %s type=%s" % (xid, ty))
        lines += steps
        lines.append("E")
        cfgs[xid] = {"ty": ty, "steps": steps}
    return "\n".join(lines) + "\n", cfgs


def y_events(recs, steps, ty):
    """Observations -> ArrayTrace events. Unspecified cells of arithmetic arrays are tracked here
    (a cell is unspecified until it is written / filled) and reported as 0, the model's marker."""
    evs = []
    unspec = {"A": [], "B": []}   # per object: list of booleans
    for r in recs:
        if r.get("e") != "Obs":
            continue
        i = r["i"]
        kv = dict(t.split("=") for t in steps[i].split()[1:])
        op, o = kv["op"], kv.get("o", "A")
        u = "B" if o == "A" else "A"
        s = [] if kv.get("s", "-") == "-" else [int(q) for q in kv["s"].split(",")]
        n, v, idx = int(kv.get("n", 0)), int(kv.get("v", 0)), int(kv.get("i", 0))
        if op in ("CtorPtr", "CtorAdopt", "CtorList"):
            unspec[o] = [False] * len(s)
        elif op == "CtorSized":
            unspec[o] = [True] * n
        elif op == "CtorFilled":
            unspec[o] = [False] * n
        elif op == "CtorDefault":
            unspec[o] = []
        elif op == "Resize":
            unspec[o] = (unspec[o] + [True] * n)[:n]
        elif op in ("ResizeFill", "ResizeFillFrom"):
            unspec[o] = (unspec[o] + [False] * n)[:n]
        elif op == "Write":
            unspec[o][idx - 1] = False
        elif op in ("CopyConstruct", "CopyAssign"):
            unspec[o] = list(unspec[u])
        elif op in ("MoveConstruct", "MoveAssign"):
            unspec[o], unspec[u] = list(unspec[u]), []
        elif op == "Swap":
            unspec["A"], unspec["B"] = unspec["B"], unspec["A"]
        elif op == "Destroy":
            unspec[o] = []
        e = {"e": op, "o": o, "s": s, "n": n, "v": v, "i": idx}
        for ob_name, ks, ki in (("A", "sa", "ia"), ("B", "sb", "ib")):
            ob = r[ob_name]
            if isinstance(ob, dict):
                ok = ob["items"] == ob["iter"] == ob["citer"] == ob["raw"] and ob["size"] == len(ob["items"])
                items = list(ob["items"]) if ok else [-1]
                if ok and ty not in CLASS_TYPES and len(unspec[ob_name]) == len(items):
                    items = [0 if un else it for un, it in zip(unspec[ob_name], items)]
                e[ks], e[ki] = "live", items
            elif ob == "moved":
                e[ks], e[ki] = "moved", []
            else:
                e[ks], e[ki] = "none", []
        evs.append(e)
    return evs


def check(pid, tier, seed):
    t0 = time.time()
    verdict = common.Verdict(pid)
    exe = harness()
    mcs = [common.model_check(SPEC, "ArrayP.tla", "MC_Array_quick.cfg", "ArrayP len<=2"),
           common.model_check(SPEC, "ArrayP.tla", "MC_Array_both.cfg", "ArrayP len<=2, both objects mutable")]
    if tier == "thorough":
        mcs.append(common.model_check(SPEC, "ArrayP.tla", "MC_Array_thorough.cfg", "ArrayP len<=3"))
    g, meta, script, dst, ncov = x_scripts(tier)
    res = common.run_harness(exe, script)
    samples = []
    contents = set()
    for xid, (path, ty) in meta.items():
        recs = res.get(xid, [])
        prob = compare(g, path, ty, recs)
        for r in recs:
            if r.get("e") == "Obs" and isinstance(r.get("A"), dict):
                contents.add((ty, tuple(r["A"]["items"]), tuple(r["B"]["items"]) if isinstance(r.get("B"), dict) else None))
        if prob:
            ops = [" ".join(step_line(g, ei).split()[1:]) for ei in path]
            nobs = sum(1 for r in recs if r.get("e") == "Obs")
            k = int(prob.split()[1]) if prob.startswith("step ") and prob.split()[1].isdigit() else min(nobs, len(ops) - 1)
            opn = ops[min(k, len(ops) - 1)].split()[0]
            verdict.violation("array[%s] %s: %s" % (ty, opn, " ".join(prob.split(":")[-1].split()[:6])), prob,
                              {"component": "array", "xid": xid, "type": ty, "history": ops[:k + 1]})
        if len(samples) < 2 and len(path) > 3:
            samples.append({"source": "tlc-path", "type": ty, "history": [" ".join(step_line(g, ei).split()[1:]) for ei in path][:20]})
    log("[%s] graph %d states / %d edges, %d executions" % (pid, len(g.states), len(g.edges), len(meta)))
    ycount = {"quick": 600, "thorough": 10000}[tier]
    ys, ycfg = y_scripts(seed, ycount)
    yres = common.run_harness(exe, ys)
    execs = {}
    for x, c in ycfg.items():
        recs = yres.get(x, [])
        evs = y_events(recs, c["steps"], c["ty"])
        if evs:
            execs[x] = evs
        # lifetime / sanitizer observations of the random runs
        prob = None
        crash = next((r for r in recs if r.get("e") == "Crash"), None)
        fin = next((r for r in recs if r.get("e") == "Final"), None)
        for r in recs:
            if r.get("e") == "Obs" and r.get("anom"):
                prob = "step %d (%s): %s" % (r["i"], r["op"], r["anom"][0])
                break
        if prob is None and crash is not None:
            prob = "sanitizer / signal during a valid history: " + " ".join(crash.get("stderr", "").split())[:300]
        if prob is None and fin is not None:
            if fin.get("anom"):
                prob = "after destroying everything: " + fin["anom"][0]
            elif fin.get("live"):
                prob = "after destroying everything values %s are still alive (leak)" % fin["live"]
            elif fin.get("lsan_leak"):
                prob = "LeakSanitizer: memory allocated by the array was never freed"
        if prob:
            verdict.violation("array[%s] random: %s" % (c["ty"], " ".join(prob.split(":")[-1].split()[:6])), prob,
                              {"component": "array", "xid": x, "type": c["ty"], "history": [s[2:] for s in c["steps"]]})
    acc, rej, tst = tracecheck.validate(SPEC, "ArrayTrace.tla", "ArrayTrace.cfg", execs)
    log("[%s] trace validation: %d histories, %d rejected, TLC %.1fs" % (pid, len(execs), len(rej), tst["tlc_wall_s"]))
    for x, info in rej.items():
        crash = next((r for r in yres[x] if r.get("e") == "Crash"), None)
        if crash and info["matched"] >= len(info["events"]) - 1:
            continue
        nx = info["next"] or {}
        verdict.violation("array[%s] random history rejected at %s" % (ycfg[x]["ty"], nx.get("e")), {"matched": info["matched"], "next": nx},
                          {"component": "array", "xid": x, "type": ycfg[x]["ty"], "history": [s[2:] for s in ycfg[x]["steps"][:info["matched"] + 1]]})
    samples.append({"source": "random", "type": ycfg["y0"]["ty"], "history": [s[2:] for s in ycfg["y0"]["steps"][:20]]})
    nexec = len(meta) + len(ycfg)
    cov = {
        "states": len(g.states), "transitions": len(g.edges), "traces_validated_against_impl": nexec, "samples": samples,
        "exhaustive": bool(ncov == len(g.edges)),
        "evaluations": nexec, "distinct_nontrivial": len(contents),
        "rule": "X: path cover of every edge of TLC's graph of ArrayP (all construction paths and operations from every reachable pair of "
                "contents, lengths <= MaxLen over two values) for 4 element types; Y: random histories with lengths <= 64; "
                "distinct_nontrivial = distinct (type, contents of A, contents of B) observed on the real objects",
        "edge_cover": {"edges": len(g.edges), "edges_replayed": ncov},
        "model_checks": mcs, "graph_dump": dst, "trace_validation": [tst],
    }
    rc = verdict.finish()
    common.write_evidence(pid, tier, seed, "model_checking", cov, ASSUMPTIONS, time.time() - t0, len(verdict.violations))
    return rc


def all_harnesses():
    exe = harness()
    return {exe.name: exe}


def replay(pid, path):
    import sys
    return common.replay(pid, path, sys.modules[__name__])
