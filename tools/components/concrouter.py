"""tulz::ConcurrentSubjectRouter from several threads: C11 (operations are atomic with respect to each other).

ConcRouter.tla (design level: the router guarded by the property-level lock RWLock) is model-checked by TLC:
exclusion gives atomicity, and the two named weak-lock deviations violate it. The real class is run under
vsched with random programs and schedules (callbacks contain scheduling points) and every execution is
validated by TLC against ConcRouterTrace: the ATOMIC sequential router (RouterOps) with one silent
linearization step per operation placed by TLC.
"""
import json
import random
import time

from lib import common, tracecheck
from lib.common import log

SPEC = common.SPEC / "observer"
# ASan: an operation that walks freed nodes must not pass because the allocator happens to refill them identically
FLAGS = ["-O1", "-g", "-UNDEBUG", "-fsanitize=address,undefined", "-fno-sanitize=nonnull-attribute,vptr", "-fno-omit-frame-pointer"]
REPO_SRC = ["src/observer/routing/SubjectRouter.cpp", "src/observer/routing/RoutingKey.cpp", "src/observer/routing/RoutingKeyBuilder.cpp",
            "src/observer/routing/RoutingLevelView.cpp", "src/threading/rwp/Resource.cpp"]
KEYS = ["a", "b", "a/b", "a/a", "b/a"]
PATS = ["a", "b", "a/b", "a/a", "r:.*", "a/r:.*", "r:.*/r:.*", "r:[^a]", "r:.*/a", "c"]
ASSUMPTIONS = [
    "A2/A3 of vsched (see C01); callbacks do not call back into the router (the property's own restriction)",
    "the lock itself is covered by C01-C03/C12; here any locking scheme that makes operations atomic is accepted; the one lock-level execution "
    "repeated here is the busy period of more than 2^16 queued requests, which router programs cannot produce",
    "programs: up to 3 pre-subscribed observers, 2-4 threads, <= 3 operations each, keys of depth <= 2; schedules are sampled, not exhausted",
    "a further batch runs on the access-instrumented build with 0.5-3.3 % of the plain memory accesses turned into scheduling points (torn executions)",
    "some notify/exists/depth calls are issued from inside a callback of a second router (the caller then holds that router's read lock); the second router is never written",
    "one-shot observers (SelfView::invalidate) are delivered concurrently only in a separate batch that judges crashes (known finding F12); in the validated "
    "programs a one-shot observer fires in the single-threaded set-up, and its stale handle is then unsubscribed (the call throws) next to the other operations",
]


def harness():
    return common.build("concrouter_h", ["observer/conc_router_harness.cpp", "vsched/vsched.cpp"], FLAGS, REPO_SRC)


def programs(seed, count):
    rnd = random.Random("cr-%s" % seed)
    lines, cfgs = [], {}
    for n in range(count):
        nid = 1
        pre = []
        for _ in range(rnd.randrange(0, 4)):
            pre.append("S%s#%d" % (rnd.choice(KEYS), nid))
            nid += 1
        free_to_unsub = list(range(1, nid))
        rnd.shuffle(free_to_unsub)
        progs = []
        for w in range(rnd.randrange(2, 5)):
            ops, mine = [], []
            for _ in range(rnd.randrange(1, 4)):
                r = rnd.random()
                if r < 0.34:
                    ops.append("N" + rnd.choice(PATS))
                elif r < 0.40:
                    # the same read-side operations issued from inside a callback of a second, unrelated router
                    ops.append("O" + rnd.choice(["N" + rnd.choice(PATS), "N" + rnd.choice(PATS), "E" + rnd.choice(PATS), "D"]))
                elif r < 0.58:
                    ops.append("S%s#%d" % (rnd.choice(KEYS), nid))
                    mine.append(nid)
                    nid += 1
                elif r < 0.76:
                    if mine and rnd.random() < 0.5:
                        ops.append("U%d" % mine.pop())
                    elif free_to_unsub:
                        ops.append("U%d" % free_to_unsub.pop())
                    else:
                        ops.append("N" + rnd.choice(PATS))
                elif r < 0.86:
                    ops.append("H" + rnd.choice(PATS))
                elif r < 0.95:
                    ops.append("E" + rnd.choice(PATS))
                else:
                    ops.append("D")
            progs.append(",".join(ops))
        if rnd.random() < 0.3:
            # dead-sibling family: a key that was emptied before the threads start sits next to live ones, so that a
            # shrink can erase it while a notify / exists / depth of another thread is walking the same parent
            par = rnd.choice(["a", "b"])
            pre = ["S%s/a#1" % par, "S%s/b#2" % par, "S%s#3" % par, "U%d" % rnd.choice([1, 2])]
            nid = 4
            progs = []
            readers = ["N%s/r:.*" % par, "Nr:.*/r:.*", "E%s/r:.*" % par, "D", "N%s" % par, "ON%s/r:.*" % par, "OD"]
            for w in range(rnd.randrange(2, 5)):
                ops = []
                for _ in range(rnd.randrange(1, 4)):
                    ops.append(rnd.choice(readers) if rnd.random() < 0.6 else rnd.choice(["Hr:.*/r:.*", "H%s/r:.*" % par, "Hr:.*"]))
                progs.append(",".join(ops))
        elif rnd.random() < 0.2:
            # same-key churn: every thread starts by subscribing to / unsubscribing from ONE key, so that the per-subject
            # bookkeeping is touched by several threads that have not synchronised through the router before
            k = rnd.choice(KEYS)
            pre = ["S%s#%d" % (k, i) for i in (1, 2, 3)]
            nid, spare = 4, [1, 2, 3]
            rnd.shuffle(spare)
            progs = []
            for w in range(rnd.randrange(2, 4)):
                ops, mine = [], []
                for j in range(rnd.randrange(1, 4)):
                    r = rnd.random()
                    if r < 0.45 and (spare or mine):
                        ops.append("U%d" % (mine.pop() if mine and (not spare or rnd.random() < 0.3) else spare.pop()))
                    elif r < 0.8:
                        ops.append("S%s#%d" % (k, nid))
                        mine.append(nid)
                        nid += 1
                    else:
                        ops.append("N" + k)
                progs.append(",".join(ops))
        elif rnd.random() < 0.15:
            # stale handle: a one-shot observer fires in the (single-threaded) set-up and is removed by that notify, then ONE
            # thread unsubscribes through its handle (nothing to remove: the call throws std::invalid_argument) while
            # the others notify / subscribe / unsubscribe. The throwing call must leave the lock as it found it.
            k, k2 = rnd.choice(KEYS), rnd.choice(KEYS)
            pre = ["V%s#1" % k, "S%s#2" % k2, "S%s#3" % k, "N" + k]
            # observer 3 stays subscribed to the end: it keeps the subject of key k alive, which the stale handle still points to
            # (a shrink that destroyed that subject would leave the handle dangling -- spec note N9, not a matter of C11)
            nid, spare = 4, [2]
            progs = [",".join(["U1"] * rnd.randrange(1, 3) + (["N" + k] if rnd.random() < 0.3 else []))]
            for w in range(rnd.randrange(1, 4)):
                ops = []
                for j in range(rnd.randrange(1, 4)):
                    r = rnd.random()
                    if r < 0.5:
                        ops.append("N" + rnd.choice([k, k2, "r:.*", "r:.*/r:.*"]))
                    elif r < 0.7:
                        ops.append("S%s#%d" % (rnd.choice([k, k2]), nid))
                        nid += 1
                    elif r < 0.85 and spare:
                        ops.append("U%d" % spare.pop())
                    else:
                        ops.append(rnd.choice(["H" + k, "E" + k2, "D"]))
                progs.append(",".join(ops))
            rnd.shuffle(progs)
        elif rnd.random() < 0.12:
            # sibling notifies: nothing but deliveries to two neighbouring keys, over and over, from every thread (readers share the
            # lock: whatever a notify leaves behind in the tree -- a cache, a counter -- is shared with the notify next to it)
            k1, k2 = rnd.choice([("a", "b"), ("a/a", "a/b"), ("a/b", "b/a")])
            pre = ["S%s#1" % k1, "S%s#2" % k2]
            nid = 3
            progs = [",".join("N" + rnd.choice([k1, k2]) for _ in range(3)) for w in range(rnd.randrange(2, 5))]
        sched = "seed=%d" % rnd.randrange(1, 2 ** 31)
        if rnd.random() < 0.35:
            sched += " pct=%d len=%d" % (rnd.randrange(1, 4), rnd.randrange(20, 120))
        else:
            sched += " stay=%d stayden=%d" % rnd.choice([(1, 2), (3, 4), (1, 4)])
        if rnd.random() < 0.25:
            sched += " spurious=%d" % rnd.choice([20, 60])
        cfg = "prog=%s;%s %s" % (",".join(pre) or "-", ";".join(progs), sched)
        xid = "c%d" % n
        lines += ["X %s %s" % (xid, cfg), "E"]
        cfgs[xid] = cfg
    return "\n".join(lines) + "\n", cfgs


def oneshot_programs(seed, count):
    """Programs whose pre-subscribed observers include one-shot ones (they invalidate themselves through SelfView at the end
    of their first delivery) and whose threads only read: notify / exists / depth. Kept apart from programs(): on the
    pinned tree these run into the recorded finding F12 (lazy removal of an invalidated observer under the READ lock)."""
    rnd = random.Random("cr1-%s" % seed)
    lines, cfgs = [], {}
    for n in range(count):
        k = rnd.choice(["a", "b", "a/b"])
        pre = ["V%s#1" % k] + (["S%s#2" % k] if rnd.random() < 0.5 else []) + (["V%s#3" % k] if rnd.random() < 0.3 else [])
        ths = []
        for w in range(rnd.randrange(2, 4)):
            ths.append(",".join(rnd.choice(["N" + k, "N" + k, "Nr:.*", "Nr:.*/r:.*", "E" + k, "D"]) for _ in range(rnd.randrange(1, 3))))
        cfg = "prog=%s;%s seed=%d stay=1 stayden=2" % (",".join(pre), ";".join(ths), rnd.randrange(1, 2 ** 31))
        xid = "o%d" % n
        lines += ["X %s %s" % (xid, cfg), "E"]
        cfgs[xid] = cfg
    return "\n".join(lines) + "\n", cfgs


def events(recs):
    out = []
    for r in recs:
        e = r.get("e")
        if e in ("OpCall", "OpRet", "CbEnter", "CbExit", "Deadlock", "TooLong"):
            out.append({"e": e, "t": r["t"], "op": r["op"], "p": r["p"], "id": r["id"], "v": r["v"], "res": r["res"]})
        elif e == "Crash":
            out.append({"e": "Crash", "t": 0, "op": "", "p": [], "id": 0, "v": 0, "res": 0})
    return out


def check(pid, tier, seed):
    t0 = time.time()
    verdict = common.Verdict(pid)
    exe = harness()
    mcs = [common.model_check(SPEC, "MC_ConcRouter.tla", "MC_ConcRouter_none.cfg", "ConcRouter (3 threads x 2 ops, 2 observers)", heap="8g")]
    count = {"quick": 1500, "thorough": 120000}[tier]
    script, cfgs = programs(seed, count)
    res = common.run_harness(exe, script)
    # torn executions: on the access-instrumented build a share of the plain memory accesses are scheduling points too, so the
    # operations are not atomic between lock operations any more (adds no behaviour while the router's locking makes it
    # data-race-free; without mutual exclusion the tree really gets torn)
    from components import races
    count2 = {"quick": 1200, "thorough": 30000}[tier]
    script2, cfgs2 = programs("%s-torn" % seed, count2)
    script2 = "\n".join((l.replace("X c", "X a", 1) + " accy=%d" % [500, 1200, 2600, 6000, 15000, 40000][(k // 2) % 6]) if l.startswith("X c") else l for k, l in enumerate(script2.split("\n")))
    cfgs2 = {"a" + x[1:]: c + " accy=on" for x, c in cfgs2.items()}
    res.update(common.run_harness(races._race_build("concrouter_race", "observer/conc_router_harness.cpp", REPO_SRC), script2))
    cfgs.update(cfgs2)
    execs = {x: events(res.get(x, [])) for x in cfgs}
    acc, rej, tst = tracecheck.validate(SPEC, "ConcRouterTraceMC.tla", "ConcRouterTrace.cfg", execs)
    log("[%s] %d executions (%d distinct), %d rejected, TLC %d states %.1fs" % (pid, len(execs), tst["distinct_traces"], len(rej), tst["tlc_states_generated"], tst["tlc_wall_s"]))
    for x, info in rej.items():
        nx = info.get("next") or {}
        verdict.violation("concrouter@%s(op=%s,id=%s)" % (nx.get("e"), nx.get("op"), nx.get("id")), {"matched": info["matched"], "next": nx},
                          {"component": "concrouter", "xid": x, "cfg": cfgs[x], "events": info["events"]})
    # the lock under the router: one uninterrupted busy period of more than 2^16 queued requests (components/lock.py). Router
    # programs cannot keep the lock busy that long (every subscription stays in the model), and the router's atomicity is
    # exactly the exclusion of this Resource (src/threading/rwp/Resource.cpp is among C11's anchors)
    from components import lock as _lock
    bs, bcf = _lock.busy_scripts(seed, tier)
    lexe, _proj = _lock.harness()
    bres = common.run_harness(lexe, bs)
    bexecs = {x: _lock.p_events(bres.get(x, [])) for x in bcf}
    bacc, brej, btst = tracecheck.validate(_lock.SPEC, "RWLockTrace.tla", "RWLockTrace_hold.cfg", bexecs)
    # ... and the crowd: 70-85 operations parked behind one at the same moment
    cs, ccf = _lock.crowd_scripts(seed, "quick")
    cres = common.run_harness(lexe, cs)
    cexecs = {x: _lock.p_events(cres.get(x, [])) for x in ccf}
    cacc, crej, ctst = tracecheck.validate(_lock.SPEC, "RWLockTrace.tla", "RWLockTrace_hold_wide.cfg", cexecs)
    brej = dict(brej, **crej)
    bcf = dict(bcf, **ccf)
    bexecs = dict(bexecs, **cexecs)
    log("[%s] lock busy periods and crowds: %d executions, %d rejected, TLC %.1fs" % (pid, len(bexecs), len(brej), btst["tlc_wall_s"] + ctst["tlc_wall_s"]))
    for x, info in brej.items():
        nx = info.get("next") or {}
        verdict.violation("concrouter[lock busy period]@%s(t=%s,k=%s)" % (nx.get("e"), nx.get("t"), nx.get("k")), {"matched": info["matched"], "next": nx},
                          {"component": "lock", "xid": x, "cfg": bcf[x], "events": info["events"][-60:]})
    # one-shot observers (see oneshot_programs): only crashes / sanitizer reports are judged here
    import re as _re
    os_script, os_cfgs = oneshot_programs(seed, {"quick": 120, "thorough": 3000}[tier])
    os_res = common.run_harness(exe, os_script)
    for x, cfg in os_cfgs.items():
        crash = next((r for r in os_res.get(x, []) if r.get("e") == "Crash"), None)
        if crash is None:
            continue
        err = " ".join(crash.get("stderr", "").split())
        m = _re.search(r"AddressSanitizer: ([\w-]+)", err)
        fn = _re.search(r"#\d+ 0x[0-9a-f]+ in (tulz::[\w:<>~]+)", err)
        what = "%s in %s" % (m.group(1) if m else "signal %s" % crash.get("sig"), (fn.group(1) if fn else "?"))
        verdict.violation("concrouter[one-shot observer]@Crash(%s)" % what, err[:400],
                          {"component": "concrouter", "xid": x, "cfg": cfg, "events": events(os_res.get(x, []))})
    overlapping = 0
    for e in execs.values():
        depth = 0
        for ev in e:
            if ev["e"] == "CbEnter":
                depth += 1
                if depth > 1:
                    overlapping += 1
                    break
            elif ev["e"] == "CbExit":
                depth -= 1
    cov = {"states": mcs[0]["distinct_states"], "transitions": mcs[0]["states_generated"], "traces_validated_against_impl": len(execs),
           "samples": [{"cfg": cfgs[x], "events": execs[x][:30]} for x in list(cfgs)[:2]],
           "evaluations": len(execs), "distinct_nontrivial": tst["distinct_traces"],
           "rule": "random programs (0-3 pre-subscribed observers, 2-4 threads, 1-3 operations each out of notify/subscribe/unsubscribe/shrink/exists/depth) under "
                   "seeded random/PCT schedules; distinct = distinct event sequences; executions_with_concurrent_deliveries counts those where two threads were "
                   "inside callbacks at once",
           "executions_with_concurrent_deliveries": overlapping, "model_checks": mcs, "trace_validation": [tst, btst, ctst],
           "lock_busy_periods": {"executions": len(bexecs), "events": sum(len(e) for e in bexecs.values())}}
    rc = verdict.finish()
    common.write_evidence(pid, tier, seed, "model_checking", cov, ASSUMPTIONS, time.time() - t0, len(verdict.violations))
    return rc


TRACE_SPEC = ("ConcRouterTraceMC.tla", "ConcRouterTrace.cfg")
p_events = events


def all_harnesses():
    exe = harness()
    return {exe.name: exe}


def replay(pid, path):
    import sys
    return common.replay(pid, path, sys.modules[__name__])
