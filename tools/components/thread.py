"""tulz::Thread (C20): start() runs the callable once on a live copy; isFinished()/join() ordering.

ThreadStart.tla (starter / new thread at scheduler-step granularity) is model-checked by TLC; every
complete behaviour of its state graph is replayed on the real tulz::Thread under vsched for 4 callable
kinds x 3 argument lists (canary-carrying callables; the dead stack is overwritten after start()
returns), and every recorded execution is validated by TLC against ThreadStartTrace.
"""
import json
import random
import time

from lib import common, tracecheck
from lib.common import log

SPEC = common.SPEC / "pool"
REPO_SRC = ["src/threading/Thread.cpp", "src/threading/Runnable.cpp"]
FLAGS = ["-O0", "-fno-inline", "-g", "-UNDEBUG", "-fno-lifetime-dse"]
P_EVENTS = {"Payload", "Restart", "StartThrew", "Begin", "StartCall", "StartRet", "Invoke", "InvokeEnd", "InvokeTrap", "RunBegin", "RunEnd", "Destroy", "FinSeen", "JoinRet",
            "Done", "Deadlock", "Crash", "TooLong"}
ASSUMPTIONS = [
    "A2: vsched's model of pthread_create/join is faithful; the new thread's first instruction is a scheduling point",
    "liveness of the callable is observed through a canary poisoned by its destructor and by overwriting the dead stack after start() "
    "returns (harness built with -O0 -fno-inline -fno-lifetime-dse so that start() has its own frame)",
    "scripted replays have no scheduling point between pthread_create and the return of start() (ThreadStart.tla has no such step); random "
    "executions have one right after pthread_create, and the access-instrumented build additionally makes every atomic operation a "
    "scheduling point, so those executions include the new thread running and finishing inside start()",
]
PC_S = {"init": "MARK", "spawn": "CREATE", "after": "MARK", "join": "JOIN", "done": "FIN"}
PC_T = {"created": "START", "in": "MARK", "exited": "FIN"}


def harness():
    return common.build("thread_h", ["pool/thread_harness.cpp", "vsched/vsched.cpp"], FLAGS, REPO_SRC)


def race_harness():
    """Instrumented build (see components/races.py): used for the 'poll' scenario, where the starter relies on
    isFinished() alone; an unordered access to the callable's payload means isFinished() does not publish completion."""
    return common.build("thread_race", ["pool/thread_harness.cpp"], ["-O0", "-g", "-UNDEBUG", "-fno-lifetime-dse", "-fno-pie", "-no-pie"], REPO_SRC,
                        plain_sources=["vsched/vsched.cpp", "vsched/racedet.cpp"], plain_flags=("-O1", "-g", "-fno-pie"), compile_only_flags=("-fsanitize=thread",))


def all_paths(g):
    out = []

    def rec(node, path):
        outs = g.out.get(node, ())
        if not outs:
            out.append(list(path))
            return
        for ei in outs:
            path.append(ei)
            rec(g.edges[ei][1], path)
            path.pop()
    rec(g.init[0], [])
    return out


def check(pid, tier, seed):
    t0 = time.time()
    verdict = common.Verdict(pid)
    exe = harness()
    mcs = [common.model_check(SPEC, "ThreadStart.tla", "MC_ThreadStart_FALSE.cfg", "ThreadStart (callable copied)")]
    dot, dst = common.dump_graph(SPEC, "ThreadStart.tla", "MC_ThreadStart_FALSE.cfg", "ThreadStart")
    g = common.load_graph(dot)
    paths = all_paths(g)
    lines, meta = [], {}
    for pi, path in enumerate(paths):
        for kind in range(4):
            for args in range(3):
                xid = "p%d-k%d-a%d" % (pi, kind, args)
                lines.append("X %s mode=script kind=%d args=%d form=%d" % (xid, kind, args, (pi + kind + args) % 2))
                for ei in path:
                    lines.append("S t=%d" % (1 if g.edges[ei][2].startswith("T") else 0))
                lines.append("E")
                meta[xid] = path
    # the same Thread object started a second time after join(): every complete behaviour of the two-round graph
    mcs.append(common.model_check(SPEC, "ThreadStart.tla", "MC_ThreadStart_restart.cfg", "ThreadStart (two rounds on one Thread object)"))
    dot2, dst2 = common.dump_graph(SPEC, "ThreadStart.tla", "MC_ThreadStart_restart.cfg", "ThreadStart-restart")
    g2 = common.load_graph(dot2)
    paths2 = all_paths(g2)
    meta2 = {}
    for pi, path in enumerate(paths2):
        for kind in range(4):
            args = (pi + kind) % 3
            xid = "r%d-k%d-a%d" % (pi, kind, args)
            lines.append("X %s mode=script kind=%d args=%d form=%d rounds=2" % (xid, kind, args, (pi + kind) % 2))
            for ei in path:
                # the new thread of round r is vsched thread r
                lines.append("S t=%d" % (g2.states[g2.edges[ei][0]]["round"] if g2.edges[ei][2].startswith("T") else 0))
            lines.append("E")
            meta2[xid] = path
    n_y = {"quick": 240, "thorough": 200000}[tier]
    rnd = random.Random("thr-%s" % seed)
    for i in range(n_y):
        # every eighth: the first pthread_create fails (EAGAIN), start() throws, and the same start() is tried again
        lines += ["X y%d mode=random kind=%d args=%d form=%d rounds=%d failcreate=%d seed=%d" % (i, i % 4, (i // 4) % 3, (i // 12) % 2, 2 if i % 5 == 3 else 1, 1 if i % 8 == 6 else 0, rnd.randrange(1, 2 ** 31)), "E"]
    res = common.run_harness(exe, "\n".join(lines) + "\n")
    # 'poll' scenario on the access-instrumented build
    plines = []
    n_poll = {"quick": 60, "thorough": 40000}[tier]
    for i in range(n_poll):
        plines += ["X poll%d mode=random kind=4 args=0 ay=%d seed=%d" % (i, i % 2, rnd.randrange(1, 2 ** 31)), "E"]
    # on this build every atomic operation can be made a scheduling point (ay=1): the new thread may then run, and even
    # finish, while the starter is still inside start()
    for i in range(n_poll * 2):
        plines += ["X ay%d mode=random kind=%d args=%d form=%d rounds=%d ay=1 accy=%d seed=%d" % (i, i % 4, (i // 4) % 3, (i // 12) % 2, 2 if i % 7 == 5 else 1, 0 if i % 2 else 1500, rnd.randrange(1, 2 ** 31)), "E"]
    pres = common.run_harness(race_harness(), "\n".join(plines) + "\n")
    for xid, recs in pres.items():
        res[xid] = recs
        addr = next((r["addr"] for r in recs if r.get("e") == "PayloadAddr"), None)
        for r in recs:
            if r.get("e") == "Race" and addr is not None and abs(int(r["addr"], 16) - int(addr, 16)) < 4:
                verdict.violation("thread[poll] payload race after isFinished()", "the starter saw isFinished() == true but its read of the callable's result is not "
                                  "ordered after the callable's write (no happens-before edge through the finished flag)", {"component": "thread", "xid": xid, "id": xid, "race": r})
    drifts = []
    execs = {}
    for xid, recs in res.items():
        execs[xid] = [{"e": r["e"], "a": r.get("a", 0), "b": r.get("b", 0)} for r in recs if r.get("e") in P_EVENTS]
        if xid in meta:
            steps = [r for r in recs if r.get("e") == "Step"]
            path = meta[xid]
            d = None
            for r in recs:
                if r.get("e") == "Drift":
                    d = r.get("why")
            for i, ei in enumerate(path):
                if d or i >= len(steps):
                    d = d or "only %d of %d steps executed" % (len(steps), len(path))
                    break
                st = g.states[g.edges[ei][1]]
                exp = [PC_S[st["spc"]]] + ([PC_T[st["tpc"]]] if st["tpc"] != "none" else [])
                if steps[i]["pc"] != exp:
                    d = "step %d (%s): thread locations %s, ThreadStart says %s" % (i, g.edges[ei][2], steps[i]["pc"], exp)
            if d:
                drifts.append(d)
    for xid, path in meta2.items():
        recs = res.get(xid, [])
        steps = [r for r in recs if r.get("e") == "Step"]
        d = next((r.get("why") for r in recs if r.get("e") == "Drift"), None)
        for i, ei in enumerate(path):
            if d or i >= len(steps):
                d = d or "only %d of %d steps executed" % (len(steps), len(path))
                break
            st = g2.states[g2.edges[ei][1]]
            # thread 1 stays in the scheduler's table as finished once round 2 has begun; tpc keeps "exited" until the next start()
            if st["round"] == 1:
                exp = [PC_S[st["spc"]]] + ([PC_T[st["tpc"]]] if st["tpc"] != "none" else [])
            else:
                exp = [PC_S[st["spc"]], "FIN"] + ([PC_T[st["tpc"]]] if st["tpc"] != "none" and st["spc"] != "init" else [])
            if steps[i]["pc"] != exp:
                d = "restart step %d (%s): thread locations %s, ThreadStart says %s" % (i, g2.edges[ei][2], steps[i]["pc"], exp)
        if d:
            drifts.append(d)
    if drifts:
        log("DRIFT property=%s %d of %d replayed behaviours deviate from ThreadStart; first: %s" % (pid, len(drifts), len(meta) + len(meta2), drifts[0]))
    acc, rej, tst = tracecheck.validate(SPEC, "ThreadStartTrace.tla", "ThreadStartTrace.cfg", execs)
    log("[%s] %d behaviours x 12 variants + %d two-round behaviours x 4 + %d random: %d executions, %d rejected" % (pid, len(paths), len(paths2), n_y, len(execs), len(rej)))
    for x, info in rej.items():
        nx = info.get("next") or {}
        b = info["events"][0]
        if any(e["e"] == "StartThrew" for e in info["events"]):
            # a thread that cannot be created is not in C20's quantifier: reported, not judged
            verdict.note("thread[kind=%s, creation fails]@%s(a=%s)" % (b["a"], nx.get("e"), nx.get("a")), {"matched": info["matched"]})
            continue
        verdict.violation("thread[kind=%s,args=%s]@%s(a=%s)" % (b["a"], b["b"], nx.get("e"), nx.get("a")),
                          {"matched": info["matched"], "next": nx}, {"component": "thread", "xid": x, "id": x, "events": info["events"]})
    distinct = len({json.dumps(e) for e in execs.values()})
    cov = {"states": len(g.states), "transitions": len(g.edges), "traces_validated_against_impl": len(execs),
           "samples": [{"id": x, "events": execs[x]} for x in list(execs)[:2]],
           "exhaustive": not drifts, "evaluations": len(execs), "distinct_nontrivial": distinct,
           "rule": "every complete behaviour of TLC's graph of ThreadStart x {function pointer, small closure, 256-byte closure, Runnable} x {0,1,2 lvalue arguments}, "
                   "plus seeded random schedules; distinct = distinct observable event sequences",
           "edge_cover": {"behaviours": len(paths), "two_round_behaviours": len(paths2), "drift": drifts[:3]}, "model_checks": mcs, "graph_dump": dst, "trace_validation": [tst]}
    rc = verdict.finish()
    common.write_evidence(pid, tier, seed, "model_checking", cov, ASSUMPTIONS, time.time() - t0, len(verdict.violations))
    return rc


TRACE_SPEC = ("ThreadStartTrace.tla", "ThreadStartTrace.cfg")


def p_events(recs):
    return [{"e": r["e"], "a": r.get("a", 0), "b": r.get("b", 0)} for r in recs if r.get("e") in P_EVENTS]


def all_harnesses():
    a, b = harness(), race_harness()
    return {a.name: a, b.name: b}


def replay(pid, path):
    import sys
    return common.replay(pid, path, sys.modules[__name__])
