"""tulz::File (C17): byte-exact round trips, sizes and errors.

FileP.tla (one path: absent / directory / file content; a handle with mode and position; open with
truncate / append / NotFound / NotFile, write in chunks, close, read(), readStr(), read(buffer), seek, tell,
size) is enumerated by TLC for all histories up to the bound; every edge is executed on the real File in a
scratch directory, with the model's symbols mapped to the bytes 0x00/0xFF, LF/CR, 0x1A/'a' and repeated
1, 4096 (and 2^20) times; returned bytes, counts, positions, sizes (also against std::filesystem) and
exception types are compared with the TLC state. Exploration level.
"""
import json
import time

from lib import common, pathcover
from lib.common import log

SPEC = common.SPEC / "fs"
FLAGS = ["-O1", "-g", "-UNDEBUG", "-fsanitize=address,undefined", "-fno-sanitize=nonnull-attribute", "-fno-omit-frame-pointer"]
ASSUMPTIONS = [
    "POSIX: text and binary modes are identical; write and append handles only ever add at the end (no seek in them), reads happen on read handles",
    "contents are repetitions of two symbols per palette (0x00/0xFF, 0x0A/0x0D, 0x1A/0x61) with multiplicities 1, 4096 and (thorough) 2^20; arbitrary byte strings (uniform, special-byte-heavy, text-like; lengths up to 70000, 3 MiB in thorough) are sampled as seeded round trips",
    "one handle and one path at a time; the scratch directory is private to the execution",
]


def harness():
    return common.build("file_h", ["fs/file_harness.cpp"], FLAGS, ["src/File.cpp", "src/Path.cpp", "src/Exception.cpp"])


def sy(seq):
    return "".join(str(x) for x in seq) if len(seq) else "-"


def step_line(g, ei):
    _, _, name, args = g.edges[ei]
    if name == "Open":
        return "S op=Open m=%s" % args[0]
    if name == "Write":
        return "S op=Write c=%s" % sy(args[0])
    if name == "ReadBuf":
        return "S op=ReadBuf n=%d" % args[0]
    if name == "SeekStart":
        return "S op=SeekStart o=%d" % args[0]
    return "S op=%s" % name


def check(pid, tier, seed):
    t0 = time.time()
    verdict = common.Verdict(pid)
    exe = harness()
    cfg = "quick" if tier == "quick" else "thorough"
    mc = common.model_check(SPEC, "MC_File.tla", "MC_File_%s.cfg" % cfg, "FileP " + cfg, heap="8g")
    dot, dst = common.dump_graph(SPEC, "MC_File.tla", "MC_File_%s.cfg" % cfg, "FileP-" + cfg, heap="8g")
    g = common.load_graph(dot)
    scratch = common.scratch() / "files"
    scratch.mkdir(parents=True, exist_ok=True)
    variants = [(0, 1), (1, 1), (2, 1), (0, 4096), (1, 4096)]
    big = [(0, 1 << 20)] if tier == "thorough" else []
    covered = set()
    lines, meta = [], {}
    n = 0
    for init in g.init:
        paths, covered = pathcover.cover(g, init=init, max_len=20, covered=covered)
        s0 = g.states[init]
        for pi, path in enumerate(paths):
            vs = variants + (big if pi % 50 == 0 else [])
            for (pal, mult) in vs if pi % 7 == 0 else [vs[pi % len(variants)]]:
                xid = "f%d" % n
                n += 1
                lines.append("X %s pal=%d mult=%d kind=%s content=%s link=%d dir=%s" % (xid, pal, mult, s0["kind"], sy(s0["content"]), 1 if n % 5 == 2 else 0, scratch))
                lines += [step_line(g, ei) for ei in path]
                lines.append("E")
                meta[xid] = (path, pal, mult)
    # long random walks: the step counter is the only thing that bounds TLC's behaviours, and no answer depends on it, so edges
    # whose end and start states agree in everything but the counter are chained into histories of 12-40 operations on ONE File
    # object (what an edge cover cannot show: state the object carries over from an earlier open)
    import random as _random
    wrnd = _random.Random("file-walk-%s" % seed)
    key = lambda st: json.dumps({k: v for k, v in st.items() if k != "steps"}, sort_keys=True, default=str)
    out_by_key = {}
    for si, outs in g.out.items():
        if outs:
            out_by_key.setdefault(key(g.states[si]), set()).update(outs)
    out_by_key = {k: sorted(v) for k, v in out_by_key.items()}
    nwalk = {"quick": 400, "thorough": 20000}[tier]
    for wi in range(nwalk):
        init = wrnd.choice(g.init)
        s0 = g.states[init]
        cur, path = key(s0), []
        for _ in range(wrnd.randrange(12, 41)):
            outs = out_by_key.get(cur)
            if not outs:
                break
            reopen = [ei for ei in outs if g.edges[ei][2] in ("Open", "Close")]
            ei = wrnd.choice(reopen) if reopen and wrnd.random() < 0.3 else wrnd.choice(outs)
            path.append(ei)
            cur = key(g.states[g.edges[ei][1]])
        pal, mult = variants[wi % len(variants)]
        xid = "w%d" % wi
        lines.append("X %s pal=%d mult=%d kind=%s content=%s link=%d dir=%s" % (xid, pal, mult, s0["kind"], sy(s0["content"]), 1 if wi % 5 == 2 else 0, scratch))
        lines += [step_line(g, ei) for ei in path]
        lines.append("E")
        meta[xid] = (path, pal, mult)
    # "opening a missing file for reading fails with NotFound" whatever makes the name resolve to nothing: the behaviours that
    # only try to open an absent path for reading, on a name longer than NAME_MAX and on a self-referential symbolic link
    for init in g.init:
        if g.states[init]["kind"] != "absent":
            continue
        for variant in ("long", "loop"):
            cur, path = init, []
            for k in range(3):
                opens = [ei for ei in g.out.get(cur, ()) if g.edges[ei][2] == "Open" and g.states[g.edges[ei][1]]["res"]["k"] == "error"]
                if not opens:
                    break
                ei = opens[(k + len(variant)) % len(opens)]
                path.append(ei)
                cur = g.edges[ei][1]
            xid = "nf-%s-%d" % (variant, init % 1000)
            lines.append("X %s pal=0 mult=1 kind=absent content=- link=0 absent=%s dir=%s" % (xid, variant, scratch))
            lines += [step_line(g, ei) for ei in path]
            lines.append("E")
            meta[xid] = (path, 0, 1)
    res = common.run_harness(exe, "\n".join(lines) + "\n")
    seen = set()
    for xid, (path, pal, mult) in meta.items():
        recs = res.get(xid, [])
        obs = {r["i"]: r for r in recs if r.get("e") == "Obs"}
        crash = next((r for r in recs if r.get("e") == "Crash"), None)
        fin = next((r for r in recs if r.get("e") == "Final"), None)
        prob = None
        last = None
        for i, ei in enumerate(path):
            st = g.states[g.edges[ei][1]]
            last = st
            name = g.edges[ei][2]
            r = obs.get(i)
            if r is None:
                break
            e = st["res"]
            seen.add((name, e["k"], pal, mult))
            if e["k"] == "error":
                if r["k"] != "error" or r.get("e") != e["e"]:
                    prob = "step %d (%s): expected exception %s, got %s %s" % (i, name, e["e"], r["k"], r.get("e", ""))
            elif e["k"] == "ok":
                if r["k"] != "ok":
                    prob = "step %d (%s): failed with %s %s" % (i, name, r["k"], r.get("e", ""))
            elif e["k"] in ("bytes", "string"):
                if r["k"] != e["k"] or r.get("s") != sy(e["s"]) or r.get("n") != e["n"] or r.get("clean") is False:
                    prob = "step %d (%s): returned %s bytes %s, the file holds %s at that position" % (i, name, r.get("n"), r.get("s"), sy(e["s"]))
            elif e["k"] == "count":
                if r["k"] != "count" or r.get("n") != e["n"] or not r.get("exact"):
                    prob = "step %d (%s): wrote %s units, expected %s" % (i, name, r.get("n"), e["n"])
            elif e["k"] == "pos":
                if r["k"] != "pos" or r.get("n") != e["n"] or not r.get("exact"):
                    prob = "step %d (%s): tell() = %s, expected %s" % (i, name, r.get("n"), e["n"])
            elif e["k"] == "size":
                if r["k"] != "size" or r.get("n") != e["n"] or not r.get("exact") or r.get("moved") or r.get("fs") != e["n"]:
                    prob = "step %d (%s): size() = %s (filesystem says %s, position moved: %s), expected %s" % (i, name, r.get("n"), r.get("fs"), r.get("moved"), e["n"])
            if prob is None and r["disk"] != st["kind"]:
                prob = "step %d (%s): the path is '%s' on disk, model says '%s'" % (i, name, r["disk"], st["kind"])
            if prob is None and r["open"] != (st["mode"] != "closed"):
                prob = "step %d (%s): isOpen() = %s, model mode %s" % (i, name, r["open"], st["mode"])
            if prob:
                break
        if prob is None and crash is not None:
            prob = "sanitizer / signal during a valid history: " + " ".join(crash.get("stderr", "").split())[:260]
        if prob is None and fin is not None and last is not None and last["kind"] == "file" and fin["content"] != sy(last["content"]):
            prob = "after closing, the file holds %s, expected %s" % (fin["content"], sy(last["content"]))
        if prob:
            ops = [step_line(g, ei)[2:] for ei in path]
            s0 = g.states[g.edges[path[0]][0]]
            k = int(prob.split()[1]) if prob.startswith("step ") and prob.split()[1].isdigit() else len(ops) - 1
            verdict.violation("file[pal=%d,mult=%d] %s" % (pal, mult, " ".join(prob.split()[2:8])), prob,
                              {"component": "file", "xid": xid, "palette": pal, "multiplicity": mult, "initial": {"kind": s0["kind"], "content": sy(s0["content"])}, "history": ops[:k + 1]})
    # arbitrary byte strings: seeded round trips (the statement itself is the oracle: what was written is what is read)
    import random
    rnd = random.Random("file-%s" % seed)
    nrt = {"quick": 300, "thorough": 5000}[tier]
    rlines, rcfg = [], {}
    for i in range(nrt):
        ln = rnd.choice([0, 1, 2, 255, 4095, 4096, 4097, 8192, 65536]) if rnd.random() < 0.5 else rnd.randrange(0, 70000)
        if tier == "thorough" and i % 500 == 0:
            ln = 3 * (1 << 20) + rnd.randrange(0, 5000)
        cfg = "roundtrip=1 seed=%d len=%d flavour=%d append=%d text=%d companion=%d dir=%s" % (rnd.randrange(1, 2 ** 31), ln, rnd.randrange(3), rnd.randrange(2), rnd.randrange(2), 1 if i % 3 == 0 else 0, scratch)
        if i < 4:
            # one call that carries more than 2^23 bytes, through each of the four write overloads (as records: > 2^20 records of
            # 8, 4 or 2 bytes in one call); nothing in File may depend on how much a single call hands over
            cfg = "roundtrip=1 seed=%d len=%d flavour=%d append=0 text=%d companion=0 maxchunk=1 via=%d dir=%s" % (
                rnd.randrange(1, 2 ** 31), 8 * ((1 << 20) + rnd.randrange(1, 3000)) + (rnd.choice([0, 2, 4]) if i == 2 else rnd.randrange(2)), rnd.randrange(3), rnd.randrange(2), i, scratch)
            cfg = cfg.replace("maxchunk=1 ", "maxchunk=%d " % (1 << 40))
        rlines += ["X rt%d %s" % (i, cfg), "E"]
        rcfg["rt%d" % i] = cfg
    rres = common.run_harness(exe, "\n".join(rlines) + "\n")
    for x, cfg in rcfg.items():
        recs = rres.get(x, [])
        r = next((q for q in recs if q.get("e") == "RoundTrip"), None)
        crash = next((q for q in recs if q.get("e") == "Crash"), None)
        prob = None
        if r is None:
            prob = "round trip did not finish: " + (" ".join(crash.get("stderr", "").split())[:260] if crash else "no result")
        elif not r["ok"]:
            prob = r["problem"]
        if prob:
            verdict.violation("file[roundtrip] %s" % " ".join(prob.split(":")[0].split()[:6]), prob, {"component": "file", "xid": x, "cfg": " ".join(t for t in cfg.split() if not t.startswith("dir="))})
    log("[%s] graph %d states / %d edges, %d executions; %d random round trips" % (pid, len(g.states), len(g.edges), len(meta), nrt))
    some = list(meta)[:2]
    cov = {"evaluations": len(meta) + nrt, "distinct_nontrivial": len(seen), "random_round_trips": nrt,
           "rule": "path cover of every edge of TLC's graph of FileP (all histories of <= MaxSteps operations from every initial disk state), each path executed with "
                   "2-5 (palette, multiplicity) variants; distinct_nontrivial = distinct (operation, result kind, palette, multiplicity) combinations observed",
           "samples": [{"palette": meta[x][1], "multiplicity": meta[x][2], "history": [step_line(g, ei)[2:] for ei in meta[x][0]]} for x in some],
           "states": len(g.states), "transitions": len(g.edges), "edges_replayed": len(covered), "model_checks": [mc], "graph_dump": dst}
    rc = verdict.finish()
    common.write_evidence(pid, tier, seed, "exploration", cov, ASSUMPTIONS, time.time() - t0, len(verdict.violations))
    return rc


def all_harnesses():
    exe = harness()
    return {exe.name: exe}


def replay(pid, path):
    import sys
    return common.replay(pid, path, sys.modules[__name__])
