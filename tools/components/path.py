"""tulz::Path and tulz::DirectoryVisitor (C18).

Three small specifications are enumerated by TLC and used as case generators with their expected answers:
PathStrP (join / getPathName / getParentDirectory laws over all directory strings of <= 4 characters from
{'/','a','b','.',' '} and names of <= 2 characters), PathTreeP (every directory tree of <= 4 nodes below the
root, depth <= 3, names with a colon in second position, a space, a leading dot, two leading dots and non-ASCII bytes, file sizes 0/1/5000 and, in every seventh tree, sparse files of 3 GiB + 5000 bytes) and VisitorP
(nested DirectoryVisitors as a stack of saved working directories). The harness materialises each case and
compares the real answers, cross-checked against std::filesystem. Exploration level.
"""
import time

from lib import common, pathcover
from lib.common import log

SPEC = common.SPEC / "fs"
FLAGS = ["-O1", "-g", "-UNDEBUG", "-fsanitize=address,undefined", "-fno-sanitize=nonnull-attribute", "-fno-omit-frame-pointer"]
NAMES = {1: "a:b", 2: ".b c", 3: "..xé"}
SIZES = {"f0": 0, "f1": 1, "f5000": 5000}
ASSUMPTIONS = [
    "POSIX paths with '/' as the only separator; no symlinks or special files; trees are private scratch directories",
    "string laws are enumerated for directory strings of <= 4 and names of <= 2 characters over {'/','a','b','.',' '}; trees for <= 4 nodes below the root",
    "the process working directory is only changed inside forked children",
]


def harness():
    return common.build("path_h", ["fs/path_harness.cpp"], FLAGS, ["src/Path.cpp", "src/DirectoryVisitor.cpp", "src/Exception.cpp"])


def hx(s):
    return s.encode("utf-8").hex()


def check(pid, tier, seed):
    t0 = time.time()
    verdict = common.Verdict(pid)
    exe = harness()
    scratch = common.scratch() / "paths"
    scratch.mkdir(parents=True, exist_ok=True)
    mcs = [common.model_check(SPEC, "MC_PathStr.tla", "MC_PathStr.cfg", "PathStrP"),
           common.model_check(SPEC, "MC_PathTree.tla", "MC_PathTree.cfg", "PathTreeP", heap="8g"),
           common.model_check(SPEC, "VisitorP.tla", "MC_Visitor.cfg", "VisitorP"),
           common.model_check(SPEC, "VisitorP.tla", "MC_VisitorScoped.cfg", "VisitorP scoped use")]
    evaluations = 0
    distinct = set()
    samples = []
    # ---- (a) string laws -------------------------------------------------------------------
    dot, _ = common.dump_graph(SPEC, "MC_PathStr.tla", "MC_PathStr.cfg", "PathStrP")
    g = common.load_graph(dot)
    cases = list(g.states.values())
    lines = []
    per = 200
    groups = [cases[i:i + per] for i in range(0, len(cases), per)]
    for gi, grp in enumerate(groups):
        lines.append("X s%d mode=str" % gi)
        for st in grp:
            lines.append("S d=%s n=%s" % (hx("".join(st["d"])), hx("".join(st["n"]))))
        lines.append("E")
    res = common.run_harness(exe, "\n".join(lines) + "\n")
    for gi, grp in enumerate(groups):
        recs = {r["i"]: r for r in res.get("s%d" % gi, []) if r.get("e") == "Str"}
        crash = next((r for r in res.get("s%d" % gi, []) if r.get("e") == "Crash"), None)
        for i, st in enumerate(grp):
            d, n = "".join(st["d"]), "".join(st["n"])
            r = recs.get(i)
            evaluations += 1
            if r is None:
                if crash is not None and i == len(recs):
                    verdict.violation("path[str] sanitizer / signal", {"d": d, "n": n, "problem": " ".join(crash.get("stderr", "").split())[:200]},
                                      {"component": "path", "part": "strings", "d": d, "n": n})
                continue
            want = {"j": hx("".join(st["j"])), "jp": hx("".join(st["j"])), "name": hx("".join(st["nm"])), "par": hx("".join(st["par"])),
                    "jabs": hx("/" + n), "abs": True, "rel": False, "j3name": hx(n)}
            distinct.add(("str", d.endswith("/"), d.startswith("/"), len(d), len(n)))
            for k, v in want.items():
                if r.get(k) != v:
                    got = bytes.fromhex(r[k]).decode("utf-8", "replace") if isinstance(r.get(k), str) else r.get(k)
                    exp = bytes.fromhex(v).decode() if isinstance(v, str) else v
                    verdict.violation("path[str] %s" % k, "d=%r n=%r: %s = %r, the statement requires %r" % (d, n, k, got, exp),
                                      {"component": "path", "part": "strings", "d": d, "n": n})
                    break
    samples.append({"part": "strings", "d": "".join(cases[7]["d"]), "n": "".join(cases[7]["n"]), "join": "".join(cases[7]["j"])})
    # ---- (b) trees -------------------------------------------------------------------------
    dot, _ = common.dump_graph(SPEC, "MC_PathTree.tla", "MC_PathTree.cfg", "PathTreeP", heap="8g")
    g = common.load_graph(dot)
    trees = sorted(g.states.values(), key=lambda s: sorted((tuple(k), v) for k, v in s["tree"].items()))
    if tier == "quick":
        stride = max(1, len(trees) // 700)
        trees = trees[::stride]
    # beyond TLC's bound on the depth: chains of nested directories with files at the bottom and half-way ("for any depth")
    for depth in ((70, 33) if tier == "quick" else (70, 33, 130, 200)):
        chain = {(): "dir"}
        bottom = tuple(1 + (j % 3) for j in range(depth))
        for k in range(1, depth + 1):
            chain[bottom[:k]] = "dir"
        chain[bottom + (1,)] = "f1"
        chain[bottom + (2,)] = "f5000"
        chain[bottom[:depth // 2] + (1 + bottom[depth // 2] % 3,)] = "f1"
        trees.append({"tree": chain})
    lines, meta = [], {}
    for ti, st in enumerate(trees):
        tree = {tuple(k): v for k, v in st["tree"].items()}
        order = sorted(tree, key=lambda p: (len(p), p))
        big = 1 if ti % 7 == 3 else 0   # every seventh tree: "large files" (sparse, 3 GiB + 5000 bytes each)
        lines.append("X t%d mode=tree dir=%s big=%d" % (ti, scratch, big))
        for p in order:
            if p == ():
                continue
            lines.append("S node=%s kind=%s" % (".".join(map(str, p)), tree[p]))
        lines.append("E")
        meta["t%d" % ti] = (tree, big)
    res = common.run_harness(exe, "\n".join(lines) + "\n")

    def total(tree, p):
        return sum(SIZES[k] for q, k in tree.items() if k != "dir" and q[:len(p)] == p)
    BIGSZ = (3 << 30) + 5000
    for xid, (tree, big) in meta.items():
        SIZES["f5000"] = BIGSZ if big else 5000
        recs = res.get(xid, [])
        evaluations += 1
        distinct.add(("tree", len(tree), max(len(p) for p in tree), tuple(sorted(tree.values()))))
        crash = next((r for r in recs if r.get("e") == "Crash"), None)
        byn = {r["node"]: r for r in recs if r.get("e") == "Node"}
        prob = None
        for p, k in tree.items():
            key = ".".join(map(str, p)) if p else "-"
            r = byn.get(key)
            where = "/".join(NAMES[i] for i in p) or "(root)"
            if r is None:
                prob = prob or "no answer for %s%s" % (where, (": " + " ".join(crash.get("stderr", "").split())[:200]) if crash else "")
                continue
            if "exc" in r:
                prob = prob or "%s: unexpected exception type %s" % (where, r["exc"])
                continue
            want = {"exists": True, "file": k != "dir", "dir": k == "dir", "size": total(tree, p) if k == "dir" else SIZES[k], "fs_dir": k == "dir"}
            if k == "dir":
                kids = sorted(hx(NAMES[q[-1]]) for q in tree if len(q) == len(p) + 1 and q[:len(p)] == p)
                want.update({"kids": kids, "tdir": True, "tsize": want["size"]})
            else:
                want["kids_throws"] = True
            for f, v in want.items():
                if r.get(f) != v and prob is None:
                    prob = "%s (%s): %s = %s, the tree says %s" % (where, k, f, r.get(f), v)
        for r in recs:
            if r.get("e") != "Rel" or prob is not None:
                continue
            pth = tuple(int(x) for x in r["node"].split("."))
            k = tree[pth]
            where = ("./" if r["variant"] else "") + "/".join(NAMES[i] for i in pth)
            if "exc" in r:
                prob = "relative path %s: unexpected exception type %s" % (where, r["exc"])
                continue
            want = {"exists": True, "file": k != "dir", "dir": k == "dir", "abs": False, "size": total(tree, pth) if k == "dir" else SIZES[k]}
            if k == "dir":
                want["nkids"] = sum(1 for q in tree if len(q) == len(pth) + 1 and q[:len(pth)] == pth)
            for f, v in want.items():
                if r.get(f) != v and prob is None:
                    prob = "relative path %s (%s): %s = %s, the tree says %s" % (where, k, f, r.get(f), v)
        fd = next((r for r in recs if r.get("e") == "Fds"), None)
        if fd and fd["f1"] > fd["f0"] and fd["f2"] > fd["f1"] and prob is None:
            prob = "(tree): every round of exists/isFile/isDirectory/size/listChildren over the tree leaves more descriptors open (%d -> %d -> %d): a tree large enough exhausts them and the answers stop agreeing with the file system" % (fd["f0"], fd["f1"], fd["f2"])
        em = next((r for r in recs if r.get("e") == "Empty"), None)
        if em and (em["exists"] or em["file"] or em["dir"] or em["abs"]) and prob is None:
            prob = "(empty path): exists/isFile/isDirectory/isAbsolute = %s/%s/%s/%s for the empty path, the file system has no such entry" % (em["exists"], em["file"], em["dir"], em["abs"])
        for r in recs:
            if r.get("e") == "Again" and prob is None and (r["exists"], r["file"], r["dir"]) != (r["fs_exists"], r["fs_file"], r["fs_dir"]):
                prob = "(same Path object asked again, %s, %s the change): exists/isFile/isDirectory = %s/%s/%s, the file system says %s/%s/%s" % (
                    r["what"], r["when"], r["exists"], r["file"], r["dir"], r["fs_exists"], r["fs_file"], r["fs_dir"])
        m = next((r for r in recs if r.get("e") == "Missing"), None)
        if prob is None and m is not None and (m["exists"] or m["file"] or m["dir"] or not m["size_throws"]):
            prob = "a missing entry: exists=%s isFile=%s isDirectory=%s size() throws NotFound=%s" % (m["exists"], m["file"], m["dir"], m["size_throws"])
        if prob:
            desc = sorted(("/".join(NAMES[i] for i in p), k) for p, k in tree.items() if p)
            verdict.violation("path[tree] %s" % " ".join(prob.split(":")[-1].split()[:3]), prob, {"component": "path", "part": "tree", "tree": desc})
    samples.append({"part": "tree", "tree": sorted(("/".join(NAMES[i] for i in p), k) for p, k in list(meta.values())[len(meta) // 2][0].items() if p)})
    # ---- (c) nested visitors ---------------------------------------------------------------
    vcfg = "MC_Visitor.cfg" if tier == "quick" else "MC_Visitor_thorough.cfg"
    dot, _ = common.dump_graph(SPEC, "VisitorP.tla", vcfg, "VisitorP-" + vcfg)
    g = common.load_graph(dot)
    paths, covered = pathcover.cover(g, max_len=12)
    lines = []

    def vstep(ei):
        _, _, name, args = g.edges[ei]
        if name in ("Construct", "Chdir"):
            return "S op=%s d=%d" % (name, args[0])
        if name == "SetDir":
            return "S op=SetDir v=%d d=%d" % (args[0], args[1])
        if name in ("Visit", "Restore"):
            return "S op=%s v=%d" % (name, args[0])
        return "S op=Destroy"

    # longer histories than TLC's step bound allows: random walks over the graph with the step counter dropped (lib/pathcover.py)
    import random as _random
    ncover = len(paths)
    paths = list(paths) + [w for _, w in pathcover.random_walks(g, _random.Random("visitor-walk-%s" % seed), {"quick": 300, "thorough": 10000}[tier], 8, 30, drop=("steps",)) if w]
    for pi, path in enumerate(paths):
        lines.append("X v%d mode=visitor root=%d dir=%s" % (pi, 1 if pi % 4 == 1 else 0, scratch))
        lines += [vstep(ei) for ei in path]
        lines.append("E")
    res = common.run_harness(exe, "\n".join(lines) + "\n")
    vdrift = []
    for pi, path in enumerate(paths):
        recs = {r["i"]: r for r in res.get("v%d" % pi, []) if r.get("e") == "Cwd"}
        evaluations += 1
        distinct.add(("visitor", tuple(g.edges[ei][2] + str(g.edges[ei][3]) for ei in path)))
        # the property's own oracle works on OBSERVED directories only: destroying a visitor leads back to the directory that was
        # observed just before its last effective visit() (if restore() was called since, staying put is accepted as well);
        # destroying one that never visited changes nothing. Everything else is compared with VisitorP and reported as drift.
        seen = 0            # observed cwd before the step
        vis = []            # per live visitor: dict(dir, before, fresh) / None
        for i, ei in enumerate(path):
            _, dstn, name, args = g.edges[ei]
            st = g.states[dstn]
            r = recs.get(i)
            ops = ["%s%s" % (g.edges[e][2], tuple(g.edges[e][3]) if g.edges[e][3] else "") for e in path[:i + 1]]
            if r is None or not r["agree"]:
                verdict.violation("path[visitor] stopped at %s" % name, "after %s: %s" % (ops, r), {"component": "path", "part": "visitor", "history": ops})
                break
            now = r["cwd"]
            if name == "Construct":
                vis.append({"dir": args[0], "before": seen if args[0] else None, "fresh": True})
                if args[0] and now != args[0]:
                    verdict.violation("path[visitor] cwd after Construct", "after %s the working directory is %s, not the visited directory %s" % (ops, now, args[0]),
                                      {"component": "path", "part": "visitor", "history": ops})
                    break
            elif name == "SetDir":
                vis[args[0] - 1]["dir"] = args[1]
            elif name == "Visit":
                v = vis[args[0] - 1]
                if v["dir"]:
                    v["before"], v["fresh"] = seen, True
            elif name == "Restore":
                vis[args[0] - 1]["fresh"] = False
            elif name == "Destroy":
                v = vis.pop()
                ok = (now == seen) if v["before"] is None else (now == v["before"] or (not v["fresh"] and now == seen))
                if not ok:
                    verdict.violation("path[visitor] cwd after Destroy", "after %s the working directory is %s; before the visitor's last visit() it was %s" %
                                      (ops, now, v["before"] if v["before"] is not None else "%s (and the visitor never visited)" % seen),
                                      {"component": "path", "part": "visitor", "history": ops})
                    break
            if now != st["cwd"] and not vdrift:
                vdrift.append("after %s the working directory is %s, VisitorP says %s" % (ops, now, st["cwd"]))
            seen = now
    if vdrift:
        log("DRIFT property=%s DirectoryVisitor deviates from VisitorP: %s" % (pid, vdrift[0]))
    samples.append({"part": "visitor", "history": ["%s%s" % (g.edges[e][2], tuple(g.edges[e][3]) if g.edges[e][3] else "") for e in paths[0]]})
    log("[%s] %d string cases, %d trees, %d visitor histories" % (pid, len(cases), len(meta), len(paths)))
    cov = {"evaluations": evaluations, "distinct_nontrivial": len(distinct),
           "rule": "cases = TLC-enumerated states of PathStrP (46620 (directory, name) pairs over the characters / a b . space :), PathTreeP (directory trees; a stride sample in quick, all in thorough) and a path "
                   "cover of VisitorP's graph; distinct_nontrivial = distinct (trailing separator, absolute, lengths) string classes + distinct (node count, depth, kinds) tree shapes + visitor histories",
           "samples": samples, "states": sum(m["distinct_states"] for m in mcs), "model_checks": mcs}
    extra_cov = None
    if tier == "thorough":   # the neighbouring specification module that no property speaks about (SPEC-NOTEs only)
        from lib import extrarun
        extra_cov = {"spec_growth": extrarun.summary("dynlib", tier, seed)}
    rc = verdict.finish()
    common.write_evidence(pid, tier, seed, "exploration", cov, ASSUMPTIONS, time.time() - t0, len(verdict.violations), extra=extra_cov)
    return rc


def all_harnesses():
    exe = harness()
    return {exe.name: exe}


def replay(pid, path):
    import sys
    return common.replay(pid, path, sys.modules[__name__])
