"""tulz::Subject: C05 (delivery to exactly the live, unmuted observers, in order) and C10 (re-entrant callbacks).

SubjectP (handles, lazy removal, notification rounds as a stack machine interpreting callback scripts)
is model-checked by TLC; every edge of its state graphs is executed on the real Subject (X): the C05
graph (all operations, no callbacks) for five argument signatures, the C10 graphs (callbacks that
subscribe / unsubscribe / mute / invalidate / notify on any target) under ASan; random histories are
validated by TLC against SubjectTrace (Y).
"""
import json
import random
import time

from lib import common, pathcover, tracecheck
from lib.common import log

SPEC = common.SPEC / "observer"
FLAGS = ["-O1", "-g", "-UNDEBUG", "-fsanitize=address,undefined", "-fno-sanitize=nonnull-attribute", "-fno-omit-frame-pointer"]
SIGS = ["none", "int", "str", "cref", "istr"]
EXPECT = {"none": lambda a: 0, "int": lambda a: a * 7 + 1, "str": lambda a: a, "cref": lambda a: a, "istr": lambda a: (a + 100) * 1000 + a}
ASSUMPTIONS = [
    "callbacks use a handle only after checking isValid() and do not touch their own captures after an action that may destroy them",
    "whether an observer muted/unmuted by an earlier callback of the same round is invoked in that round is left open (optional deliveries)",
    "isValid() of a handle whose observer was invalidated but not yet lazily removed is not constrained",
    "TLC results are exhaustive for <= 3 named observers (+2 created by callbacks), scripts of one step (quick) / one two-step script (thorough), nesting <= 2",
    "use-after-free is observed by AddressSanitizer during the replays, not proved absent",
]


def harness():
    return common.build("subject_h", ["observer/subject_harness.cpp"], FLAGS, [])


def throws(c):
    """The history contains an observer whose callback throws."""
    return any(any(o["k"] == "throw" for o in st[4]) for st in c["steps"] if st[0] in ("Subscribe", "SubscribeMuted"))


def plain_harness():
    return common.build("subject_plain", ["observer/subject_harness.cpp"], ["-O1", "-g", "-UNDEBUG"], [])


def sc_str(sc):
    return ",".join("%s:%d" % (o["k"], o["t"]) for o in sc) if len(sc) else "-"


def step_line(g, ei):
    _, _, name, args = g.edges[ei]
    if name == "OnLive":        # Mute / Unmute / Invalidate are instances of OnLive(h, field, value, name)
        return "S op=%s h=%s" % (args[3], args[0])
    if name in ("Subscribe", "SubscribeMuted"):
        return "S op=%s h=%s sc=%s" % (name, args[0], sc_str(args[1]))
    if name == "Swap":
        return "S op=Swap h=%s h2=%s" % (args[0], args[1])
    if name == "Notify":
        return "S op=Notify a=%d" % args[0]
    return "S op=%s h=%s" % (name, args[0])


def x_scripts(cfg, sigs, max_len=60):
    dot, st = common.dump_graph(SPEC, "MC_Subject.tla", "MC_Subject_%s.cfg" % cfg, "SubjectP-" + cfg, heap="8g")
    g = common.load_graph(dot)
    paths, covered = pathcover.cover(g, max_len=max_len)
    lines, meta = [], {}
    for pi, path in enumerate(paths):
        for sig in sigs:
            xid = "%s-%d-%s" % (cfg, pi, sig)
            lines.append("X %s sig=%s maxsubs=5" % (xid, sig))
            for ei in path:
                lines.append(step_line(g, ei))
            lines.append("E")
            meta[xid] = (path, sig)
    return g, meta, "\n".join(lines) + "\n", st, len(covered)


def match_log(exp, ob, sig):
    """exp: model log entries (dicts); ob: [[id, val, depth], ...]"""
    def rec(i, j):
        if i == len(exp):
            return j == len(ob)
        e = exp[i]
        same = j < len(ob) and ob[j][0] == e["id"] and ob[j][1] == EXPECT[sig](e["a"]) and ob[j][2] == e["d"]
        if e["opt"]:
            return (same and rec(i + 1, j + 1)) or rec(i + 1, j)
        if e["present"]:
            return same and rec(i + 1, j + 1)
        return rec(i + 1, j)
    return rec(0, 0)


def compare(g, path, sig, recs):
    obs = {r["i"]: r for r in recs if r.get("e") == "Obs"}
    crash = next((r for r in recs if r.get("e") == "Crash"), None)
    fin = next((r for r in recs if r.get("e") == "Final"), None)
    for i, ei in enumerate(path):
        st = g.states[g.edges[ei][1]]
        name = g.edges[ei][2] if g.edges[ei][2] != "OnLive" else g.edges[ei][3][3]
        r = obs.get(i)
        if r is None:
            break
        if r["res"] != st["res"]:
            return "step %d (%s): result %s, model says %s" % (i, name, r["res"], st["res"])
        explog = list(st["log"])
        if not match_log(explog, r["log"], sig):
            want = [(e["id"], EXPECT[sig](e["a"]), e["d"], "optional" if e["opt"] else "") for e in explog if e["present"] or e["opt"]]
            return "step %d (%s): deliveries %s, model says %s" % (i, name, r["log"], want)
        ids = {e["id"]: e for e in st["subs"]}
        for h in ("h1", "h2", "h3"):
            hid = st["handle"].get(h, 0)
            if hid == 0 or hid not in ids:
                if r["valid"].get(h):
                    return "step %d (%s): handle %s reports valid but it is default / unsubscribed / removed" % (i, name, h)
            elif ids[hid]["valid"]:
                if not r["valid"].get(h):
                    return "step %d (%s): handle %s of a live subscription reports invalid" % (i, name, h)
                if r["muted"].get(h) != ids[hid]["muted"]:
                    return "step %d (%s): handle %s isMuted() = %s, model says %s" % (i, name, h, r["muted"].get(h), ids[hid]["muted"])
        gone = sorted(set(range(1, st["nid"])) - set(ids))
        if sorted(r["destroyed"]) != gone:
            return "step %d (%s): observers destroyed so far %s, model says %s (each exactly once)" % (i, name, sorted(r["destroyed"]), gone)
        if r["has"] != (len(ids) > 0):
            return "step %d (%s): hasSubscriptions() = %s with %d subscribed" % (i, name, r["has"], len(ids))
    if crash is not None:
        return "sanitizer / signal during a valid history: " + " ".join(crash.get("stderr", "").split())[:300]
    if fin is not None:
        if sorted(fin["destroyed"]) != list(range(1, fin["subscribed"] + 1)):
            return "after destroying the Subject: observers destroyed %s of %d subscribed (each must be destroyed exactly once)" % (sorted(fin["destroyed"]), fin["subscribed"])
        if fin.get("lsan_leak"):
            return "LeakSanitizer: memory leaked"
    elif len(obs) < len(path):
        return "history stopped after %d of %d steps" % (len(obs), len(path))
    return None


# ------------------------------------------------------------------------------------------
def y_scripts(seed, count, reentrant):
    rnd = random.Random("subj-%s-%s" % (seed, reentrant))
    lines, cfgs = [], {}
    hs = ["h1", "h2", "h3", "h4"]
    for n in range(count):
        # C10 is about re-entrancy, not argument passing or foreign handles (C05): keep those out of its histories
        sig = rnd.choice(["none", "int"] if reentrant else SIGS)
        xid = "y%s%d" % ("r" if reentrant else "p", n)
        steps = []
        nsub = 0    # subscribes issued so far (an upper bound of the ids handed out by the test itself)
        if n % 4 == 3:
            # a crowd: 15-40 observers subscribed at the same time (their handles are given up: a default handle is moved over each),
            # delivered to in subscription order, each exactly once -- whatever a notify keeps per observer has to scale
            for _ in range(rnd.choice([15, 16, 17, 18, 20, 33, 40])):
                steps.append(("Subscribe", "h1", "", 0, []))
                steps.append(("Drop", "h1", "", 0, []))
                nsub += 1
            steps.append(("Notify", "", "", rnd.randrange(1, 4), []))
        if n % 4 == 2:
            # a long-lived Subject: dozens of subscriptions have come and gone (ids past 32 and 64) while one early observer stays
            steps.append(("Subscribe", "h4", "", 0, []))
            nsub += 1
            for _ in range(rnd.randrange(30, 75)):
                hb = rnd.choice(["h1", "h2", "h3"])
                steps.append(("Subscribe", hb, "", 0, []))
                nsub += 1
                if rnd.random() < 0.15:
                    steps.append(("Notify", "", "", rnd.randrange(1, 4), []))
                steps.append((rnd.choice(["UnsubH", "UnsubS"]), hb, "", 0, []))
            steps.append(("Notify", "", "", rnd.randrange(1, 4), []))
        for _ in range(rnd.randrange(20, 100)):
            r = rnd.random()
            h = rnd.choice(hs)
            if r < 0.25:
                sc = []
                if reentrant and rnd.random() < 0.6:
                    # targets: mostly the observers subscribed most recently (likely to be alive, called earlier in the same round or
                    # still pending) and itself; a third of the scripts are removal-heavy (several observers leave in ONE callback)
                    heavy = rnd.random() < 0.33
                    for _ in range(rnd.randrange(2, 4) if heavy else rnd.randrange(1, 3)):
                        k = rnd.choice(["unsub", "unsub", "inval"] if heavy else ["unsub", "mute", "unmute", "inval", "sub", "notify", "throw"])
                        near = rnd.choice([0] + list(range(max(1, nsub - 3), nsub + 3)))
                        sc.append({"k": k, "t": 0 if k in ("sub", "notify", "throw") else (near if rnd.random() < 0.7 else rnd.randrange(0, 12))})
                elif not reentrant and rnd.random() < 0.08:
                    sc.append({"k": "throw", "t": 0})     # an ordinary callback that fails: the round ends there, the next round is a normal one
                nsub += 1
                steps.append(("Subscribe" if reentrant or rnd.random() < 0.8 else "SubscribeMuted", h, "", 0, sc))
            elif r < 0.31 and not reentrant:
                steps.append(("UnsubF", h, "", 0, []))
            elif r < 0.33:
                steps.append(("UnsubH", h, "", 0, []))
            elif r < 0.43:
                steps.append(("UnsubS", rnd.choice(hs if reentrant else hs + ["hf"]), "", 0, []))
            elif r < 0.52:
                steps.append(("Mute", h, "", 0, []))
            elif r < 0.60:
                steps.append(("Unmute", h, "", 0, []))
            elif r < 0.67:
                steps.append(("Invalidate", h, "", 0, []))
            elif r < 0.75:
                steps.append(("Swap", h, rnd.choice(hs), 0, []))
            else:
                steps.append(("Notify", "", "", rnd.randrange(1, 4), []))
        usub = 1 if (not reentrant and n % 4 == 1) else 0   # every fourth plain history: handles are USubscriptions
        lines.append("X %s sig=%s maxsubs=120 filter=1 usub=%d" % (xid, sig, usub))
        for op, h, h2, a, sc in steps:
            if op in ("Subscribe", "SubscribeMuted"):
                lines.append("S op=%s h=%s sc=%s" % (op, h, sc_str(sc)))
            elif op == "Swap":
                lines.append("S op=Swap h=%s h2=%s" % (h, h2))
            elif op == "Notify":
                lines.append("S op=Notify a=%d" % a)
            else:
                lines.append("S op=%s h=%s" % (op, h))
        lines.append("E")
        cfgs[xid] = {"sig": sig, "steps": steps}
    return "\n".join(lines) + "\n", cfgs


def y_events(recs, c):
    evs = []
    inv = {v: k for k, v in ((a, EXPECT[c["sig"]](a)) for a in (1, 2, 3))}
    for r in recs:
        if r.get("e") != "Obs":
            continue
        op, h, h2, a, sc = c["steps"][r["i"]]
        valid = {k: bool(r["valid"].get(k)) for k in ("h1", "h2", "h3", "h4")}
        muted = {k: bool(r["muted"].get(k)) for k in ("h1", "h2", "h3", "h4")}
        # observed values are mapped back to the model's argument numbers (0 if the value is not one that was sent)
        lg = [[e[0], (inv.get(e[1], 0) if c["sig"] != "none" else a), e[2]] for e in r["log"]]
        evs.append({"op": op, "h": h or "h1", "h2": h2 or "h1", "a": a, "sc": [{"k": o["k"], "t": o["t"]} for o in sc], "res": r["res"],
                    "log": lg, "valid": valid, "muted": muted, "destroyed": sorted(r["destroyed"])})
    return evs


def check(pid, tier, seed):
    t0 = time.time()
    verdict = common.Verdict(pid)
    exe = harness()
    if pid == "C05":
        plan = [("c05", ["istr", "none"] if tier == "quick" else SIGS)]
    else:
        plan = [("c10", ["int"])] if tier == "quick" else [("c10", ["int", "str"]), ("c10d", ["int"])]
    mcs, dumps, samples = [], [], []
    tot_states = tot_edges = tot_cov = nexec = 0
    seen_logs = set()
    for cfg, sigs in plan:
        mcs.append(common.model_check(SPEC, "MC_Subject.tla", "MC_Subject_%s.cfg" % cfg, "SubjectP " + cfg, heap="8g"))
        g, meta, script, dst, ncov = x_scripts(cfg, sigs)
        dumps.append(dst)
        tot_states += len(g.states)
        tot_edges += len(g.edges)
        tot_cov += ncov
        res = common.run_harness(exe, script)
        for xid, (path, sig) in meta.items():
            recs = res.get(xid, [])
            nexec += 1
            for r in recs:
                if r.get("e") == "Obs" and r["log"]:
                    seen_logs.add((sig, json.dumps(r["log"])))
            prob = compare(g, path, sig, recs)
            if prob:
                ops = [step_line(g, ei)[2:] for ei in path]
                k = int(prob.split()[1]) if prob.startswith("step ") and prob.split()[1].isdigit() else sum(1 for r in recs if r.get("e") == "Obs")
                what = prob.split(":")[1].strip().split()[0:4] if ":" in prob else []
                verdict.violation("subject[%s,%s] %s %s" % (cfg, sig, ops[min(k, len(ops) - 1)].split()[0], " ".join(what)), prob,
                                  {"component": "subject", "xid": xid, "sig": sig, "history": ops[:k + 1]})
            if len(samples) < 2 and len(path) > 3:
                samples.append({"source": "tlc-path " + cfg, "sig": sig, "history": [step_line(g, ei)[2:] for ei in path][:20]})
        log("[%s] graph %s: %d states / %d edges, %d executions" % (pid, cfg, len(g.states), len(g.edges), len(meta)))
    ycount = {"quick": 300, "thorough": 20000}[tier]   # on each of the two builds
    # in chunks: a thorough run's recorded histories do not fit into memory all at once
    CH = 4000
    tsts, first_hist = [], None
    nrej = nhist = 0
    for c0 in range(0, ycount, CH):
        n = min(CH, ycount - c0)
        ys, ycfg = y_scripts("%s%s" % (seed, "" if c0 == 0 else "-%d" % c0), n, reentrant=(pid == "C10"))
        yres = common.run_harness(exe, ys)
        # the same kind of histories on a build WITHOUT AddressSanitizer: its quarantine never hands a freed block out again, but the
        # ordinary allocator gives a new observer the address of the one that was just removed (an address is not an identity)
        ys2, ycfg2 = y_scripts("%s-plain%s" % (seed, "" if c0 == 0 else "-%d" % c0), n, reentrant=(pid == "C10"))
        ys2 = "\n".join(l.replace("X y", "X z", 1) if l.startswith("X y") else l for l in ys2.split("\n"))
        yres.update(common.run_harness(plain_harness(), ys2))
        ycfg.update({"z" + x[1:]: c for x, c in ycfg2.items()})
        execs = {}
        for x, c in ycfg.items():
            recs = yres.get(x, [])
            evs = y_events(recs, c)
            if evs:
                execs[x] = evs
            crash = next((r for r in recs if r.get("e") == "Crash"), None)
            fin = next((r for r in recs if r.get("e") == "Final"), None)
            prob = None
            if crash is not None:
                prob = "sanitizer / signal during a valid history: " + " ".join(crash.get("stderr", "").split())[:300]
            elif fin is not None and sorted(fin["destroyed"]) != list(range(1, fin["subscribed"] + 1)):
                prob = "after destroying the Subject: observers destroyed %s of %d subscribed" % (sorted(fin["destroyed"]), fin["subscribed"])
            if prob and throws(c):
                verdict.note("subject[random,%s, a callback throws] %s" % (c["sig"], " ".join(prob.split()[:6])), prob)
            elif prob:
                nobs = sum(1 for r in recs if r.get("e") in ("Obs", "Skip"))
                verdict.violation("subject[random,%s] %s" % (c["sig"], " ".join(prob.split()[:6])), prob,
                                  {"component": "subject", "xid": x, "sig": c["sig"], "history": [list(s[:4]) + [sc_str(s[4])] for s in c["steps"][:nobs + 1]]})
        del yres
        acc, rej, tst = tracecheck.validate(SPEC, "SubjectTraceMC.tla", "SubjectTrace.cfg", execs)
        tsts.append(tst)
        nhist += len(execs)
        nrej += len(rej)
        for x, info in rej.items():
            nx = info["next"] or {}
            if throws(ycfg[x]):
                # callbacks that throw are outside the quantifier of C05 / C10 (the statement itself cannot hold in the round that is
                # aborted): the model says how the pinned code behaves there, a deviation is reported and not judged
                verdict.note("subject[random,%s, a callback throws] history rejected at %s" % (ycfg[x]["sig"], nx.get("op")), {"matched": info["matched"]})
                continue
            verdict.violation("subject[random,%s] history rejected at %s" % (ycfg[x]["sig"], nx.get("op")), {"matched": info["matched"], "next": nx},
                              {"component": "subject", "xid": x, "sig": ycfg[x]["sig"], "events": info["events"][:info["matched"] + 1]})
        nexec += len(ycfg)
        if first_hist is None:
            k0 = list(ycfg)[0]
            first_hist = {"source": "random", "sig": ycfg[k0]["sig"], "history": [list(s[:4]) + [sc_str(s[4])] for s in ycfg[k0]["steps"][:15]]}
        del execs, ycfg, acc, rej
    tst = dict(tsts[0], executions=sum(t["executions"] for t in tsts), distinct_traces=sum(t["distinct_traces"] for t in tsts),
               tlc_wall_s=round(sum(t["tlc_wall_s"] for t in tsts), 2), tlc_states_generated=sum(t.get("tlc_states_generated", 0) for t in tsts))
    log("[%s] trace validation: %d histories, %d rejected, TLC %.1fs" % (pid, nhist, nrej, tst["tlc_wall_s"]))
    samples.append(first_hist)
    cov = {"states": tot_states, "transitions": tot_edges, "traces_validated_against_impl": nexec, "samples": samples,
           "exhaustive": bool(tot_cov == tot_edges), "evaluations": nexec, "distinct_nontrivial": len(seen_logs),
           "rule": "X: path cover of every edge of TLC's graph(s) of SubjectP executed per argument signature; Y: random histories of 20-100 operations "
                   "(4 handles, scripts of <= 2 steps for C10); distinct_nontrivial = distinct non-empty delivery logs observed on the real Subject",
           "edge_cover": {"edges": tot_edges, "edges_replayed": tot_cov}, "model_checks": mcs, "graph_dumps": dumps, "trace_validation": [tst]}
    rc = verdict.finish()
    common.write_evidence(pid, tier, seed, "model_checking", cov, ASSUMPTIONS, time.time() - t0, len(verdict.violations))
    return rc


def all_harnesses():
    exe, pl = harness(), plain_harness()
    return {exe.name: exe, pl.name: pl}


def replay(pid, path):
    import sys
    return common.replay(pid, path, sys.modules[__name__])
