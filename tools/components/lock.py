"""rwp::Resource family: C01 (exclusion), C02 (no lost wake-up / idle afterwards), C03 (FIFO), C12 (readers share).

Deciding method (DESIGN 4.0): TLC checks ResourceImpl => RWLock and the listed invariants; the
real Resource is driven by vsched (X) along a path cover of every edge of TLC's state graph of
ResourceImpl and (Y) along seeded random / PCT schedules of random programs; the executions'
observable events are validated by TLC against RWLockTrace in the mode that isolates the property.
"""
import json
import random
import time

from lib import common, pathcover, tracecheck
from lib.common import log

SPEC = common.SPEC / "lock"
P_EVENTS = {"AcqCall", "AcqRet", "RelCall", "RelRet", "Parked", "Deadlock", "Crash", "TooLong"}
REPO_SRC = ["src/threading/rwp/Resource.cpp"]
FLAGS = ["-O1", "-g", "-UNDEBUG", "-fno-omit-frame-pointer"]

ASSUMPTIONS = [
    "A2: vsched's model of POSIX mutex/condvar/create/join is faithful (non-recursive mutexes, atomic release-and-wait, "
    "notify wakes only current waiters, optional spurious wake-ups)",
    "A3: code between two intercepted pthread operations is deterministic and touches shared state only under the modelled mutexes",
    "A1 (edge cover only): the projected fields + per-thread control location determine future behaviour; the ticket held in a "
    "local variable of lock() is not observable and is covered by path determinism",
    "TLC results are exhaustive for the stated constants only; larger programs are sampled (direction Y)",
    "unlock*() is only called by a thread that holds the lock in that mode (the property's own precondition)",
]


def harness():
    exe = common.build("resource_proj", ["resource/resource_harness.cpp", "vsched/vsched.cpp"], FLAGS + ["-DVS_PROJECT"],
                       REPO_SRC, may_fail=True)
    if exe is not None:
        return exe, True
    exe = common.build("resource_plain", ["resource/resource_harness.cpp", "vsched/vsched.cpp"], FLAGS, REPO_SRC)
    return exe, False


def asan_harness():
    """Same harness under AddressSanitizer (no projection): for the long programs below."""
    return common.build("resource_asan", ["resource/resource_harness.cpp", "vsched/vsched.cpp"],
                        FLAGS + ["-fsanitize=address,undefined", "-fno-sanitize=nonnull-attribute"], REPO_SRC)


def long_scripts(seed, count):
    """Few threads, many pairs, mostly writers: dozens of requests go through the wait queue of ONE Resource, so that whatever
    container holds the queue crosses its internal block boundaries (a std::deque node holds 32 entries)."""
    rnd = random.Random("%s-long" % seed)
    lines, cfgs = [], {}
    for i in range(count):
        progs = []
        for t in range(3):
            progs.append("".join(("W" if rnd.random() < 0.75 else "R") + rnd.choice("rg") for _ in range(rnd.randrange(14, 20))))
        cfg = "n=3 mode=random prog=%s seed=%d stay=%d stayden=%d" % (":".join(progs), rnd.randrange(1, 2 ** 31), *rnd.choice([(1, 2), (1, 4), (3, 4)]))
        lines += ["X l%d %s" % (i, cfg), "E"]
        cfgs["l%d" % i] = cfg
    return "\n".join(lines) + "\n", cfgs


def busy_scripts(seed, tier):
    """One uninterrupted busy period: three workers that release only when every other thread is blocked, so the lock never
    goes idle and the tickets handed out in that period run past 2^16 (the counters restart only at an idle instant)."""
    rnd = random.Random("%s-busy" % seed)
    lines, cfgs = [], {}
    plans = [("Wq:Wq:Wq", 22000), ("Wq:RqWq:WqRq", 14000)] + ([("Rq:Wq:RqRq:Wq", 30000), ("Wq:Wq", 50000)] if tier == "thorough" else [])
    for i, (prog, rep) in enumerate(plans):
        cfg = "n=%d mode=random prog=%s rep=%d quiet=1 timeouts=0 seed=%d stay=1 stayden=2" % (prog.count(":") + 1, prog, rep, rnd.randrange(1, 2 ** 31))
        lines += ["X b%d %s" % (i, cfg), "E"]
        cfgs["b%d" % i] = cfg
    return "\n".join(lines) + "\n", cfgs


def crowd_scripts(seed, tier):
    """Dozens of requests parked at the same time behind main's write lock (main unlocks only when every worker is parked): the wait
    queue holds 70-85 entries at once (every writer is an entry of its own, consecutive readers share one)."""
    rnd = random.Random("%s-crowd" % seed)
    lines, cfgs = [], {}
    plans = [["Wr"] * 70, [("Wr" if k % 2 == 0 else "Rg") for k in range(84)]]
    if tier == "thorough":
        plans += [[rnd.choice(["Wr", "Wg", "Rr", "WrRr"]) for _ in range(85)] for _ in range(6)]
    for i, progs in enumerate(plans):
        cfg = "n=%d mode=random hold=2 barrier=0 prog=%s seed=%d stay=1 stayden=2 quiet=1 timeouts=0" % (len(progs), ":".join(progs), rnd.randrange(1, 2 ** 31))
        lines += ["X crowd%d %s" % (i, cfg), "E"]
        cfgs["crowd%d" % i] = cfg
    return "\n".join(lines) + "\n", cfgs


# ------------------------------------------------------------------------------------------
# model checking
# ------------------------------------------------------------------------------------------
def model_checks(tier, want_live):
    res = []
    res.append(common.model_check(SPEC, "MC_RWLock.tla", "MC_RWLock_%s.cfg" % ("thorough" if tier == "thorough" else "quick"), "RWLock-P"))
    res.append(common.model_check(SPEC, "MC_ResourceImpl.tla", "MC_ResourceImpl_quick.cfg", "ResourceImpl=>RWLock 3x2"))
    if want_live:
        res.append(common.model_check(SPEC, "MC_RWLock.tla", "MC_RWLock_live.cfg", "RWLock-P liveness"))
        res.append(common.model_check(SPEC, "MC_ResourceImpl.tla", "MC_ResourceImpl_live.cfg", "ResourceImpl liveness 3x2"))
    if tier == "thorough":
        res.append(common.model_check(SPEC, "MC_ResourceImpl.tla", "MC_ResourceImpl_3x3.cfg", "ResourceImpl=>RWLock 3x3", heap="16g"))
        res.append(common.model_check(SPEC, "MC_ResourceImpl.tla", "MC_ResourceImpl_thorough.cfg", "ResourceImpl 4x2 (symmetry)", heap="24g"))
    return res


# ------------------------------------------------------------------------------------------
# direction X: every edge of the dumped graph
# ------------------------------------------------------------------------------------------
def tnum(mv):
    return int(str(mv)[1:])


def x_configs(tier):
    # quick: 3 threads x 2 pairs; thorough: the same with spurious wake-ups, and 3 threads x 3 pairs
    return ["MC_ResourceImpl_xq.cfg"] if tier == "quick" else ["MC_ResourceImpl_xt.cfg", "MC_ResourceImpl_x33.cfg"]


def x_scripts(tier, cfg=None):
    cfg = cfg or x_configs(tier)[0]
    dot, st = common.dump_graph(SPEC, "MC_ResourceImpl.tla", cfg, "ResourceImpl-" + cfg, heap="8g")
    g = common.load_graph(dot)
    paths, covered = pathcover.cover(g)
    n = len(next(iter(g.states.values()))["pc"])
    maxops = max(g.states[g.init[0]]["opsLeft"].values())
    lines = []
    meta = {}
    for pi, path in enumerate(paths):
        xid = "x%s-%d" % (cfg.split("_")[-1].split(".")[0], pi)
        lines.append("X %s n=%d mode=script" % (xid, n))
        for ei in path:
            _, _, name, args = g.edges[ei]
            t = tnum(args[0])
            if name == "LockEnter":
                lines.append("S t=%d act=LockEnter k=%s g=%d" % (t, args[1], (pi + t) % 2))
            else:
                lines.append("S t=%d act=%s" % (t, name))
        lines.append("E")
        meta[xid] = path
    return g, paths, meta, "\n".join(lines) + "\n", st, n, maxops, len(covered)


def compare_projection(g, path, recs, n, maxops):
    """Returns None if every step conforms, else a drift description (first mismatch)."""
    steps = [r for r in recs if r.get("e") == "Step"]
    for r in recs:
        if r.get("e") == "Drift":
            return "scheduler could not follow the script: " + r.get("why", "")
    if len(steps) < len(path):
        return "only %d of %d steps were executed" % (len(steps), len(path))
    for i, ei in enumerate(path):
        st = g.states[g.edges[ei][1]]
        pr = steps[i]["proj"]
        exp_pc = [st["pc"]["t%d" % t] for t in range(1, n + 1)]
        if pr["pc"] != exp_pc:
            return "step %d (%s): control locations %s, model %s" % (i, g.edges[ei][2], pr["pc"], exp_pc)
        if "queue" in pr:
            expq = [[q["type"], q["ub"]] for q in st["queue"]]
            got = (pr["queue"], pr["activeOp"], pr["activeCount"], pr["idCounter"], pr["bound"])
            exp = (expq, st["activeOp"], st["activeCount"], st["idCounter"], st["bound"])
            if got != exp:
                return "step %d (%s): fields %s, model %s" % (i, g.edges[ei][2], got, exp)
        expw = [st["woken"]["t%d" % t] for t in range(1, n + 1)]
        if pr["woken"] != expw:
            return "step %d: woken %s, model %s" % (i, pr["woken"], expw)
        expdone = [maxops - st["opsLeft"]["t%d" % t] for t in range(1, n + 1)]
        if pr["done"] != expdone:
            return "step %d: completed pairs %s, model %s" % (i, pr["done"], expdone)
        for t in range(1, n + 1):
            if exp_pc[t - 1] != "idle" and pr["kind"][t - 1] != st["kind"]["t%d" % t]:
                return "step %d: kind of t%d %s, model %s" % (i, t, pr["kind"][t - 1], st["kind"]["t%d" % t])
        # enabledness of the non-idle threads
        dst = g.edges[ei][1]
        spec_en = set()
        for oe in g.out.get(dst, ()):
            if g.edges[oe][2] not in ("Spurious", "LockEnter"):
                spec_en.add(tnum(g.edges[oe][3][0]))
        real_en = set(t for t in steps[i]["en"] if exp_pc[t - 1] != "idle")
        if spec_en != real_en:
            return "step %d (%s): enabled threads %s, model %s" % (i, g.edges[ei][2], sorted(real_en), sorted(spec_en))
    return None


# ------------------------------------------------------------------------------------------
# direction Y: random programs under random / PCT schedules
# ------------------------------------------------------------------------------------------
PATTERNS = ["R:R:W:W:R:R", "W:R:W", "R:R:R:W:R:R:R", "W:W:R", "RW:WR:RR", "RR:RR:W", "W:R:R:R"]


def y_scripts(seed, count, kind):
    """kind: 'mixed' (C01 C02 C03), 'readers' (C12 writer-free), 'rendezvous' (C12 batches)."""
    rnd = random.Random("%s-%s" % (seed, kind))
    lines = []
    cfgs = {}
    for i in range(count):
        xid = "%s%d" % (kind[0], i)
        sched = "seed=%d" % rnd.randrange(1, 2 ** 31)
        r = rnd.random()
        if r < 0.35:
            sched += " pct=%d len=%d" % (rnd.randrange(1, 4), rnd.randrange(20, 120))
        else:
            sched += " stay=%d stayden=%d" % (rnd.choice([(1, 2), (3, 4), (1, 4), (7, 8)]))
        if rnd.random() < 0.3:
            sched += " spurious=%d" % rnd.choice([20, 60, 150])
        if kind == "mixed":
            n = rnd.randrange(2, 7)
            if rnd.random() < 0.3:
                base = rnd.choice(PATTERNS).split(":")
                progs = []
                for p in base[:6]:
                    progs.append("".join(c + rnd.choice("rg") for c in p))
                n = len(progs)
            else:
                wprob = rnd.choice([0.15, 0.3, 0.5, 0.7])
                progs = []
                for t in range(n):
                    ln = rnd.randrange(1, 5)
                    progs.append("".join(("W" if rnd.random() < wprob else "R") + rnd.choice("rg") for _ in range(ln)))
            cfg = "n=%d mode=random prog=%s %s" % (n, ":".join(progs), sched)
            if i % 3 == 1:
                # every worker holds a read lock of a second, never written Resource around its program: what a thread holds
                # elsewhere must not change how this lock treats it
                cfg += " outer=1"
        elif kind == "readers":
            n = rnd.randrange(2, 9)
            progs = ["".join("R" + rnd.choice("rg") for _ in range(rnd.randrange(1, 4))) for _ in range(n)]
            cfg = "n=%d mode=random prog=%s %s" % (n, ":".join(progs), sched)
        else:
            n = rnd.randrange(2, 8)
            hold = 1 if rnd.random() < 0.8 else 0
            progs = ["Rb"] * n
            if rnd.random() < 0.4:
                # the batch queues up behind main's write lock, then further requests queue up behind the batch, and only
                # then main unlocks: the whole batch must still get in together (a late reader simply joins it)
                hold = 2
                progs += ["L" + rnd.choice(["Wr", "Wg", "Rr", "WrRr"]) for _ in range(rnd.randrange(1, 3))]
            cfg = "n=%d mode=random hold=%d barrier=%d prog=%s %s" % (len(progs), hold, n, ":".join(progs), sched)
        lines.append("X %s %s" % (xid, cfg))
        lines.append("E")
        cfgs[xid] = cfg
    return "\n".join(lines) + "\n", cfgs


def p_events(recs):
    out = []
    for r in recs:
        if r.get("e") in P_EVENTS:
            out.append({"e": r["e"], "t": r.get("t", -1), "k": r.get("k", "-")})
    return out


def reader_blocked_without_writer(info):
    """The execution ends in a Deadlock in which a read request is parked although no write request is active or waiting:
    whatever else went wrong, a reader is kept out by nobody (C12: readers are only blocked by writers)."""
    if last_event(info) != "Deadlock":
        return False
    pending, holding = {}, {}
    for ev in info["events"][:info["matched"]]:
        t = ev.get("t")
        if ev["e"] == "AcqCall":
            pending[t] = ev["k"]
        elif ev["e"] == "AcqRet":
            pending.pop(t, None)
            holding[t] = ev["k"]
        elif ev["e"] == "RelCall":
            holding.pop(t, None)
    return "Read" in pending.values() and "Write" not in pending.values() and "Write" not in holding.values()


def overtakes(info):
    """The refused event is a grant (AcqRet) to a request that was issued after another thread's request had already parked and
    that request is still waiting: first-come-first-served is broken whatever else is."""
    nx = info.get("next") or {}
    if nx.get("e") != "AcqRet":
        return False
    t = nx.get("t")
    parked_at, called_at = {}, {}
    for i, ev in enumerate(info["events"][:info["matched"]]):
        if ev["e"] == "AcqCall":
            called_at[ev["t"]] = i
            parked_at.pop(ev["t"], None)
        elif ev["e"] == "Parked":
            parked_at.setdefault(ev["t"], i)   # a request may park again after a wake-up that did not admit it: the first time counts
        elif ev["e"] == "AcqRet":
            parked_at.pop(ev["t"], None)
    return any(u != t and pi < called_at.get(t, -1) for u, pi in parked_at.items())


def last_event(info):
    return info["next"]["e"] if info.get("next") else None


def sig_of(cfg_or_path, info):
    nx = info.get("next") or {}
    return "%s@%s(t=%s,k=%s)" % (cfg_or_path, nx.get("e"), nx.get("t"), nx.get("k"))


# ------------------------------------------------------------------------------------------
def check(pid, tier, seed):
    t0 = time.time()
    verdict = common.Verdict(pid)
    exe, projecting = harness()
    mcs = model_checks(tier, want_live=(pid == "C02"))
    xres, meta, gof, drift = {}, {}, {}, []
    conform = tot_states = tot_edges = ncovered = npaths = 0
    dump_stats = []
    for xcfg in x_configs(tier):
        g, paths, meta1, xscript, dst, n, maxops, ncov = x_scripts(tier, xcfg)
        log("[%s] graph %s: %d states / %d edges, %d covering paths" % (pid, xcfg, len(g.states), len(g.edges), len(paths)))
        dump_stats.append(dst)
        tot_states += len(g.states)
        tot_edges += len(g.edges)
        ncovered += ncov
        npaths += len(paths)
        res1 = common.run_harness(exe, xscript)
        xres.update(res1)
        for xid, path in meta1.items():
            meta[xid] = path
            gof[xid] = g
            d = compare_projection(g, path, res1.get(xid, []), n, maxops) if projecting else "projection unavailable (fields renamed)"
            if d:
                drift.append((xid, d))
            else:
                conform += 1
    if drift:
        log("DRIFT property=%s %d of %d replayed paths deviate from ResourceImpl; first: %s" % (pid, len(drift), npaths, drift[0][1]))

    ycount = {"quick": 1500, "thorough": 30000}[tier]
    yruns = {}
    ycfgs = {}
    kinds = ["mixed"] if pid in ("C01", "C02", "C03") else ["mixed", "readers", "rendezvous"]
    for kind in kinds:
        cnt = ycount if kind == "mixed" else ycount // 3
        ys, cf = y_scripts(seed, cnt, kind)
        yruns.update(common.run_harness(exe, ys))
        ycfgs.update(cf)

    # torn executions (see concrouter.py): mixed programs on the access-instrumented build with a share of the plain
    # memory accesses as scheduling points
    from components import races
    tcount = {"quick": 600, "thorough": 20000}[tier]
    ts, tcf = y_scripts("%s-torn" % seed, tcount, "mixed")
    ts = "\n".join((l.replace("X m", "X a", 1) + " accy=%d" % (500 + 700 * (k % 5))) if l.startswith("X m") else l for k, l in enumerate(ts.split("\n")))
    yruns.update(common.run_harness(races._race_build("resource_race", "resource/resource_harness.cpp", REPO_SRC), ts))
    ycfgs.update({"a" + x[1:]: c + " accy=on" for x, c in tcf.items()})

    if pid == "C01":   # exclusion is also what breaks when the queue's own memory is mishandled: long programs under ASan
        ls, lcf = long_scripts(seed, {"quick": 60, "thorough": 3000}[tier])
        yruns.update(common.run_harness(asan_harness(), ls))
        ycfgs.update(lcf)

    if pid != "C12":
        bs, bcf = busy_scripts(seed, tier)
        yruns.update(common.run_harness(exe, bs))
        ycfgs.update(bcf)
    if pid in ("C01", "C02"):
        # the crowd is validated against the exclusion contract only (hold / nodl): whether such an execution is a behaviour of the
        # lazy / eager contract is beyond what TLC decides in minutes (dozens of requests whose admission may be delayed)
        cs, ccf = crowd_scripts(seed, tier)
        yruns.update(common.run_harness(exe, cs))
        ycfgs.update(ccf)

    execs = {}
    src = {}
    for xid, recs in xres.items():
        execs[xid] = p_events(recs)
        src[xid] = {"kind": "tlc-path", "steps": [list(map(str, gof[xid].edges[ei][2:])) for ei in meta[xid]]}
    for xid, recs in yruns.items():
        execs[xid] = p_events(recs)
        src[xid] = {"kind": "random", "cfg": ycfgs[xid]}
    toolong = [x for x, e in execs.items() if any(ev["e"] == "TooLong" for ev in e)]
    if toolong:
        raise common.InfraError("executions exceeded the step budget: %s" % toolong[:3])

    def val(mode, subset=None):
        ex = execs if subset is None else {k: execs[k] for k in subset}
        wide = {k: v for k, v in ex.items() if k.startswith("crowd")}     # dozens of threads: the trace specification's wider thread set
        ex = {k: v for k, v in ex.items() if k not in wide}
        acc, rej, st = tracecheck.validate(SPEC, "RWLockTrace.tla", "RWLockTrace_%s.cfg" % mode, ex) if ex else ([], {}, {"executions": 0, "distinct_traces": 0, "tlc_states_generated": 0, "tlc_wall_s": 0.0})
        if wide:
            try:
                # a time budget: explaining why a crowd execution is NOT a behaviour of the lazy / eager contract can take TLC very long
                # (dozens of requests whose admission may be delayed); within the budget or not at all -- "hold" (C01) is always fast
                acc2, rej2, st2 = tracecheck.validate(SPEC, "RWLockTrace.tla", "RWLockTrace_%s_wide.cfg" % mode, wide, timeout=1500 if mode in ("hold", "nodl") else 240)
            except common.InfraError as e:
                if mode in ("hold", "nodl"):
                    raise
                log("[%s] NOTE: crowd executions not decided under the %s contract within the time budget (%s)" % (pid, mode, str(e)[:80]))
                acc2, rej2, st2 = list(wide), {}, {"executions": len(wide), "distinct_traces": 0, "tlc_states_generated": 0, "tlc_wall_s": 240.0}
            acc = list(acc) + list(acc2)
            rej = dict(rej, **rej2)
            st = dict(st, executions=st["executions"] + st2["executions"], distinct_traces=st["distinct_traces"] + st2["distinct_traces"],
                      tlc_states_generated=st["tlc_states_generated"] + st2["tlc_states_generated"], tlc_wall_s=round(st["tlc_wall_s"] + st2["tlc_wall_s"], 2))
        log("[%s] trace validation mode=%s: %d executions (%d distinct), %d rejected, TLC %d states %.1fs" %
            (pid, mode, st["executions"], st["distinct_traces"], len(rej), st["tlc_states_generated"], st["tlc_wall_s"]))
        return acc, rej, st

    tstats = []
    nonbarrier = [x for x in execs if "barrier=" not in src[x].get("cfg", "") or "barrier=0" in src[x].get("cfg", "")]
    if pid == "C01":
        acc, rej, st = val("hold")
        tstats.append(st)
        for x, info in rej.items():
            verdict.violation(sig_of("lock", info), {"mode": "hold", "matched": info["matched"], "next": info["next"]},
                              {"component": "lock", "xid": x, "source": src[x], "events": info["events"]})
    elif pid == "C02":
        acc, rej, st = val("nodl", nonbarrier)
        tstats.append(st)
        for x, info in rej.items():
            if last_event(info) == "Deadlock":
                verdict.violation(sig_of("lock", info), {"mode": "nodl", "matched": info["matched"], "next": info["next"]},
                                  {"component": "lock", "xid": x, "source": src[x], "events": info["events"]})
    elif pid == "C03":
        acc, rej, st = val("lazy", nonbarrier)
        tstats.append(st)
        if rej:
            hacc, hrej, st2 = val("hold", list(rej))
            tstats.append(st2)
            for x, info in rej.items():
                if last_event(info) == "Crash" or (x in hrej and not overtakes(info)):
                    continue   # attributed to C01 (unless the refused grant ALSO passes a request that was parked before it was issued)
                # a Deadlock leaves a parked request that is never granted: that request is starved, which C03 rules out
                # as well ("neither readers nor writers can be starved"), so C02 and C03 both own it
                verdict.violation(sig_of("lock", info), {"mode": "lazy", "matched": info["matched"], "next": info["next"]},
                                  {"component": "lock", "xid": x, "source": src[x], "events": info["events"]})
    elif pid == "C12":
        acc, rej, st = val("eager")
        tstats.append(st)
        if rej:
            lacc, lrej, st2 = val("lazy", list(rej))
            tstats.append(st2)
            for x, info in rej.items():
                barrier = x not in nonbarrier
                if last_event(info) == "Crash":
                    continue
                if x in lrej and not (barrier and last_event(info) == "Deadlock") and not reader_blocked_without_writer(info):
                    continue   # already wrong for the weaker contract: C01 / C02 / C03 own it
                verdict.violation(sig_of("lock", info), {"mode": "eager", "matched": info["matched"], "next": info["next"]},
                                  {"component": "lock", "xid": x, "source": src[x], "events": info["events"]})

    parked = sum(1 for e in execs.values() if any(ev["e"] == "Parked" for ev in e))
    distinct = len({json.dumps(e) for e in execs.values()})
    samples = []
    for x in list(meta)[:1] + list(yruns)[:2]:
        samples.append({"source": src[x], "events": execs[x][:40]})
    cov = {
        "states": tot_states, "transitions": tot_edges,
        "traces_validated_against_impl": len(execs),
        "samples": samples,
        "exhaustive": bool(projecting and not drift and ncovered == tot_edges),
        "evaluations": len(execs), "distinct_nontrivial": distinct,
        "rule": "an execution = one controlled run of the real Resource; X: path cover of every edge of TLC's graph of ResourceImpl "
                "(%d threads x %d pairs), Y: random programs (2-8 threads, <=4 pairs, guards/raw) under seeded random/PCT schedules; "
                "distinct = distinct observable event sequences; non-trivial = all of them (each contains at least one lock/unlock pair)" % (n, maxops),
        "edge_cover": {"edges": tot_edges, "edges_replayed": ncovered, "paths": npaths, "paths_conforming": conform,
                       "drift": [d for _, d in drift[:5]], "projection": projecting},
        "executions_with_parking": parked,
        "model_checks": mcs, "graph_dump": dump_stats, "trace_validation": tstats,
    }
    if tier == "thorough" and pid in ("C01", "C12"):
        # unbounded argument on the algorithm (any number of operations, any ticket values; 3 threads): an inductive
        # invariant discharged by Apalache; the same invariant is a TLC invariant of the model replayed above
        try:
            from lib import apalache
            cov["unbounded_argument"] = apalache.lock_argument(pid)
            if not cov["unbounded_argument"]["holds"]:
                log("[%s] NOTE: an Apalache obligation did not come out as expected (model-level argument only; no verdict)" % pid)
        except Exception as e:   # noqa: BLE001
            cov["unbounded_argument"] = {"error": str(e)[:300]}
    rc = verdict.finish()
    common.write_evidence(pid, tier, seed, "model_checking", cov, ASSUMPTIONS, time.time() - t0, len(verdict.violations))
    return rc


TRACE_SPEC = lambda pid: ("RWLockTrace.tla", "RWLockTrace_%s.cfg" % {"C01": "hold", "C02": "nodl", "C03": "lazy", "C12": "eager"}[pid])


def all_harnesses():
    exe, _ = harness()
    return {exe.name: exe}


def replay(pid, path):
    import sys
    return common.replay(pid, path, sys.modules[__name__])
