"""tulz::LocaleInfo::get (C19): total, memory-safe, consistent with its tables.

LocaleParseP.tla classifies inputs (sequences of table-classified tokens and the delimiters "_" ".") and
assigns each the verdict of the property statement; TLC enumerates all inputs up to the bound together with
their verdicts. The harness concretises every class with table entries and boundary strings, calls the real
function under ASan with a poisoned stack, and reports the returned Info without dereferencing pointers that
are not table entries. Exploration level: the spec contributes the case analysis and the oracle.
"""
import itertools
import random
import time

from lib import common
from lib.common import log

SPEC = common.SPEC / "fs"
FLAGS = ["-O1", "-g", "-UNDEBUG", "-fsanitize=address,undefined", "-fno-omit-frame-pointer", "-pthread"]
ASSUMPTIONS = [
    "inputs are NUL-terminated strings; bytes 1..255 are used",
    "table names that contain a delimiter themselves (e.g. 'Virgin Islands, U.S.') are not in the 'known name' class: the stated grammar cannot express them",
    "out-of-bounds accesses are observed by AddressSanitizer, uninitialised result fields by a poisoned stack; neither is proved absent for untested inputs",
    "TLC enumerates piece sequences up to length 4 over all 9 token classes and up to length 5 over 4 classes; longer random inputs are judged by their first four pieces, which is all the grammar looks at",
]
PRE_MAIN = ["hu_HU.UTF-8", "Hungarian_Hungary", "en_GB", "xx_GB", "English_United States.UTF-8", "nb_NO", ""]
FALLBACK = {"code": "en", "names": ["English"], "country": "United Kingdom", "ccode": "GB"}


def nonfb_guess(inputs):
    return max(1, sum(1 for t in inputs if t[1] is not None and len(t[0]) < 60))


def harness():
    return common.build("locale_h", ["fs/locale_harness.cpp"], FLAGS, ["src/LocaleInfo.cpp"])


def hx(s):
    return s.encode("latin-1").hex() if isinstance(s, str) else s.hex()


def load_cases():
    cases = {}
    stats = []
    for cfg in ("mid", "long"):
        mc = common.model_check(SPEC, "MC_Locale.tla", "MC_Locale_%s.cfg" % cfg, "LocaleParseP " + cfg)
        dot, st = common.dump_graph(SPEC, "MC_Locale.tla", "MC_Locale_%s.cfg" % cfg, "LocaleParseP-" + cfg)
        g = common.load_graph(dot)
        for s in g.states.values():
            cases[tuple(s["input"])] = s
        stats.append(mc)
    return cases, stats


def check(pid, tier, seed):
    t0 = time.time()
    verdict = common.Verdict(pid)
    exe = harness()
    cases, mcs = load_cases()
    res = common.run_harness(exe, "X tables dump=1\nE\n", shards=1)
    tab = next(r for r in res["tables"] if r.get("e") == "Tables")
    langs, countries = tab["langs"], tab["countries"]      # [name, code]
    names_of = {}
    for n, c in langs:
        names_of.setdefault(c, []).append(n)
    lang_code_of_name = {n: c for n, c in langs}
    country_by_code = {c: n for n, c in countries}
    country_by_name = {n: c for n, c in countries}
    clean = lambda s: "_" not in s and "." not in s
    lang_names = [n for n, _ in langs if clean(n)]
    country_names = [n for n, _ in countries if clean(n)]
    rnd = random.Random("loc-%s" % seed)
    multi = [c for c, ns in names_of.items() if len(ns) > 1]
    pick = {
        "LangCode": ["en", multi[0], sorted(names_of)[-1]],
        "LangName": ["English", names_of[multi[0]][-1], next(n for n in lang_names if " " in n)],
        "CountryCode": ["GB", countries[0][1], countries[-1][1]],
        "CountryName": ["United Kingdom", next(n for n in country_names if " " in n), country_names[-1]],
        "Unknown": ["xx", "Qq", "e"], "Empty": [""], "Long63": ["a" * 63], "Long64": ["b" * 64], "Long1000": ["c" * 1000],
    }

    def expected(pieces_concrete, st):
        if st["verdict"] != "found":
            return None
        l = pieces_concrete[st["langAt"] - 1]
        c = pieces_concrete[st["countryAt"] - 1]
        cc = c if c in country_by_code else country_by_name[c]
        # a name that the table lists under several codes (e.g. "Norwegian": nb, no) may resolve to any of them
        codes = [l] if l in names_of else sorted(k for k, ns in names_of.items() if l in ns)
        return [{"code": code, "names": sorted(names_of[code]), "country": country_by_code[cc], "ccode": cc} for code in codes]

    inputs = []   # (string, expected or None(fallback), description)
    nvar = 2 if tier == "quick" else 3
    skipped = 0
    for pieces, st in cases.items():
        ok = True
        for i, p in enumerate(pieces):
            if p == "Empty" and ((i > 0 and pieces[i - 1] not in ("_", ".")) or (i + 1 < len(pieces) and pieces[i + 1] not in ("_", "."))):
                ok = False
        if not ok:
            skipped += 1
            continue
        for v in range(nvar):
            conc = [p if p in ("_", ".") else pick[p][(v + i) % len(pick[p])] for i, p in enumerate(pieces)]
            # adjacent tokens concatenate: the model treats that segment as one unknown token; make sure it is
            segs, cur = [], ""
            adjacent = False
            for i, p in enumerate(pieces):
                if p in ("_", "."):
                    segs.append(cur)
                    cur = ""
                else:
                    if cur != "" or (i > 0 and pieces[i - 1] not in ("_", ".")):
                        adjacent = adjacent or (i > 0 and pieces[i - 1] not in ("_", "."))
                    cur += conc[i]
            segs.append(cur)
            if adjacent and any(s in names_of or s in lang_code_of_name or s in country_by_code or s in country_by_name for s in segs):
                continue
            inputs.append(("".join(conc), expected(conc, st), "class " + " ".join(pieces)))
    # the found shapes with every table entry
    sample_c = ["GB", "United States", countries[len(countries) // 2][1]]
    sample_l = ["en", names_of[multi[0]][0], "hu"]
    for suffix in ("", ".UTF-8"):
        for l in list(names_of) + lang_names:
            for c in (sample_c if tier == "quick" else sample_c + ["Viet Nam", "ZW"]):
                if not clean(c):
                    continue
                st = cases[("LangCode" if l in names_of else "LangName", "_", "CountryCode" if c in country_by_code else "CountryName") + ((".",) if suffix else ())]
                inputs.append((l + "_" + c + suffix, expected([l, "_", c, ".", "UTF-8"], st), "table language x sample country"))
        for c in list(country_by_code) + country_names:
            for l in sample_l:
                st = cases[("LangCode" if l in names_of else "LangName", "_", "CountryCode" if c in country_by_code else "CountryName") + ((".",) if suffix else ())]
                inputs.append((l + "_" + c + suffix, expected([l, "_", c, ".", "UTF-8"], st), "sample language x table country"))
    # state that survives from one call to the next (a cache, a static buffer): a hit, then a miss, then the same miss with another country
    for k, kc in (("en", "GB"), ("hu", "HU"), (names_of[multi[0]][0], "US")):
        for u in ("xx", "Klingon", "e", "EN"):
            for c1, c2 in (("GB", "US"), ("United States", "GB"), ("US", "US")):
                st_hit = cases[("LangCode" if k in names_of else "LangName", "_", "CountryCode" if kc in country_by_code else "CountryName")]
                inputs.append((k + "_" + kc, expected([k, "_", kc], st_hit), "stateful: hit"))
                for c in (c1, c2):
                    st_miss = cases[("Unknown", "_", "CountryCode" if c in country_by_code else "CountryName")]
                    inputs.append((u + "_" + c, expected([u, "_", c], st_miss), "stateful: miss after hit"))
    # conversion specifications must never be interpreted (the fallback path prints the string)
    for s0 in ("%s%s%s%s%s%s%s%s", "xx_%n", "%n%n%n%n_GB", "%5d_GB", "%99999999d_GB.%s", "en_%s%n", "%p%p%p%p%p%p%p%p%n"):
        pieces0 = []
        cur0 = ""
        for ch in s0:
            if ch in "_.":
                pieces0 += [cur0, ch]
                cur0 = ""
            else:
                cur0 += ch
        pieces0.append(cur0)
        inputs.append((s0, expected(pieces0, {"verdict": "fallback", "langAt": 1, "countryAt": 3}), "format string"))
    # every two-byte language part over an alphabet that surrounds a-z and A-Z (a lookup that indexes by character arithmetic
    # must not let a byte outside the range carry into a neighbouring slot); thorough: all 255 x 255
    edge = [chr(c) for c in list(range(ord("a"), ord("z") + 1)) + list(range(ord("A"), ord("Z") + 1))] + list("@[\\]^`{|}~0159 -/:") + ["\x01", "\x7f", "\x80", "\xe9", "\xff"]
    two = [a + b for a in edge for b in edge] if tier == "quick" else [chr(a) + chr(b) for a in range(1, 256) for b in range(1, 256)]
    for tb in two:
        if "_" in tb or "." in tb:
            continue
        st2 = cases[("LangCode" if tb in names_of else "Unknown", "_", "CountryCode")]
        inputs.append((tb + "_GB", expected([tb, "_", "GB"], st2), "two-byte language part"))
    # random strings: classified by their first four pieces
    nrand = {"quick": 1500, "thorough": 300000}[tier]
    alphabet = ["_", ".", "en", "GB", "ca", "English", "United Kingdom", "x", "Z", " ", "\xe9", "\x01", "\xff", "a" * 40, "UTF-8"]
    for _ in range(nrand):
        s = "".join(rnd.choice(alphabet) for _ in range(rnd.randrange(0, 9)))
        if rnd.random() < 0.2:
            s = "".join(chr(rnd.randrange(1, 256)) for _ in range(rnd.randrange(0, 200)))
        pieces, cur = [], ""
        for ch in s:
            if ch in "_.":
                pieces.append(cur)
                pieces.append(ch)
                cur = ""
            else:
                cur += ch
        pieces.append(cur)

        def cls(seg, pos):
            if seg == "":
                return "Empty"
            if pos == 0 and seg in names_of:
                return "LangCode"
            if pos == 0 and seg in lang_code_of_name and clean(seg):
                return "LangName"
            if pos == 2 and seg in country_by_code:
                return "CountryCode"
            if pos == 2 and seg in country_by_name and clean(seg):
                return "CountryName"
            return "Unknown"
        # drop Empty segments only where the model has no piece for them: leading/trailing empties are real pieces in the model
        # too (an empty language / country part), so keep them
        ap = [p if p in ("_", ".") else cls(p, i) for i, p in enumerate(pieces)]
        ap = [p for p in ap] if ap != ["Empty"] else []
        key = tuple(ap[:4]) if len(ap) > 4 else tuple(ap)
        key = tuple("Unknown" if p in ("Long63", "Long64", "Long1000") else p for p in key)
        st = cases.get(key)
        if st is None:
            # Empty pieces adjacent to delimiters only; sequences over classes outside the long table: judge memory safety + fallback/found shape
            st = {"verdict": "found" if (len(key) >= 3 and key[0] in ("LangCode", "LangName") and key[1] == "_" and key[2] in ("CountryCode", "CountryName")
                                       and (len(key) == 3 or key[3] == ".")) else "fallback", "langAt": 1, "countryAt": 3}
        inputs.append((s, expected(pieces, st), "random"))

    # run: many strings per execution, but each crash ends its execution, so keep them small
    lines = []
    per = 40
    groups = []
    for i in range(0, len(inputs), per):
        grp = inputs[i:i + per]
        groups.append(grp)
        lines.append("X g%d" % (i // per))
        lines += ["S s=%s" % hx(s) for s, _, _ in grp]
        lines.append("E")
    # the answers the harness obtained BEFORE main() (a constructor with the highest initialisation priority; same list there)
    pre_grp = []
    for s0 in PRE_MAIN:
        pieces0, cur0 = [], ""
        for ch in s0:
            if ch in "_.":
                pieces0 += [cur0, ch]
                cur0 = ""
            else:
                cur0 += ch
        pieces0.append(cur0)
        ab = tuple(p if p in ("_", ".") else ("Empty" if p == "" else "LangCode" if (k == 0 and p in names_of) else "LangName" if (k == 0 and p in lang_code_of_name) else
                   "CountryCode" if (k == 2 and p in country_by_code) else "CountryName" if (k == 2 and p in country_by_name) else "Unknown") for k, p in enumerate(pieces0))
        ab = ab if ab != ("Empty",) else ()
        pre_grp.append((s0, expected(pieces0, cases[ab[:4]]), "called during static initialisation"))
    groups.append(pre_grp)
    pre_gi = len(groups) - 1
    pre_lines = ["X g%d pre=1" % pre_gi] + ["S s=%s" % hx(s) for s, _, _ in pre_grp] + ["E"]
    inputs = inputs + pre_grp
    # the same function from four threads at once: a sample of well-formed and fallback inputs, first judged serially like all
    # the others, then asked again concurrently by the harness (event Conc)
    conc_grp = [t for k, t in enumerate(inputs) if t[1] is not None and len(t[0]) < 60][:: max(1, nonfb_guess(inputs) // 25)][:25]
    conc_grp += [t for t in inputs if t[1] is None and 0 < len(t[0]) < 40][::997][:15]
    groups.append(conc_grp)
    conc_gi = len(groups) - 1
    lines.append("X g%d conc=1" % conc_gi)
    lines += ["S s=%s" % hx(s) for s, _, _ in conc_grp]
    lines.append("E")
    inputs = inputs + conc_grp
    res = common.run_harness(exe, "\n".join(lines) + "\n")
    # the pre-main answers come from a run of their own (LOCALE_PREMAIN makes the harness ask before main()): if the function
    # crashes there, that run dies before it can report anything
    try:
        res.update(common.run_harness(exe, "\n".join(pre_lines) + "\n", shards=1, env={"LOCALE_PREMAIN": "1"}))
    except common.InfraError as e:
        verdict.violation("locale[called during static initialisation] the process died before main()", str(e)[:400],
                          {"component": "locale", "class": "called during static initialisation", "inputs": PRE_MAIN})
    nonfb = 0
    distinct = set()
    cr = next((r for r in res.get("g%d" % conc_gi, []) if r.get("e") == "Conc"), None)
    if cr is not None and cr["mismatches"]:
        verdict.violation("locale[concurrent callers] answers differ", "%d of %d calls made from four threads at once returned something else than the same call made alone (first: %r)" %
                          (cr["mismatches"], cr["calls"], cr["first"]), {"component": "locale", "class": "concurrent callers", "inputs": [s for s, _, _ in conc_grp]})
    for gi, grp in enumerate(groups):
        recs = res.get("g%d" % gi, [])
        byi = {r["i"]: r for r in recs if r.get("e") == "Res"}
        crash = next((r for r in recs if r.get("e") == "Crash"), None)
        for i, (s, exp, desc) in enumerate(grp):
            r = byi.get(i)
            prob = None
            if r is None:
                if crash is not None and i == len(byi):
                    prob = "sanitizer / signal: " + " ".join(crash.get("stderr", "").split())[:260]
                else:
                    continue   # after a crash the rest of the group was not run; it is re-run below
            else:
                fields = [r["code"], r["country"], r["ccode"]] + r["names"]
                if any(f["k"] in ("wild", "null") for f in fields):
                    prob = "a returned pointer does not refer to a table entry: code=%s country=%s ccode=%s names=%s" % (r["code"], r["country"], r["ccode"], r["names"])
                else:
                    got = {"code": r["code"]["s"], "names": sorted(f["s"] for f in r["names"]), "country": r["country"]["s"], "ccode": r["ccode"]["s"]}
                    want = exp if exp is not None else [FALLBACK]
                    if got not in want:
                        prob = "returned %s, expected %s" % (got, want[0] if len(want) == 1 else "one of %s" % want)
                    elif (exp is None) != bool(r["err"]):
                        prob = "error flag %s for a %s input" % (r["err"], "fallback" if exp is None else "well-formed")
                    if exp is not None:
                        nonfb += 1
                    distinct.add((desc if desc != "random" else "random", exp is None, s[:12]))
            if prob:
                short = s if len(s) <= 40 else s[:20] + "...(%d chars)" % len(s)
                klass = desc if desc != "random" else "random string"
                verdict.violation("locale[%s] %s" % (klass, prob.split(":")[0][:60]), {"input": short, "problem": prob},
                                  {"component": "locale", "input_hex": hx(s), "class": desc})
    # strings that were not run because an earlier member of their group crashed: run them alone
    pending = []
    for gi, grp in enumerate(groups):
        recs = res.get("g%d" % gi, [])
        done = sum(1 for r in recs if r.get("e") == "Res")
        if any(r.get("e") == "Crash" for r in recs):
            pending += grp[done + 1:]
    rerun_crashes = 0
    if pending:
        lines = []
        for i, (s, _, _) in enumerate(pending[:3000]):
            lines += ["X p%d" % i, "S s=%s" % hx(s), "E"]
        res2 = common.run_harness(exe, "\n".join(lines) + "\n")
        for i, (s, exp, desc) in enumerate(pending[:3000]):
            recs = res2.get("p%d" % i, [])
            crash = next((r for r in recs if r.get("e") == "Crash"), None)
            if crash is not None:
                rerun_crashes += 1
                short = s if len(s) <= 40 else s[:20] + "...(%d chars)" % len(s)
                verdict.violation("locale[%s] sanitizer / signal" % (desc if desc != "random" else "random string"),
                                  {"input": short, "problem": " ".join(crash.get("stderr", "").split())[:260]},
                                  {"component": "locale", "input_hex": hx(s), "class": desc})
    log("[%s] %d abstract cases from TLC (%d skipped as ambiguous), %d concrete inputs (%d well-formed), %d distinct classes" %
        (pid, len(cases), skipped, len(inputs), nonfb, len(distinct)))
    cov = {"evaluations": len(inputs), "distinct_nontrivial": len(distinct),
           "rule": "inputs = TLC-enumerated piece sequences (all 9 token classes up to 4 pieces, 4 classes up to 5 pieces) concretised with table entries and boundary "
                   "strings, every table language (by code and by name) x sample countries and sample languages x every table country (by code and name) with and "
                   "without a charset suffix, and seeded random strings; distinct_nontrivial = distinct (class, verdict, input prefix) triples that produced a result",
           "samples": [{"input": s[:60], "expected": e[0] if e else "fallback", "class": d} for s, e, d in inputs[:3] + inputs[len(inputs) // 2:len(inputs) // 2 + 2]],
           "states": sum(m["distinct_states"] for m in mcs), "model_checks": mcs, "abstract_cases": len(cases), "well_formed_inputs": nonfb}
    rc = verdict.finish()
    common.write_evidence(pid, tier, seed, "exploration", cov, ASSUMPTIONS, time.time() - t0, len(verdict.violations))
    return rc


def all_harnesses():
    exe = harness()
    return {exe.name: exe}


def replay(pid, path):
    import sys
    return common.replay(pid, path, sys.modules[__name__])
