"""Runs one specification module that is not tied to a listed property (tools/extras/<name>.py)."""
import json
import time

from . import common

NAMES = ["keys", "iters", "dynlib"]


def run_one(name, tier, seed):
    mod = __import__("extras." + name, fromlist=["x"])
    t0 = time.time()
    res = mod.run(tier, seed)
    res["wall_s"] = round(time.time() - t0, 2)
    res["tier"] = tier
    out = common.VERIF / "evidence-extras"
    out.mkdir(exist_ok=True)
    (out / (name + ".json")).write_text(json.dumps(res, indent=1, default=str) + "\n")
    for n in res["notes"][:10]:
        common.log("SPEC-NOTE extra=%s %s" % (name, n))
    common.log("[extra %s] %s: %d states / %d transitions, %d replayed in %d executions, %d note(s), %.1fs" % (
        name, res["title"], res.get("states", 0), res.get("transitions", 0), res.get("edges_replayed", 0), res.get("executions", 0),
        len(res["notes"]), res["wall_s"]))
    return res


def summary(name, tier, seed):
    """For the evidence of a property check that runs an extra alongside: never raises, never affects the verdict."""
    try:
        r = run_one(name, tier, seed)
        return {"extra": name, "spec": r.get("spec"), "states": r.get("states"), "transitions": r.get("transitions"),
                "edges_replayed": r.get("edges_replayed"), "executions": r.get("executions"), "notes": len(r["notes"])}
    except Exception as e:   # noqa: BLE001
        common.log("[extra %s] not run: %s" % (name, str(e)[:200]))
        return {"extra": name, "error": str(e)[:200]}
