"""TLA+ value parser and TLC dot-dump loader.

Values are mapped to Python: integers -> int, strings -> str, TRUE/FALSE -> bool,
<<..>> -> tuple, {..} -> frozenset, [a |-> v, ..] -> dict, (k :> v @@ ..) -> dict,
model values (identifiers) -> ModelValue(str).
"""
import re


class ModelValue(str):
    def __repr__(self):
        return "MV(%s)" % str.__repr__(self)


_tok = re.compile(r'\s*(<<|>>|\|->|:>|@@|[\[\]{}(),]|"(?:[^"\\]|\\.)*"|-?\d+|[A-Za-z_][A-Za-z0-9_!]*)')


def tokenize(s):
    pos = 0
    out = []
    n = len(s)
    while pos < n:
        m = _tok.match(s, pos)
        if not m:
            if s[pos:].strip() == "":
                break
            raise ValueError("cannot tokenize at %r" % s[pos:pos + 40])
        out.append(m.group(1))
        pos = m.end()
    return out


class _P:
    def __init__(self, toks):
        self.t = toks
        self.i = 0

    def peek(self):
        return self.t[self.i] if self.i < len(self.t) else None

    def next(self):
        v = self.t[self.i]
        self.i += 1
        return v

    def expect(self, x):
        v = self.next()
        if v != x:
            raise ValueError("expected %s got %s" % (x, v))

    def value(self):
        t = self.next()
        if t == "<<":
            items = []
            if self.peek() == ">>":
                self.next()
                return ()
            while True:
                items.append(self.value())
                if self.peek() == ",":
                    self.next()
                    continue
                self.expect(">>")
                return tuple(items)
        if t == "{":
            items = []
            if self.peek() == "}":
                self.next()
                return frozenset()
            while True:
                items.append(_freeze(self.value()))
                if self.peek() == ",":
                    self.next()
                    continue
                self.expect("}")
                return frozenset(items)
        if t == "[":
            d = {}
            while True:
                k = self.next()
                self.expect("|->")
                d[k] = self.value()
                if self.peek() == ",":
                    self.next()
                    continue
                self.expect("]")
                return d
        if t == "(":
            d = {}
            while True:
                k = self.value()
                self.expect(":>")
                d[_freeze(k)] = self.value()
                if self.peek() == "@@":
                    self.next()
                    continue
                self.expect(")")
                return d
        if t.startswith('"'):
            return bytes(t[1:-1], "utf-8").decode("unicode_escape")
        if re.fullmatch(r"-?\d+", t):
            return int(t)
        if t == "TRUE":
            return True
        if t == "FALSE":
            return False
        return ModelValue(t)


def _freeze(v):
    if isinstance(v, dict):
        return tuple(sorted((k, _freeze(x)) for k, x in v.items()))
    if isinstance(v, tuple):
        return tuple(_freeze(x) for x in v)
    return v


def parse_value(s):
    p = _P(tokenize(s))
    v = p.value()
    if p.peek() is not None:
        raise ValueError("trailing tokens in %r" % s)
    return v


def parse_state(label):
    """label: '/\\ a = 1\n/\\ b = <<>>' (already unescaped) -> dict"""
    st = {}
    for part in re.split(r"(?:^|\n)/\\ ", label):
        part = part.strip()
        if not part:
            continue
        name, _, val = part.partition(" = ")
        st[name.strip()] = parse_value(val)
    return st


def parse_action(label):
    """'LockEnter(t1,"Read")' -> ('LockEnter', [ModelValue('t1'), 'Read'])"""
    m = re.match(r"([A-Za-z_][A-Za-z0-9_]*)(?:\((.*)\))?$", label.strip(), re.S)
    if not m:
        return label, []
    name, args = m.group(1), m.group(2)
    if args is None or args.strip() == "":
        return name, []
    v = parse_value("<<" + args + ">>")
    return name, list(v)


_node = re.compile(r'^(-?\d+) \[label="((?:[^"\\]|\\.)*)"(.*)$')
_edge = re.compile(r'^(-?\d+) -> (-?\d+) \[label="((?:[^"\\]|\\.)*)"')


def _unesc(s):
    return s.replace("\\n", "\n").replace('\\"', '"').replace("\\\\", "\\")


class Graph:
    def __init__(self):
        self.states = {}    # id -> dict
        self.init = []      # ids
        self.edges = []     # (src, dst, name, args)
        self.out = {}       # src -> [edge index]


def load_dot(path, parse_states=True):
    g = Graph()
    seen_edges = set()
    with open(path) as f:
        for line in f:
            m = _edge.match(line)
            if m:
                key = (m.group(1), m.group(2), m.group(3))
                if key in seen_edges:
                    continue
                seen_edges.add(key)
                name, args = parse_action(_unesc(m.group(3)))
                src, dst = int(m.group(1)), int(m.group(2))
                g.out.setdefault(src, []).append(len(g.edges))
                g.edges.append((src, dst, name, args))
                continue
            m = _node.match(line)
            if m:
                nid = int(m.group(1))
                if nid not in g.states:
                    g.states[nid] = parse_state(_unesc(m.group(2))) if parse_states else _unesc(m.group(2))
                if "style = filled" in m.group(3) and nid not in g.init:
                    g.init.append(nid)
    return g
