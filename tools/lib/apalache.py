"""Apalache runs for spec/lock/apalache/ResourceInd.tla: the inductive invariant of the Resource algorithm for an
unbounded number of operations and unbounded ticket values (fixed number of threads)."""
import json
import re
import subprocess
import time

from . import common

SPEC = common.SPEC / "lock" / "apalache"


def _run(cinit, init, inv, length, timeout):
    out_dir = common.scratch() / "apalache"
    out_dir.mkdir(parents=True, exist_ok=True)
    t0 = time.time()
    cmd = ["apalache-mc", "check", "--out-dir=%s" % out_dir, "--cinit=" + cinit, "--init=" + init, "--inv=" + inv, "--length=%d" % length, "ResourceInd.tla"]
    try:
        r = subprocess.run(cmd, cwd=str(SPEC), capture_output=True, text=True, timeout=timeout)
        out = r.stdout + r.stderr
        outcome = "NoError" if "The outcome is: NoError" in out else "Error" if "The outcome is: Error" in out else "failed"
    except subprocess.TimeoutExpired:
        outcome = "timeout"
    return {"cinit": cinit, "init": init, "inv": inv, "length": length, "outcome": outcome, "wall_s": round(time.time() - t0, 1)}


def lock_argument(which, threads4=False, timeout=1800):
    """which: 'C01' or 'C12'. Returns a dict for the evidence; 'holds' is True only if every obligation came out as expected
    (base case, inductive step, invariant => property: NoError; vacuity witnesses and the pre-fix algorithm: Error)."""
    init, inv, prop = ("IndInit", "IndInv", "C01") if which == "C01" else ("IndInit12", "IndInv12", "C12inv")
    cinit = "CInit4" if threads4 else "CInit"
    runs = [("base", _run(cinit, "Init", inv, 0, timeout), "NoError"),
            ("step", _run(cinit, init, inv, 1, timeout), "NoError"),
            ("implies", _run(cinit, init, prop, 0, timeout), "NoError"),
            ("witness-deep-queue", _run(cinit, init, "NoDeepQueue", 0, timeout), "Error"),
            ("witness-admitted-sleeper", _run(cinit, init, "NoAdmittedSleeper", 0, timeout), "Error"),
            ("pre-fix-algorithm-not-inductive", _run("CInitOld", "IndInit", "IndInv", 1, timeout), "Error")]
    res = {"module": "spec/lock/apalache/ResourceInd.tla", "invariant": inv, "property": prop, "threads": 4 if threads4 else 3,
           "obligations": [dict(r, name=n, expected=e, ok=(r["outcome"] == e)) for n, r, e in runs]}
    res["holds"] = all(o["ok"] for o in res["obligations"])
    for o in res["obligations"]:
        common.log("[apalache %s] %-34s %-8s (expected %s) %.0fs" % (which, o["name"], o["outcome"], o["expected"], o["wall_s"]))
    return res
