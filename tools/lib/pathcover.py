"""Cover every edge of a TLC state graph with paths from the initial state.

For every edge not yet covered (visited in BFS order of their source) emit
    tree-path(init -> src) + edge + greedy extension through further uncovered edges.
Each path is a list of edge indices. Deterministic for a given graph.
"""
from collections import deque


def bfs_tree(g, init):
    parent = {init: None}   # node -> edge index that discovered it
    order = [init]
    dq = deque([init])
    while dq:
        u = dq.popleft()
        for ei in g.out.get(u, ()):
            v = g.edges[ei][1]
            if v not in parent:
                parent[v] = ei
                order.append(v)
                dq.append(v)
    return parent, order


def tree_path(g, parent, node):
    path = []
    while parent[node] is not None:
        ei = parent[node]
        path.append(ei)
        node = g.edges[ei][0]
    path.reverse()
    return path


def _nearest_uncovered(g, start, covered, wantset, max_depth=8, max_nodes=3000):
    """Shortest edge path from `start` to a node that has an uncovered wanted out-edge (bounded BFS)."""
    seen = {start: None}
    dq = deque([(start, 0)])
    n = 0
    while dq:
        u, d = dq.popleft()
        n += 1
        if n > max_nodes:
            return None
        for ei in g.out.get(u, ()):
            v = g.edges[ei][1]
            if v in seen:
                continue
            seen[v] = ei
            if any(ne not in covered and ne in wantset for ne in g.out.get(v, ())):
                path = []
                cur = v
                while seen[cur] is not None:
                    path.append(seen[cur])
                    cur = g.edges[seen[cur]][0]
                path.reverse()
                return path
            if d + 1 < max_depth:
                dq.append((v, d + 1))
    return None


def cover(g, init=None, max_len=400, edge_filter=None, limit=None, covered=None, jump=True):
    if init is None:
        init = g.init[0]
    parent, order = bfs_tree(g, init)
    if covered is None:
        covered = set()
    paths = []
    # bounded jumps are what keeps the number of paths low, but a Python BFS per dead end is too slow on big graphs
    big = len(g.edges) > 100000
    jump_depth, jump_nodes = (4, 150) if big else (8, 3000)
    want = [ei for ei in range(len(g.edges)) if edge_filter is None or edge_filter(g.edges[ei])]
    wantset = set(want)
    for u in order:
        for ei in g.out.get(u, ()):
            if ei in covered or ei not in wantset:
                continue
            path = tree_path(g, parent, u)
            # edges of the tree prefix get covered as a side effect
            for pe in path:
                covered.add(pe)
            cur_e = ei
            while True:
                path.append(cur_e)
                covered.add(cur_e)
                if len(path) >= max_len:
                    break
                v = g.edges[cur_e][1]
                nxt = None
                for ne in g.out.get(v, ()):
                    if ne not in covered and ne in wantset:
                        nxt = ne
                        break
                if nxt is None and jump and len(path) + 9 < max_len:
                    hop = _nearest_uncovered(g, v, covered, wantset, jump_depth, jump_nodes)
                    if hop:
                        for he in hop:
                            path.append(he)
                            covered.add(he)
                        v = g.edges[hop[-1]][1]
                        for ne in g.out.get(v, ()):
                            if ne not in covered and ne in wantset:
                                nxt = ne
                                break
                if nxt is None:
                    break
                cur_e = nxt
            paths.append(path)
            if limit is not None and len(paths) >= limit:
                return paths, covered
    return paths, covered


def random_walks(g, rnd, count, lo, hi, drop=(), prefer=None):
    """Random walks through a dumped TLC graph, longer than any covering path: `count` lists of edge indices (with their
    initial state index) of lo..hi steps. `drop` names state variables that only bound TLC's exploration (a step counter):
    states that agree in everything else are identified, so a walk continues past the bound -- every step is still an edge
    of the graph, i.e. a step the specification allows, and what is compared after it is the edge's target state.
    `prefer(edge)`: edges to favour (a third of the choices)."""
    import json as _json

    def key(si):
        st = g.states[si]
        return _json.dumps({k: v for k, v in st.items() if k not in drop}, sort_keys=True, default=str) if drop else si
    out_by = {}
    for si, outs in g.out.items():
        if outs:
            out_by.setdefault(key(si), set()).update(outs)
    out_by = {k: sorted(v) for k, v in out_by.items()}
    walks = []
    for _ in range(count):
        init = rnd.choice(g.init)
        cur, path = key(init), []
        for _ in range(rnd.randrange(lo, hi + 1)):
            outs = out_by.get(cur)
            if not outs:
                break
            pref = [ei for ei in outs if prefer(g.edges[ei])] if prefer else []
            ei = rnd.choice(pref) if pref and rnd.random() < 0.33 else rnd.choice(outs)
            path.append(ei)
            cur = key(g.edges[ei][1])
        walks.append((init, path))
    return walks
