"""Batch trace validation with TLC.

A trace spec (see spec/lock/RWLockTrace.tla for the idiom) reads two ndjson files named by the
environment (IOEnv.TRACE_EVENTS, IOEnv.TRACE_INDEX), has one initial state per execution and
prints <<"ACCEPTED", x>> when execution x has been consumed completely. Everything not printed
is rejected; rejected executions are re-run with TRACE_DIAG=1 to find the longest matched prefix.
"""
import json
import re
import shutil
import tempfile
from pathlib import Path

from . import common


def _run(spec_dir, module, cfg, seqs, diag, workers, timeout, extra_env=None):
    d = Path(tempfile.mkdtemp(prefix="tv-", dir=str(common.scratch())))
    evp, ixp = d / "ev.ndjson", d / "ix.ndjson"
    pos = 1
    with open(evp, "w") as fe, open(ixp, "w") as fi:
        for i, evs in enumerate(seqs):
            for e in evs:
                fe.write(json.dumps(e) + "\n")
            fi.write(json.dumps({"s": pos, "e": pos + len(evs) - 1, "x": i + 1}) + "\n")
            pos += len(evs)
        if pos == 1:
            fe.write(json.dumps({"e": "-", "t": -1, "k": "-"}) + "\n")
    env = {"TRACE_EVENTS": str(evp), "TRACE_INDEX": str(ixp), "TRACE_DIAG": "1" if diag else "0"}
    if extra_env:
        env.update(extra_env)
    r = common.tlc(spec_dir, module, cfg, workers=workers, env=env, timeout=timeout, heap="8g")
    shutil.rmtree(d, ignore_errors=True)
    if r["rc"] != 0 or "No error has been found" not in r["out"]:
        tail = "\n".join(l for l in r["out"].splitlines() if "rror" in l or "xception" in l or "ttempt" in l)[:3000] + "\n" + "\n".join(r["out"].splitlines()[-25:])
        raise common.InfraError("trace validation run failed (%s %s) rc=%s:\n%s" % (module, cfg, r["rc"], tail))
    acc = set(int(m) for m in re.findall(r'<<"ACCEPTED", (\d+)>>', r["out"]))
    at = {}
    if diag:
        for x, l in re.findall(r'<<"AT", (\d+), (\d+)>>', r["out"]):
            x, l = int(x), int(l)
            if l > at.get(x, 0):
                at[x] = l
    return acc, at, r


def validate(spec_dir, module, cfg, executions, workers=None, timeout=1800, extra_env=None):
    """executions: {id: [event dict, ...]}.  Returns (accepted ids, rejected {id: info}, stats).
    info = {matched: n events consumed, next: first unmatched event or None, events: [...]}"""
    ids = list(executions)
    canon = {}
    order = []
    for i in ids:
        key = json.dumps(executions[i], sort_keys=True)
        if key not in canon:
            canon[key] = []
            order.append(key)
        canon[key].append(i)
    seqs = [json.loads(k) for k in order]
    nonempty = [(n, s) for n, s in enumerate(seqs) if s]
    accepted, rejected = set(), {}
    stats = {"executions": len(ids), "distinct_traces": len(seqs), "events": sum(len(s) for s in seqs),
             "tlc_states_generated": 0, "tlc_wall_s": 0.0}
    for n, s in enumerate(seqs):
        if not s:
            accepted.update(canon[order[n]])
    CHUNK = 20000   # executions per TLC run: the whole batch is deserialised into one TLC value
    for c0 in range(0, len(nonempty), CHUNK):
        chunk = nonempty[c0:c0 + CHUNK]
        acc, _, r = _run(spec_dir, module, cfg, [s for _, s in chunk], False, workers, timeout, extra_env)
        stats["tlc_states_generated"] += r["generated"]
        stats["tlc_wall_s"] += r["wall_s"]
        rej = []
        for j, (n, s) in enumerate(chunk):
            if (j + 1) in acc:
                accepted.update(canon[order[n]])
            else:
                rej.append((n, s))
        if rej:
            _, at, r2 = _run(spec_dir, module, cfg, [s for _, s in rej], True, 1, timeout, extra_env)
            stats["tlc_wall_s"] += r2["wall_s"]
            pos = 1
            for j, (n, s) in enumerate(rej):
                reached = at.get(j + 1, pos)
                matched = reached - pos
                info = {"matched": matched, "next": s[matched] if matched < len(s) else None, "events": s}
                for i in canon[order[n]]:
                    rejected[i] = info
                pos += len(s)
    return accepted, rejected, stats
