"""Shared orchestration helpers: paths, builds, TLC, harness runs, evidence, verdicts."""
import hashlib
import json
import os
import re
import shutil
import subprocess
import sys
import tempfile
import time
from concurrent.futures import ThreadPoolExecutor
from pathlib import Path

VERIF = Path(__file__).resolve().parents[2]
REPO = Path(os.environ.get("VERIF_REPO", "/repo"))
SPEC = VERIF / "spec"
HARNESS = VERIF / "harness"
GEN = VERIF / ".gen"
BUILD = VERIF / ".build"
SCRATCH_ROOT = Path(os.environ.get("VERIF_SCRATCH", str(VERIF / ".scratch")))
_alt = str(REPO) != "/repo"   # checks run against a scratch copy (self-test) must not touch the committed evidence
EVIDENCE = (SCRATCH_ROOT / "alt-evidence") if _alt else VERIF / "evidence"
REPLAYS = (SCRATCH_ROOT / "alt-replays") if _alt else VERIF / "replays"
NCPU = int(os.environ.get("VERIF_JOBS", os.cpu_count() or 4))
TLA_JAR = "/opt/veriftools/tla/tla2tools.jar:/opt/veriftools/tla/CommunityModules-deps.jar"


class InfraError(Exception):
    """Build failure, TLC crash, model-check failure: exit code 2, never a VIOLATION."""


def log(*a):
    print(*a, flush=True)


def sha(*parts):
    h = hashlib.sha256()
    for p in parts:
        if isinstance(p, Path):
            h.update(p.read_bytes())
        elif isinstance(p, bytes):
            h.update(p)
        else:
            h.update(str(p).encode())
        h.update(b"\0")
    return h.hexdigest()[:20]


_scratch = None


def scratch():
    global _scratch
    if _scratch is None:
        SCRATCH_ROOT.mkdir(parents=True, exist_ok=True)
        _scratch = Path(tempfile.mkdtemp(prefix="run-", dir=str(SCRATCH_ROOT)))
        import atexit
        atexit.register(lambda: shutil.rmtree(_scratch, ignore_errors=True))
    return _scratch


# ------------------------------------------------------------------------------------------
# builds
# ------------------------------------------------------------------------------------------
def build(name, sources, flags, repo_sources=(), compiler="g++", extra_dep=(), libs=("-lpthread", "-ldl"), may_fail=False,
          plain_sources=(), plain_flags=("-O1", "-g"), compile_only_flags=()):
    """Compile `sources` (harness files, absolute or relative to HARNESS) plus `repo_sources`
    (relative to REPO) into an executable cached under .build/<hash>/name. The hash covers every
    repository header and source (so any edit of the tree rebuilds) and every harness file."""
    srcs = [Path(s) if os.path.isabs(str(s)) else HARNESS / s for s in sources]
    rsrcs = [REPO / s for s in repo_sources]
    dep_files = sorted(list((REPO / "include").rglob("*.h")) + list((REPO / "src").rglob("*.cpp")))
    dep_files += sorted(HARNESS.rglob("*.h")) + sorted(HARNESS.rglob("*.cpp"))
    cver = subprocess.run([compiler, "--version"], capture_output=True, text=True).stdout.split("\n")[0]
    psrcs = [Path(s) if os.path.isabs(str(s)) else HARNESS / s for s in plain_sources]
    key = sha(name, " ".join(flags), " ".join(compile_only_flags), cver, *[str(s) for s in srcs + rsrcs + psrcs], *dep_files, *[Path(p) for p in extra_dep])
    outdir = BUILD / key
    exe = outdir / name
    if exe.exists():
        return exe
    outdir.mkdir(parents=True, exist_ok=True)
    cmd = [compiler, "-std=c++20"] + list(flags) + ["-I", str(REPO / "include"), "-I", str(HARNESS)]
    tmp_exe = "%s.%d.tmp" % (exe, os.getpid())
    pobjs = []
    for ps in psrcs:    # sources that must NOT get `flags` (e.g. the scheduler and the race detector are never instrumented)
        po = "%s.%d.%s.o" % (exe, os.getpid(), ps.stem)
        rr = subprocess.run([compiler, "-std=c++20"] + list(plain_flags) + ["-I", str(HARNESS), "-c", str(ps), "-o", po], capture_output=True, text=True)
        if rr.returncode != 0:
            raise InfraError("build of %s failed:\n%s" % (ps, rr.stderr[-3000:]))
        pobjs.append(po)
    t0 = time.time()
    if compile_only_flags:
        # flags that must not reach the link step (e.g. -fsanitize=thread: instrument, but do not link libtsan)
        objs = []
        for k, src in enumerate(srcs + rsrcs):
            o = "%s.%d.%d.o" % (exe, os.getpid(), k)
            rr = subprocess.run(cmd + list(compile_only_flags) + ["-c", str(src), "-o", o], capture_output=True, text=True)
            if rr.returncode != 0:
                if may_fail:
                    for f in objs + pobjs:
                        if os.path.exists(f):
                            os.remove(f)
                    return None
                raise InfraError("build of %s failed:\n%s" % (src, rr.stderr[-3000:]))
            objs.append(o)
        pobjs += objs
        cmd += pobjs + ["-o", tmp_exe] + list(libs)
    else:
        cmd += [str(s) for s in srcs + rsrcs] + pobjs + ["-o", tmp_exe] + list(libs)
    r = subprocess.run(cmd, capture_output=True, text=True)
    if r.returncode != 0:
        if os.path.exists(tmp_exe):
            os.remove(tmp_exe)
        if may_fail:
            return None
        raise InfraError("build of %s failed:\n%s\n%s" % (name, " ".join(cmd), r.stderr[-4000:]))
    os.replace(tmp_exe, exe)
    for po in pobjs:
        if os.path.exists(po):
            os.remove(po)
    log("[build] %s (%.1fs)" % (name, time.time() - t0))
    return exe


def build_many(jobs):
    """jobs: list of kwargs for build(); built in parallel; returns list of exes."""
    with ThreadPoolExecutor(max_workers=min(len(jobs), 8) or 1) as ex:
        futs = [ex.submit(build, **j) for j in jobs]
        return [f.result() for f in futs]


# ------------------------------------------------------------------------------------------
# TLC
# ------------------------------------------------------------------------------------------
def _spec_hash(spec_dir):
    files = sorted(p for p in Path(spec_dir).iterdir() if p.suffix in (".tla", ".cfg"))
    return sha(*files)


def tlc(spec_dir, module, cfg, workers=None, dump=None, simulate=None, depth=None, env=None, timeout=1800,
        heap=None, extra=(), check_deadlock=None, coverage=False):
    """Runs TLC; returns dict(rc, out, generated, distinct, depth, wall_s)."""
    spec_dir = Path(spec_dir)
    meta = Path(tempfile.mkdtemp(prefix="tlc-", dir=str(scratch())))
    java = ["java", "-XX:+UseParallelGC"]
    if heap:
        java.append("-Xmx" + heap)
    cmd = java + ["-cp", TLA_JAR, "tlc2.TLC", "-noGenerateSpecTE", "-metadir", str(meta),
                  "-workers", str(workers or min(NCPU, 8)), "-config", str(cfg)]
    if dump:
        cmd += ["-dump", "dot,actionlabels", str(dump)]
    if simulate:
        cmd += ["-simulate", simulate]
    if depth:
        cmd += ["-depth", str(depth)]
    if coverage:
        cmd += ["-coverage", "1"]
    cmd += list(extra) + [str(module)]
    e = dict(os.environ)
    if env:
        e.update(env)
    t0 = time.time()
    try:
        r = subprocess.run(cmd, cwd=str(spec_dir), capture_output=True, text=True, env=e, timeout=timeout)
        out, rc = r.stdout + r.stderr, r.returncode
    except subprocess.TimeoutExpired as ex:
        out = (ex.stdout or b"").decode(errors="replace") if isinstance(ex.stdout, bytes) else (ex.stdout or "")
        rc = 124
    shutil.rmtree(meta, ignore_errors=True)
    res = {"rc": rc, "out": out, "wall_s": round(time.time() - t0, 2), "generated": 0, "distinct": 0, "depth": 0}
    m = re.findall(r"(\d[\d,]*) states generated, (\d[\d,]*) distinct states found", out)
    if m:
        res["generated"] = int(m[-1][0].replace(",", ""))
        res["distinct"] = int(m[-1][1].replace(",", ""))
    m = re.search(r"depth of the complete state graph search is (\d+)", out)
    if m:
        res["depth"] = int(m.group(1))
    return res


def model_check(spec_dir, module, cfg, name, workers=None, heap=None, timeout=3600, use_cache=True):
    """Exhaustive TLC run that must find no error; cached by the hash of the spec directory.
    Returns stats dict. Raises InfraError when the model check fails (per DESIGN 1.3)."""
    spec_dir = Path(spec_dir)
    key = sha(name, module, cfg, _spec_hash(spec_dir))
    cache = GEN / "mc" / (key + ".json")
    if use_cache and cache.exists():
        st = json.loads(cache.read_text())
        st["cached"] = True
        return st
    r = tlc(spec_dir, module, cfg, workers=workers, heap=heap, timeout=timeout)
    ok = r["rc"] == 0 and "No error has been found" in r["out"]
    st = {"name": name, "module": module, "cfg": cfg, "ok": ok, "rc": r["rc"], "states_generated": r["generated"],
          "distinct_states": r["distinct"], "depth": r["depth"], "wall_s": r["wall_s"], "cached": False}
    if not ok:
        tail = "\n".join(r["out"].splitlines()[-60:])
        raise InfraError("model check %s (%s / %s) failed, rc=%s:\n%s" % (name, module, cfg, r["rc"], tail))
    cache.parent.mkdir(parents=True, exist_ok=True)
    ct = Path("%s.%d.tmp" % (cache, os.getpid()))
    ct.write_text(json.dumps(st))
    os.replace(ct, cache)
    return st


def dump_graph(spec_dir, module, cfg, name, workers=1, heap=None, timeout=3600):
    """TLC state graph as a dot file (cached by spec hash). Returns (path, stats)."""
    spec_dir = Path(spec_dir)
    key = sha("dump", name, module, cfg, _spec_hash(spec_dir))
    d = GEN / "dump"
    d.mkdir(parents=True, exist_ok=True)
    dot = d / (key + ".dot")
    meta = d / (key + ".json")
    if dot.exists() and meta.exists():
        st = json.loads(meta.read_text())
        st["cached"] = True
        return dot, st
    tmp = d / ("%s.%d.tmp" % (key, os.getpid()))     # several checks may run at once: never share a temp name
    r = tlc(spec_dir, module, cfg, workers=workers, dump=tmp, heap=heap, timeout=timeout)
    ok = r["rc"] == 0 and "No error has been found" in r["out"]
    if not ok:
        tail = "\n".join(r["out"].splitlines()[-60:])
        raise InfraError("graph dump %s failed rc=%s:\n%s" % (name, r["rc"], tail))
    produced = Path(str(tmp) + ".dot") if Path(str(tmp) + ".dot").exists() else tmp
    os.replace(produced, dot)
    st = {"name": name, "states_generated": r["generated"], "distinct_states": r["distinct"], "depth": r["depth"],
          "wall_s": r["wall_s"], "cached": False}
    mt = Path("%s.%d.tmp" % (meta, os.getpid()))
    mt.write_text(json.dumps(st))
    os.replace(mt, meta)
    return dot, st


def load_graph(dot):
    """Parsed graph, pickled next to the dot file."""
    import pickle
    from . import tlaval
    pk = Path(str(dot) + ".pickle")
    if pk.exists():
        try:
            with open(pk, "rb") as f:
                return pickle.load(f)
        except Exception:
            pass
    g = tlaval.load_dot(dot)
    tmp = Path("%s.%d.tmp" % (pk, os.getpid()))
    with open(tmp, "wb") as f:
        pickle.dump(g, f)
    os.replace(tmp, pk)
    return g


# ------------------------------------------------------------------------------------------
# harness runs
# ------------------------------------------------------------------------------------------
SCRIPTS = {}   # execution id -> (harness executable name, script block) of everything run by this process (for replay files)


def _remember(exe, script_text):
    name = Path(exe).name
    cur = None
    for line in script_text.split("\n"):
        if line.startswith("X "):
            cur = [line]
        elif cur is not None:
            cur.append(line)
            if line == "E":
                SCRIPTS[cur[0].split(" ")[1]] = (name, "\n".join(cur) + "\n")
                cur = None


def run_harness(exe, script_text, shards=None, timeout=None, env=None, nofork=False):
    """Writes the script, runs `exe` in `shards` parallel processes, returns the list of parsed
    ndjson records grouped per execution id: {id: [records...]} (order preserved per execution)."""
    if timeout is None:   # whole batch; the thorough tier replays far larger batches (and may share the machine)
        timeout = int(os.environ.get("VERIF_HARNESS_TIMEOUT", "7200" if os.environ.get("VERIF_TIER_ACTIVE") == "thorough" else "1800"))
    _remember(exe, script_text)
    d = Path(tempfile.mkdtemp(prefix="h-", dir=str(scratch())))
    script = d / "script.txt"
    script.write_text(script_text)
    shards = shards or NCPU
    nexec = script_text.count("\nE\n") + (1 if script_text.endswith("\nE") else 0)
    shards = max(1, min(shards, nexec))
    e = dict(os.environ)
    e.setdefault("ASAN_OPTIONS", "detect_leaks=1:abort_on_error=0:exitcode=23:allocator_may_return_null=1")
    e.setdefault("UBSAN_OPTIONS", "print_stacktrace=1:halt_on_error=1:exitcode=24")
    if env:
        e.update(env)
    procs = []
    for k in range(shards):
        outp = d / ("out%d.ndjson" % k)
        cmd = [str(exe), str(script), str(outp), "shard", str(k), str(shards)]
        if nofork:
            cmd.append("nofork")
        procs.append((subprocess.Popen(cmd, env=e, stdout=subprocess.DEVNULL, stderr=subprocess.PIPE), outp))
    by = {}
    t_end = time.time() + timeout
    for p, outp in procs:
        try:
            _, err = p.communicate(timeout=max(1, t_end - time.time()))
        except subprocess.TimeoutExpired:
            p.kill()
            raise InfraError("harness %s timed out" % exe)
        if p.returncode != 0:
            raise InfraError("harness %s failed rc=%s: %s" % (exe, p.returncode, err.decode(errors="replace")[-2000:]))
        if outp.exists():
            with open(outp) as f:
                for line in f:
                    try:
                        rec = json.loads(line)
                    except json.JSONDecodeError:
                        continue
                    by.setdefault(rec["x"], []).append(rec)
    shutil.rmtree(d, ignore_errors=True)
    return by


# ------------------------------------------------------------------------------------------
# verdicts, known findings, evidence
# ------------------------------------------------------------------------------------------
def known_findings():
    p = VERIF / "known_findings.json"
    if not p.exists():
        return []
    return json.loads(p.read_text()).get("findings", [])


class Verdict:
    def __init__(self, pid):
        self.pid = pid
        self.violations = []   # dict(signature, detail, replay)
        self.known_hits = {}
        self.notes = []

    def violation(self, signature, detail, replay_obj):
        """signature: short stable string identifying the failing input / call site / history."""
        for k in known_findings():
            if k.get("property") == self.pid and k.get("status") == "known" and re.search(k["signature_regex"], signature):
                self.known_hits.setdefault(k["id"], {"k": k, "n": 0})["n"] += 1
                return
        xid = replay_obj.get("xid") if isinstance(replay_obj, dict) else None
        if xid in SCRIPTS:
            replay_obj = dict(replay_obj, harness=SCRIPTS[xid][0], script=SCRIPTS[xid][1])
        REPLAYS.mkdir(parents=True, exist_ok=True)
        fn = REPLAYS / ("%s-%s.json" % (self.pid, sha(signature, json.dumps(replay_obj, sort_keys=True, default=str))[:10]))
        if len(self.violations) < 20:
            fn.write_text(json.dumps({"property": self.pid, "signature": signature, "detail": detail, "replay": replay_obj},
                                     indent=1, default=str))
        self.violations.append({"signature": signature, "detail": detail, "replay": str(fn)})

    def note(self, signature, detail):
        """An observation OUTSIDE the property's quantifier (a callback that throws, a thread that cannot be created, ...): the
        specification has grown to cover it, but a deviation there is not a violation of the listed property. Printed as
        SPEC-NOTE, never counted, never changes the exit code."""
        self.spec_notes = getattr(self, "spec_notes", {})
        self.spec_notes.setdefault(signature, str(detail)[:400])

    def finish(self):
        for sig, det in list(getattr(self, "spec_notes", {}).items())[:6]:
            log("SPEC-NOTE property=%s (outside the property's quantifier; no verdict) %s: %s" % (self.pid, sig, det))
        for kid, h in self.known_hits.items():
            log("KNOWN-FINDING: property=%s %s (%s; %d occurrence(s) this run)" % (self.pid, h["k"]["what"], kid, h["n"]))
        seen = set()
        for v in self.violations:
            if v["signature"] in seen:
                continue
            seen.add(v["signature"])
            if len(seen) > 10:
                break
            log("VIOLATION property=%s replay=%s" % (self.pid, v["replay"]))
            log("  signature: %s" % v["signature"])
            log("  detail: %s" % str(v["detail"])[:600])
        return 1 if self.violations else 0


NEGATIVES_FOR = {"C01": ["ResourceImpl_orig", "NEG_ResourceImpl_none"], "C02": ["NEG_ResourceImpl_notifyone"], "C03": ["NEG_ResourceImpl_barge"],
                 "C12": ["NEG_ResourceImpl_nomerge"], "C07": ["NEG_Pool_queuefirst", "NEG_Pool_none"], "C08": ["MC_Pool_orig.cfg", "NEG_Pool_noclear", "NEG_Pool_stopone"], "C09": ["physdestroy"], "C11": ["MC_ConcRouter_"],
                 "C15": ["origrace", "expiryrace", "oneshot_code_ListWriteExclusive"], "C20": ["ThreadStart_"]}


def write_evidence(pid, tier, seed, level, coverage, assumptions, wall_s, violations, extra=None):
    EVIDENCE.mkdir(parents=True, exist_ok=True)
    ev = {"property_id": pid, "tier": tier, "seed": int(seed), "level": level, "coverage": coverage,
          "assumptions": assumptions, "wall_s": round(wall_s, 2), "violations": int(violations)}
    if extra:
        ev.update(extra)
    if tier == "thorough" and pid in NEGATIVES_FOR:
        # non-vacuity at the model level: the named deviations this property was written against, re-run now
        from . import negatives
        ev["coverage"] = dict(ev["coverage"], model_negatives=negatives.summary(NEGATIVES_FOR[pid]))
    (EVIDENCE / (pid + ".json")).write_text(json.dumps(ev, indent=1, default=str) + "\n")
    return ev


def replay(pid, path, mod):
    """Re-executes the execution stored in a replay file on the current tree. Exit 1 if the violation repeats."""
    from . import tracecheck
    obj = json.loads(Path(path).read_text())
    rp = obj.get("replay", {})
    log("replaying %s (%s): %s" % (path, obj.get("property"), obj.get("signature")))
    if "script" not in rp:
        log("this replay file carries no executable script (history / input only):")
        log(json.dumps(rp, indent=1, default=str)[:3000])
        return 2
    exes = mod.all_harnesses()
    exe = exes.get(rp["harness"])
    if exe is None:
        raise InfraError("harness %s is not built by %s" % (rp["harness"], mod.__name__))
    res = run_harness(exe, rp["script"], shards=1)
    recs = next(iter(res.values()), [])
    for r in recs:
        if r.get("e") not in ("Step",):
            log("  " + json.dumps(r)[:400])
    bad = [r for r in recs if r.get("e") in ("Crash", "Race", "Deadlock")]
    spec = getattr(mod, "TRACE_SPEC", None)
    if spec and hasattr(mod, "p_events"):
        module, cfg = spec(pid) if callable(spec) else spec
        acc, rej, _ = tracecheck.validate(mod.SPEC, module, cfg, {"r": mod.p_events(recs)})
        if rej:
            info = rej["r"]
            log("REPRODUCED: the property layer rejects this execution again after %d events, at %s" % (info["matched"], info["next"]))
            log("VIOLATION property=%s replay=%s" % (pid, path))
            return 1
        log("not reproduced: the property layer accepts this execution on the current tree")
        return 0
    if bad:
        log("REPRODUCED: %s" % json.dumps(bad[0])[:300])
        log("VIOLATION property=%s replay=%s" % (pid, path))
        return 1
    log("executed without crash / race / deadlock; compare the observations above with the stored detail: %s" % str(obj.get("detail"))[:400])
    return 0
