"""Named deviations of the specifications and what TLC must say about them (see tools/vnegative)."""
import re
from concurrent.futures import ThreadPoolExecutor

from . import common

S = common.SPEC
# (directory, module, configuration, expectation, what the configuration stands for)
#   expectation: "ok" or the name of the invariant / property TLC has to report as violated
TABLE = [
    (S / "lock", "MC_ResourceImpl.tla", "MC_ResourceImpl_orig.cfg", "C01", "F1: Resource counted admitted waiters when they woke up (CountAtWake = TRUE)"),
    (S / "lock", "ResourceImplDev.tla", "NEG_ResourceImpl_none.cfg", "ok", "ResourceImplDev with Deviation = none is ResourceImpl (same 19 063 states, everything holds)"),
    (S / "lock", "ResourceImplDev.tla", "NEG_ResourceImpl_barge.cfg", "ActionProperty@RWLock",
     "C03: the reader fast path of lock() looks at m_activeOp only, not at the wait queue -- a reader overtakes a parked writer, ResourceImpl no longer refines RWLock (PNext)"),
    (S / "lock", "ResourceImplDev.tla", "NEG_ResourceImpl_nomerge.cfg", "C12P",
     "C12: enqueue() gives every reader a queue entry of its own -- consecutive parked readers are admitted one at a time"),
    (S / "lock", "ResourceImplDev.tla", "NEG_ResourceImpl_notifyone.cfg", "NoDeadlockD",
     "C02: unlock() wakes one waiter instead of all -- a member of an admitted read batch sleeps forever"),
    (S / "pool", "MC_Pool.tla", "MC_Pool_orig.cfg", "NoDeadlockB", "F2: stop() cleared the flag outside the queue mutex (FlagUnderMutex = FALSE): lost wake-up, stop() never returns"),
    (S / "pool", "MC_Pool.tla", "MC_Pool_origrace.cfg", "NoRace", "F2 as a data race on m_isRunning"),
    (S / "pool", "MC_Pool.tla", "MC_Pool_expiryrace.cfg", "NoRace", "F3: Thread::m_isFinished a plain bool (FinishedAtomic = FALSE)"),
    (S / "pool", "PoolImplDev.tla", "NEG_Pool_none.cfg", "ok", "PoolImplDev with Deviation = none is PoolImpl (MC_Pool_quick's bounds), plus the action property RunOnlyWhileRunning"),
    (S / "pool", "PoolImplDev.tla", "NEG_Pool_noclear.cfg", "C08Quiescent", "C08/C07: stop() no longer destroys the tasks that are still queued"),
    (S / "pool", "PoolImplDev.tla", "NEG_Pool_stopone.cfg", "NoDeadlockD", "C08: stop() wakes one idle worker (notify_one) instead of all: a second idle worker sleeps on and join() never returns"),
    (S / "pool", "PoolImplDev.tla", "NEG_Pool_queuefirst.cfg", "RunOnlyWhileRunning", "C07: the worker looks at the queue before the stop flag: a task starts running after stop() has cleared the flag"),
    (S / "pool", "ThreadStart.tla", "MC_ThreadStart_TRUE.cfg", "InvokedLive", "F4: Thread::start captured its callable by reference (ByRef = TRUE)"),
    (S / "pool", "ThreadStart.tla", "NEG_ThreadStart_noreset.cfg", "FinishedOnlyAfter", "F13: start() did not lower the finished flag of a Thread that is started again (ResetOnStart = FALSE)"),
    (S / "pool", "ThreadStart.tla", "MC_ThreadStart_restart.cfg", "ok", "two rounds on one Thread object with the flag lowered by start()"),
    (S / "containers", "MC_RingBuffer.tla", "NEG_RingBuffer_physdestroy.cfg", "VictimsAreElements", "F5: RingBuffer::resize destroyed physical slots instead of elements (PhysicalDestroy = TRUE)"),
    (S / "observer", "MC_ConcRouter.tla", "MC_ConcRouter_subscribe.cfg", "NoWriteDuringDelivery", "subscribe under a read lock (Weak = subscribe)"),
    (S / "observer", "MC_ConcRouter.tla", "MC_ConcRouter_unsubscribe.cfg", "NoWriteDuringDelivery", "unsubscribe under a read lock (Weak = unsubscribe)"),
    (S / "observer", "MC_ConcRouter.tla", "MC_ConcRouter_oneshot_code_ListWriteExclusive.cfg", "ListWriteExclusive",
     "F12 (known): lazy removal of a self-invalidated observer inside notify, under the READ lock -- two threads mutate one observer list"),
    (S / "observer", "MC_ConcRouter.tla", "MC_ConcRouter_oneshot_code_NoUseAfterFree.cfg", "NoUseAfterFree",
     "F12 (known): ... and one of them destroys the observer while the other is inside its callback"),
    (S / "observer", "MC_ConcRouter.tla", "MC_ConcRouter_oneshot_code_OneShotOnce.cfg", "OneShotOnce",
     "F12 (known): ... and the one-shot observer is delivered to twice"),
    (S / "observer", "MC_ConcRouter.tla", "MC_ConcRouter_oneshot_purge.cfg", "ok",
     "repair A of F12: deliver under the read lock, purge invalidated observers under the write lock afterwards -- memory safe"),
    (S / "observer", "MC_ConcRouter.tla", "MC_ConcRouter_oneshot_purge_OneShotOnce.cfg", "OneShotOnce",
     "repair A still lets two concurrent notifies both deliver to a one-shot observer (not linearizable)"),
    (S / "observer", "MC_ConcRouter.tla", "MC_ConcRouter_oneshot_write.cfg", "ok",
     "repair B of F12: notify takes the write lock -- everything holds, deliveries are serialised"),
]


def run(row):
    d, mod, cfg, exp, what = row
    r = common.tlc(d, mod, cfg, workers=4, heap="8g", timeout=3000)
    out = r["out"]
    if "No error has been found" in out and r["rc"] == 0:
        got = "ok"
    else:
        m = re.search(r"(?:Invariant|Action property|Temporal property|property) (\w+) (?:is|was) violated", out)
        m2 = re.search(r"Action property line \d+, col \d+ to line \d+, col \d+ of module (\w+) is violated", out)
        got = m.group(1) if m else ("ActionProperty@" + m2.group(1) if m2 else ("deadlock" if "Deadlock reached" in out else "error rc=%s" % r["rc"]))
    return {"spec": "%s/%s" % (d.name, mod), "cfg": cfg, "stands_for": what, "expected": exp, "got": got, "as_expected": got == exp,
            "distinct_states": r["distinct"], "wall_s": r["wall_s"]}



def run_rows(only=(), workers=4):
    """Runs the configurations whose name contains one of `only` (all if empty). Returns the result rows."""
    rows = [r for r in TABLE if not only or any(o in r[2] for o in only)]
    with ThreadPoolExecutor(max_workers=workers) as ex:
        return list(ex.map(run, rows))


def summary(only):
    """For the evidence of a thorough run: the deviations that belong to this property, re-run now.
    Raises InfraError if a model does not behave as recorded (no verdict about the code follows from that)."""
    res = run_rows(only)
    bad = [r for r in res if not r["as_expected"]]
    for r in res:
        common.log("[negative] %-50s expected %-22s got %s" % (r["cfg"], r["expected"], r["got"]))
    if bad:
        raise common.InfraError("specification deviations did not behave as recorded: %s" % [(r["cfg"], r["got"]) for r in bad])
    return {"purpose": "non-vacuity at the model level: named deviations must violate the stated invariant, claimed repairs must pass", "configurations": res}
