// F13 (fixed by 8b577ec, C20): a tulz::Thread that has been joined is started again; before the fix m_isFinished kept the
// value of the first run, so isFinished() was true while the second callable was still running.
#include <tulz/threading/Thread.h>

#include <atomic>
#include <cstdio>

int main() {
    tulz::Thread t;
    t.start([] {});
    t.join();
    std::atomic<bool> release{false}, inside{false};
    t.start([&] {
        inside = true;
        while (!release) {}
    });
    while (!inside) {}
    bool early = t.isFinished();   // the callable has not returned yet
    release = true;
    t.join();
    std::printf("isFinished() while the second callable was running: %s\n", early ? "true (defect)" : "false");
    return early ? 1 : 0;
}
