#!/bin/bash
# usage: run.sh [repo]   exit 1 = the defect shows, exit 0 = not
REPO=${1:-/repo}
D=$(mktemp -d /tmp/f13demo.XXXXXX)
trap 'rm -rf "$D"' EXIT
g++ -std=c++20 -O1 -g -I"$REPO/include" "$(dirname "$0")/demo.cpp" "$REPO/src/threading/Thread.cpp" "$REPO/src/threading/Runnable.cpp" -lpthread -o "$D/demo" || exit 2
timeout 60 "$D/demo"
