// F12 (known finding, C11 + C15): two notify() calls on one ConcurrentSubjectRouter reach a subject
// that holds an observer which invalidated itself in its callback (Observer::SelfView::invalidate,
// the documented way to write a one-shot observer). ConcurrentSubjectRouter::notify holds only the
// READ lock, but Subject::notify removes such an observer lazily: it erases from the observer list
// and destroys the observer. Two readers do that to the same list at the same time.
//
// Free-running threads, no scheduler, no hooks: under AddressSanitizer this ends in
// heap-use-after-free / double-free / SEGV inside tulz::Subject<int>::notify or unsubscribeById
// within a few hundred rounds.
#include <tulz/observer/routing/ConcurrentSubjectRouter.h>
#include <tulz/observer/routing/RoutingKeyBuilder.h>

#include <atomic>
#include <cstdio>
#include <thread>
#include <vector>

using namespace tulz;

int main() {
    const int rounds = 20000, threads = 4;
    auto key = RoutingKeyBuilder("a").build();
    for (int r = 0; r < rounds; ++r) {
        ConcurrentSubjectRouter router;
        std::atomic<int> delivered{0};
        auto sub = router.subscribe<int>(key, [&](Observer<int>::SelfView self, int) {
            ++delivered;
            self->invalidate();   // one-shot: "do not call me again"
        });
        std::atomic<int> go{0};
        std::vector<std::thread> ts;
        for (int t = 0; t < threads; ++t)
            ts.emplace_back([&] {
                ++go;
                while (go.load() < threads) {}
                router.notify<int>(key, 1);
            });
        for (auto &t : ts) t.join();
    }
    std::puts("no crash observed");
    return 0;
}
