#!/bin/bash
# usage: run.sh [repo]   exit 1 = the defect showed (sanitizer report / crash), exit 0 = not observed
REPO=${1:-/repo}
D=$(mktemp -d /tmp/f12demo.XXXXXX)
trap 'rm -rf "$D"' EXIT
S=$REPO/src
g++ -std=c++20 -O1 -g -fsanitize=address -fno-omit-frame-pointer -I"$REPO/include" \
    "$(dirname "$0")/demo.cpp" "$S/threading/rwp/Resource.cpp" "$S/observer/routing/SubjectRouter.cpp" \
    "$S/observer/routing/RoutingKey.cpp" "$S/observer/routing/RoutingKeyBuilder.cpp" \
    "$S/observer/routing/RoutingLevelView.cpp" -lpthread -o "$D/demo" || exit 2
ASAN_OPTIONS=detect_leaks=0 timeout 300 "$D/demo" > "$D/out" 2>&1
rc=$?
grep -m3 -E "ERROR: AddressSanitizer|#[0-3] " "$D/out" | cut -c1-200
[ $rc -ne 0 ] && { echo "F12 reproduced (exit $rc)"; exit 1; }
cat "$D/out"; exit 0
