SPECIFICATION Spec
CONSTANT Syms <- S2
CONSTANT MaxContent = 3
CONSTANT MaxSteps = 5
CONSTANT Chunks <- Ch
INVARIANT PosInRange
CHECK_DEADLOCK FALSE
