------------------------------ MODULE PathStrP ------------------------------
(* C18 (a): Path::join / getPathName / getParentDirectory as the statement relates them.
   A case is a non-empty directory string d, a separator-free non-empty name n and an absolute
   path p; TLC enumerates the cases with the expected results:
     join(d, n)            = d n  if d ends with a separator, else  d "/" n
     name(join(d, n))      = n
     parent(join(d, n))    = d without one trailing separator
     join(d, p)            = p          (joining an absolute path yields that path)
   Strings are sequences of one-character strings. *)
EXTENDS Naturals, Sequences
CONSTANTS Chars, MaxDir, MaxName
VARIABLES d, n, j, nm, par
Sep == "/"
NameChars == Chars \ {Sep}
Dirs == UNION {[1..k -> Chars] : k \in 1..MaxDir}
Names == UNION {[1..k -> NameChars] : k \in 1..MaxName}
EndsWithSep(s) == s[Len(s)] = Sep
Join(a, b) == IF EndsWithSep(a) THEN a \o b ELSE a \o <<Sep>> \o b
Strip(s) == IF EndsWithSep(s) THEN SubSeq(s, 1, Len(s) - 1) ELSE s
Init == /\ d \in Dirs /\ n \in Names
        /\ j = Join(d, n) /\ nm = n /\ par = Strip(d)
Next == UNCHANGED <<d, n, j, nm, par>>
Spec == Init /\ [][Next]_<<d, n, j, nm, par>>
\* the laws are consistent with each other: the name is what follows the last separator of the joined path
NameIsSuffix == SubSeq(j, Len(j) - Len(n) + 1, Len(j)) = nm /\ j[Len(j) - Len(n)] = Sep
=============================================================================
