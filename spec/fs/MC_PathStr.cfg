SPECIFICATION Spec
CONSTANT Chars <- C6
CONSTANT MaxDir = 4
CONSTANT MaxName = 2
INVARIANT NameIsSuffix
CHECK_DEADLOCK FALSE
