---- MODULE MC_PathTree ----
EXTENDS PathTreeP, TLC
N3 == {1, 2, 3}
====
