SPECIFICATION Spec
CONSTANT Tokens <- FewTokens
CONSTANT MaxLen = 5
INVARIANTS NoUnderscore DotFirst
CHECK_DEADLOCK FALSE
