---------------------------- MODULE LocaleParseP ----------------------------
(***************************************************************************)
(* C19: the input classes of LocaleInfo::get and the verdict the property  *)
(* statement assigns to each.  An input is a sequence of pieces: tokens    *)
(* (classified by what the tables say about them) and the delimiters "_"   *)
(* and ".".  There is no behaviour to explore: TLC enumerates the inputs   *)
(* (the initial states) together with the expected verdict, and the        *)
(* harness concretises every class with table entries / boundary strings.  *)
(*                                                                         *)
(*   verdict = "found"    exactly for   L "_" C            and             *)
(*                                      L "_" C "." anything               *)
(*             with L a single token that is a known language code or name *)
(*             and C a single token that is a known country code or name;  *)
(*   verdict = "fallback" for everything else (English / United Kingdom,   *)
(*             error set).                                                 *)
(***************************************************************************)
EXTENDS Naturals, Sequences
CONSTANTS Tokens,      \* token classes, e.g. "LangCode", "LangName", "CountryCode", "CountryName", "Unknown", "Empty", "Long63", ...
          MaxLen
VARIABLES input, verdict, langAt, countryAt

Delims == {"_", "."}
Pieces == Tokens \cup Delims
Inputs == UNION {[1..n -> Pieces] : n \in 0..MaxLen}

IsLang(p) == p \in {"LangCode", "LangName"}
IsCountry(p) == p \in {"CountryCode", "CountryName"}
\* the statement's grammar, on pieces: a single language token, "_", a single country token, then the end or "."
Found(s) == /\ Len(s) >= 3 /\ IsLang(s[1]) /\ s[2] = "_" /\ IsCountry(s[3])
            /\ (Len(s) = 3 \/ s[4] = ".")

Init == /\ input \in Inputs
        /\ verdict = IF Found(input) THEN "found" ELSE "fallback"
        /\ langAt = IF Found(input) THEN 1 ELSE 0
        /\ countryAt = IF Found(input) THEN 3 ELSE 0
Next == UNCHANGED <<input, verdict, langAt, countryAt>>
Spec == Init /\ [][Next]_<<input, verdict, langAt, countryAt>>

\* sanity of the classification: an input without "_" is never found; a "." before the first "_" is never found
NoUnderscore == (\A i \in 1..Len(input) : input[i] # "_") => verdict = "fallback"
DotFirst == (\E i \in 1..Len(input) : input[i] = "." /\ \A j \in 1..i : input[j] # "_") => verdict = "fallback"
=============================================================================
