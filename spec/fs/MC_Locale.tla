---- MODULE MC_Locale ----
EXTENDS LocaleParseP
AllTokens == {"LangCode", "LangName", "CountryCode", "CountryName", "Unknown", "Empty", "Long63", "Long64", "Long1000"}
FewTokens == {"LangCode", "CountryCode", "Unknown", "Long64"}
====
