SPECIFICATION Spec
CONSTANT MaxSteps = 4
INVARIANT TypeOK
CHECK_DEADLOCK FALSE
