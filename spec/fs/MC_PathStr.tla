---- MODULE MC_PathStr ----
EXTENDS PathStrP
C5 == {"/", "a", "b", ".", " "}
C6 == C5 \cup {":"}    \* a colon in second position is what a drive-letter test looks for
====
