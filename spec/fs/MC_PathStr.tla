---- MODULE MC_PathStr ----
EXTENDS PathStrP
C5 == {"/", "a", "b", ".", " "}
====
