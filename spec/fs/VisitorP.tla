------------------------------- MODULE VisitorP -------------------------------
(* C18 (c): DirectoryVisitor objects and the process working directory.
   cwd: the working directory (0 = where the test started, 1..2 = test directories);
   stack: the visitors alive, innermost last. Per visitor: dir (0 = empty path: visit() does nothing),
   old / saved (the directory remembered by the last visit()), fresh (ghost: no restore() since that visit).
   A visitor constructed from a path visits at once; set() / visit() / restore() are public too, and the working
   directory can change behind the visitor's back (Chdir). Destruction restores the directory that was current
   at the LAST visit(); destroying a visitor that never visited changes nothing.
   Visitors are destroyed in LIFO order (C++ scopes). *)
EXTENDS Naturals, Sequences
CONSTANTS MaxDepth, MaxSteps
VARIABLES cwd, stack, steps
vars == <<cwd, stack, steps>>
Dirs == 0..2
Init == cwd = 0 /\ stack = <<>> /\ steps = 0
Tick == steps < MaxSteps /\ steps' = steps + 1
Idx == 1..Len(stack)
NoVisit(d) == [dir |-> d, old |-> 0, saved |-> FALSE, fresh |-> FALSE]
\* DirectoryVisitor(path): set + visit; DirectoryVisitor() / an empty path: no visit
Construct(d) == /\ Tick /\ Len(stack) < MaxDepth /\ d \in Dirs
                /\ IF d = 0 THEN stack' = Append(stack, NoVisit(0)) /\ UNCHANGED cwd
                            ELSE stack' = Append(stack, [dir |-> d, old |-> cwd, saved |-> TRUE, fresh |-> TRUE]) /\ cwd' = d
SetDir(i, d) == /\ Tick /\ i \in Idx /\ d \in Dirs /\ d # stack[i].dir
                /\ stack' = [stack EXCEPT ![i].dir = d] /\ UNCHANGED cwd
Visit(i) == /\ Tick /\ i \in Idx
            /\ IF stack[i].dir = 0 THEN UNCHANGED <<cwd, stack>>
               ELSE /\ stack' = [stack EXCEPT ![i].old = cwd, ![i].saved = TRUE, ![i].fresh = TRUE]
                    /\ cwd' = stack[i].dir
Restore(i) == /\ Tick /\ i \in Idx
              /\ IF stack[i].saved THEN cwd' = stack[i].old /\ stack' = [stack EXCEPT ![i].fresh = FALSE]
                                   ELSE UNCHANGED <<cwd, stack>>
\* somebody else changes the working directory
Chdir(d) == /\ Tick /\ d \in Dirs /\ d # cwd /\ cwd' = d /\ UNCHANGED stack
Destroy == /\ Tick /\ stack # <<>>
           /\ LET v == stack[Len(stack)] IN cwd' = IF v.saved THEN v.old ELSE cwd
           /\ stack' = SubSeq(stack, 1, Len(stack) - 1)
Next == \/ \E d \in Dirs : Construct(d) \/ Chdir(d)
        \/ \E i \in 1..MaxDepth : Visit(i) \/ Restore(i) \/ \E d \in Dirs : SetDir(i, d)
        \/ Destroy
Spec == Init /\ [][Next]_vars
\* without outside interference and explicit calls (constructors and destructors only) the original directory is back
\* once every visitor is gone: checked by MC_VisitorScoped.cfg through ScopedNext
ScopedNext == (\E d \in Dirs : Construct(d)) \/ Destroy
ScopedSpec == Init /\ [][ScopedNext]_vars
Restored == stack = <<>> => cwd = 0
\* C18: destruction leads back to the directory that was current at the visitor's last visit()
DestroyRestores == [][(Destroy /\ stack[Len(stack)].saved) => cwd' = stack[Len(stack)].old]_vars
=============================================================================
