------------------------------- MODULE VisitorP -------------------------------
(* C18 (c): DirectoryVisitor as a stack of saved working directories.
   cwd: the process working directory (0 = where the test started, 1..2 = test directories);
   stack: the visitors alive, innermost last: [dir, old]; dir 0 = a visitor given an empty path (no visit).
   A visitor changes into its directory when constructed and, when destroyed, restores the directory that
   was current at its construction. Visitors are destroyed in LIFO order (C++ scopes). *)
EXTENDS Naturals, Sequences
CONSTANTS MaxDepth, MaxSteps
VARIABLES cwd, stack, steps
Init == cwd = 0 /\ stack = <<>> /\ steps = 0
Construct(d) == /\ steps < MaxSteps /\ Len(stack) < MaxDepth /\ d \in 0..2
                /\ IF d = 0 THEN stack' = Append(stack, [dir |-> 0, old |-> 0, saved |-> FALSE]) /\ UNCHANGED cwd
                            ELSE stack' = Append(stack, [dir |-> d, old |-> cwd, saved |-> TRUE]) /\ cwd' = d
                /\ steps' = steps + 1
Destroy == /\ steps < MaxSteps /\ stack # <<>>
           /\ LET v == stack[Len(stack)] IN cwd' = IF v.saved THEN v.old ELSE cwd
           /\ stack' = SubSeq(stack, 1, Len(stack) - 1) /\ steps' = steps + 1
Next == (\E d \in 0..2 : Construct(d)) \/ Destroy
Spec == Init /\ [][Next]_<<cwd, stack, steps>>
\* when every visitor is gone the original working directory is back
Restored == stack = <<>> => cwd = 0
=============================================================================
