---- MODULE MC_File ----
EXTENDS FileP
S2 == {1, 2}
Ch == {<<1>>, <<2>>, <<1, 2>>, <<2, 2>>, <<>>}
====
