SPECIFICATION Spec
CONSTANT Tokens <- AllTokens
CONSTANT MaxLen = 3
INVARIANTS NoUnderscore DotFirst
CHECK_DEADLOCK FALSE
