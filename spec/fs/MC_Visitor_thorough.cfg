SPECIFICATION Spec
CONSTANT MaxDepth = 2
CONSTANT MaxSteps = 7
PROPERTY DestroyRestores
CHECK_DEADLOCK FALSE
