SPECIFICATION Spec
CONSTANT Tokens <- AllTokens
CONSTANT MaxLen = 4
INVARIANTS NoUnderscore DotFirst
CHECK_DEADLOCK FALSE
