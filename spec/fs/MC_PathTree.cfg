SPECIFICATION Spec
CONSTANT NameIdx <- N3
CONSTANT MaxNodes = 4
CONSTANT MaxDepth = 3
INVARIANT PrefixClosed
CHECK_DEADLOCK FALSE
