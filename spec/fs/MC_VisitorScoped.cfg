SPECIFICATION ScopedSpec
CONSTANT MaxDepth = 3
CONSTANT MaxSteps = 6
INVARIANT Restored
CHECK_DEADLOCK FALSE
