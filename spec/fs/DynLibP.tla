------------------------------- MODULE DynLibP -------------------------------
(***************************************************************************)
(* tulz::DynamicLibrary (not one of the listed properties): two library    *)
(* objects over two tiny shared objects "A" and "B" built by the harness.  *)
(*  lib[o]   what object o holds: "none" | "A" | "B"                       *)
(*  err      an error message is pending (dlerror semantics as observed    *)
(*           with glibc: EVERY loader call replaces it -- a failing load / *)
(*           lookup sets it, a succeeding one clears it; getError()        *)
(*           returns and clears it)                                        *)
(*  ret      result of the last operation: for a lookup the library that   *)
(*           answered ("A", "B", "global": found in the process' global    *)
(*           scope, "null": not found), for getError() "error" / "noerror" *)
(* Deliberately modelled as the code behaves:                              *)
(*  - getAddress() on an object that holds nothing searches the global     *)
(*    scope (dlsym with a null handle), it does not fail;                  *)
(*  - load() hands string_view::data() to dlopen: a view that is a prefix  *)
(*    of a longer buffer names the WHOLE buffer (LoadPrefixView).          *)
(***************************************************************************)
EXTENDS Naturals
CONSTANT MaxSteps
VARIABLES lib, err, ret, steps
vars == <<lib, err, ret, steps>>
Objs == {1, 2}
Libs == {"A", "B"}
\* lib_id is exported by A and B, only_a by A, "puts" by the C library (global scope), nope by nobody
Names == {"lib_id", "only_a", "puts", "nope"}
Exports(l, n) == (n = "lib_id") \/ (l = "A" /\ n = "only_a")   \* a handle resolves the library's own symbols only (the test libraries depend on nothing)

Init == lib = [o \in Objs |-> "none"] /\ err = FALSE /\ ret = "-" /\ steps = 0
Tick == steps < MaxSteps /\ steps' = steps + 1
\* load(path): an object that already holds a library closes it first
Load(o, l) == /\ Tick /\ l \in Libs /\ lib' = [lib EXCEPT ![o] = l] /\ ret' = "-" /\ err' = FALSE
LoadMissing(o) == /\ Tick /\ lib' = [lib EXCEPT ![o] = "none"] /\ err' = TRUE /\ ret' = "-"
LoadPrefixView(o) == LoadMissing(o)   \* "<path of A>" as a prefix view of "<path of A>.garbage": the garbage is part of what dlopen sees
Close(o) == /\ Tick /\ lib' = [lib EXCEPT ![o] = "none"] /\ ret' = "-"
            /\ err' = (IF lib[o] = "none" THEN err ELSE FALSE)   \* nothing held: no loader call is made
Lookup(o, n) == /\ Tick /\ n \in Names
                /\ LET l == lib[o]
                       found == IF l = "none" THEN n = "puts" ELSE Exports(l, n)
                   IN /\ ret' = (IF ~found THEN "null" ELSE IF n = "puts" THEN "global" ELSE l)
                      /\ err' = ~found
                /\ UNCHANGED lib
GetError == /\ Tick /\ ret' = (IF err THEN "error" ELSE "noerror") /\ err' = FALSE /\ UNCHANGED lib
Next == \/ \E o \in Objs : LoadMissing(o) \/ LoadPrefixView(o) \/ Close(o) \/ \E l \in Libs : Load(o, l)
        \/ \E o \in Objs, n \in Names : Lookup(o, n)
        \/ GetError
Spec == Init /\ [][Next]_vars
\* closing one object never invalidates what the other one holds (the loader counts references)
TypeOK == lib \in [Objs -> {"none"} \cup Libs] /\ err \in BOOLEAN
=============================================================================
