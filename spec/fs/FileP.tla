-------------------------------- MODULE FileP --------------------------------
(***************************************************************************)
(* C17: tulz::File over one path.                                          *)
(*  kind   "absent" | "dir" | "file";  content: the file's content (a      *)
(*         sequence of symbols; the harness maps symbols to bytes such as  *)
(*         0x00 0x0A 0x0D 0x1A 0xFF and repeats them 1 / 4096 / 2^20 times)*)
(*  mode   "closed" | "Read" | "ReadText" | "Write" | "WriteText" |        *)
(*         "Append" | "AppendText"        pos   position of the handle     *)
(*  res    what the last operation returned: [k, n, s, e] (kind, number,   *)
(*         symbols, error name)                                            *)
(*  Exploration level: TLC enumerates every history of at most MaxSteps    *)
(*  operations; the expected results are the states' `res`.                *)
(* Not modelled (and not judged): overwriting in the middle through a      *)
(* write handle that was moved back, reading from write-only handles,      *)
(* tell() on append handles.                                               *)
(***************************************************************************)
EXTENDS Naturals, Sequences
CONSTANTS Syms, MaxContent, MaxSteps, Chunks
VARIABLES kind, content, mode, pos, res, steps
vars == <<kind, content, mode, pos, res, steps>>

ReadModes == {"Read", "ReadText"}
WriteModes == {"Write", "WriteText"}
AppendModes == {"Append", "AppendText"}
IsFile == kind = "file"
Content == IF IsFile THEN content ELSE <<>>
R(k, n, sq, e) == [k |-> k, n |-> n, s |-> sq, e |-> e]
Min(a, b) == IF a < b THEN a ELSE b

Init == /\ kind \in {"absent", "dir", "file"}
        /\ content \in (IF kind = "file" THEN {<<>>} \cup {<<s>> : s \in Syms} \cup {<<s, t>> : s \in Syms, t \in Syms} ELSE {<<>>})
        /\ mode = "closed" /\ pos = 0 /\ res = R("none", 0, <<>>, "") /\ steps = 0

Tick == steps < MaxSteps /\ steps' = steps + 1

Open(m) == /\ Tick /\ m \in ReadModes \cup WriteModes \cup AppendModes
           /\ IF kind = "dir" THEN res' = R("error", 0, <<>>, "NotFile") /\ UNCHANGED <<kind, content, mode, pos>>
              ELSE IF kind = "absent" /\ m \in ReadModes THEN res' = R("error", 0, <<>>, "NotFound") /\ UNCHANGED <<kind, content, mode, pos>>
              ELSE /\ mode' = m /\ pos' = 0 /\ res' = R("ok", 0, <<>>, "")
                   /\ kind' = "file"
                   /\ content' = IF m \in WriteModes THEN <<>> ELSE Content
Close == /\ Tick /\ mode # "closed" /\ mode' = "closed" /\ pos' = 0 /\ res' = R("ok", 0, <<>>, "") /\ UNCHANGED <<kind, content>>
\* write(chunk): write and append handles only ever add at the end here
Write(c) == /\ Tick /\ mode \in WriteModes \cup AppendModes /\ c \in Chunks
            /\ (mode \in AppendModes \/ pos = Len(Content))   \* an append handle writes at the end wherever it stands; overwriting in the middle is not modelled
            /\ Len(Content) + Len(c) <= MaxContent
            /\ content' = Content \o c /\ pos' = Len(Content) + Len(c)
            /\ res' = R("count", Len(c), <<>>, "") /\ UNCHANGED <<kind, mode>>
\* read(): the whole file from the start, whatever the position was
ReadAll == /\ Tick /\ mode \in ReadModes
           /\ res' = R("bytes", Len(Content), Content, "") /\ pos' = Len(Content) /\ UNCHANGED <<kind, content, mode>>
ReadStr == /\ Tick /\ mode \in ReadModes
           /\ res' = R("string", Len(Content), Content, "") /\ pos' = Len(Content) /\ UNCHANGED <<kind, content, mode>>
\* read(buffer, 1, n): at most n symbols from the current position
ReadBuf(n) == /\ Tick /\ mode \in ReadModes /\ n \in 0..(MaxContent + 1)
              /\ LET k == Min(n, Len(Content) - pos) IN
                 /\ res' = R("bytes", k, SubSeq(Content, pos + 1, pos + k), "") /\ pos' = pos + k
              /\ UNCHANGED <<kind, content, mode>>
\* seek() moves the position of any handle (on an append handle it does not move where writes go)
SeekStart(o) == /\ Tick /\ mode # "closed" /\ o \in 0..Len(Content)
                /\ pos' = o /\ res' = R("ok", 0, <<>>, "") /\ UNCHANGED <<kind, content, mode>>
SeekEnd == /\ Tick /\ mode # "closed" /\ pos' = Len(Content) /\ res' = R("ok", 0, <<>>, "") /\ UNCHANGED <<kind, content, mode>>
Tell == /\ Tick /\ mode \in ReadModes \cup WriteModes /\ res' = R("pos", pos, <<>>, "") /\ UNCHANGED <<kind, content, mode, pos>>
\* size() = number of bytes in the file, position unchanged
Size == /\ Tick /\ mode # "closed" /\ res' = R("size", Len(Content), <<>>, "") /\ UNCHANGED <<kind, content, mode, pos>>

Next == \/ \E m \in ReadModes \cup WriteModes \cup AppendModes : Open(m)
        \/ Close \/ \E c \in Chunks : Write(c)
        \/ ReadAll \/ ReadStr \/ \E n \in 0..(MaxContent + 1) : ReadBuf(n)
        \/ \E o \in 0..MaxContent : SeekStart(o)
        \/ SeekEnd \/ Tell \/ Size
Spec == Init /\ [][Next]_vars

\* C17 on the model: what was written (and closed) is what is read back; size never moves the position
PosInRange == pos <= Len(Content)
=============================================================================
