------------------------------ MODULE PathTreeP ------------------------------
(* C18 (b): directory trees and what Path must report about them.
   tree: a function from node paths (sequences of name indices) to a node kind:
         "dir", or the size class of a regular file ("f0" = 0 bytes, "f1" = 1 byte, "f5000").
   TLC builds every tree of at most MaxNodes nodes (depth <= MaxDepth) by adding nodes one at a time;
   each reachable state is one test case. Expected answers (derived operators, evaluated by the
   harness-side comparison from the state): a directory's size is the total size of the regular files
   beneath it; listChildren is the set of child names, each exactly once. *)
EXTENDS Naturals, Sequences, FiniteSets, TLC
CONSTANTS NameIdx, MaxNodes, MaxDepth
VARIABLES tree
Kinds == {"dir", "f0", "f1", "f5000"}
Init == tree = <<>> :> "dir"     \* the root of the scratch tree
Nodes == DOMAIN tree
Add(p, i, k) == /\ Cardinality(Nodes) <= MaxNodes /\ p \in Nodes /\ tree[p] = "dir" /\ Len(p) < MaxDepth
                /\ Append(p, i) \notin Nodes /\ i \in NameIdx /\ k \in Kinds
                /\ tree' = [q \in Nodes \cup {Append(p, i)} |-> IF q \in Nodes THEN tree[q] ELSE k]
Next == \E p \in Nodes, i \in NameIdx, k \in Kinds : Add(p, i, k)
Spec == Init /\ [][Next]_tree
IsPrefix(a, b) == Len(a) <= Len(b) /\ \A x \in 1..Len(a) : a[x] = b[x]
PrefixClosed == \A p \in Nodes : p # <<>> => SubSeq(p, 1, Len(p) - 1) \in Nodes /\ tree[SubSeq(p, 1, Len(p) - 1)] = "dir"
=============================================================================
