SPECIFICATION Spec
CONSTANT Syms <- S2
CONSTANT MaxContent = 4
CONSTANT MaxSteps = 7
CONSTANT Chunks <- Ch
INVARIANT PosInRange
CHECK_DEADLOCK FALSE
