SPECIFICATION Spec
CONSTANT MaxThreads = 2
CONSTANT MaxTasks = 3
CONSTANT MaxOps = 4
CONSTANT MaxSpawn = 4
CONSTANT FlagUnderMutex = TRUE
CONSTANT Expiry = FALSE
CONSTANT FinishedAtomic = TRUE
CONSTANT AllowSpurious = TRUE
INVARIANTS TypeOK NoDeadlockB PoolBounded C08Quiescent QueueConsistent AllDestroyedAtEnd MutexOK NoRace
CONSTRAINT SpawnBound
CHECK_DEADLOCK FALSE
