----------------------------- MODULE ThreadStart -----------------------------
(***************************************************************************)
(* tulz::Thread::start (C20).  Starter S = thread 0 calls start(callable,   *)
(* args...) with the callable passed BY VALUE: the parameter object lives   *)
(* until start() returns.  The new thread T may be scheduled arbitrarily    *)
(* late.  One action per scheduler-visible step.                            *)
(*                                                                         *)
(*   spc   "init" -> "spawn" (inside start(), about to create the thread)  *)
(*         -> "after" (start() returned, parameter destroyed, stack reused) *)
(*         -> "join" (about to join) -> "done"                              *)
(*   tpc   "none" -> "created" -> "in" (inside the callable) -> "exited"    *)
(*   palive     the by-value parameter object of start() is alive          *)
(*   finished   Thread::m_isFinished       seenFinished  observer saw true  *)
(*   invokedOn  "-" | "live" | "dead": what the new thread invoked          *)
(* ByRef = TRUE models the header before the fix: the thread's lambda       *)
(* captured the parameter by reference.                                     *)
(*                                                                         *)
(* A Thread object can be started again once it has been joined (Rounds >  *)
(* 1): join() of round r leads back to "init" of round r + 1; tpc stays     *)
(* "exited" and finished stays TRUE until the next start() is called.       *)
(* ResetOnStart = FALSE models the class before fix F13: start() did not    *)
(* lower the finished flag, so from the second start on isFinished() was    *)
(* true while the callable was still running.                               *)
(***************************************************************************)
EXTENDS Naturals
CONSTANTS ByRef, Rounds, ResetOnStart
VARIABLES spc, tpc, palive, finished, seenFinished, invokedOn, invocations, round
vars == <<spc, tpc, palive, finished, seenFinished, invokedOn, invocations, round>>

Init == /\ spc = "init" /\ tpc = "none" /\ palive = FALSE /\ finished = FALSE
        /\ seenFinished = FALSE /\ invokedOn = "-" /\ invocations = 0 /\ round = 1

SCall == /\ spc = "init" /\ spc' = "spawn" /\ palive' = TRUE
         /\ tpc' = "none" /\ invokedOn' = "-" /\ invocations' = 0
         /\ finished' = IF ResetOnStart THEN FALSE ELSE finished
         /\ seenFinished' = IF ResetOnStart THEN FALSE ELSE finished
         /\ UNCHANGED round
\* pthread_create, then start() returns and its parameter is destroyed
SSpawnReturn == /\ spc = "spawn" /\ spc' = "after" /\ tpc' = "created" /\ palive' = FALSE
                /\ UNCHANGED <<finished, seenFinished, invokedOn, invocations, round>>
\* the starter keeps running (and polls isFinished())
SAfter == /\ spc = "after" /\ spc' = "join" /\ seenFinished' = finished
          /\ UNCHANGED <<tpc, palive, finished, invokedOn, invocations, round>>
SJoin == /\ spc = "join" /\ tpc = "exited" /\ seenFinished' = finished
         /\ IF round < Rounds THEN spc' = "init" /\ round' = round + 1 ELSE spc' = "done" /\ UNCHANGED round
         /\ UNCHANGED <<tpc, palive, finished, invokedOn, invocations>>
TInvoke == /\ tpc = "created" /\ tpc' = "in"
           /\ invokedOn' = IF ByRef /\ ~palive THEN "dead" ELSE "live"
           /\ invocations' = invocations + 1
           /\ UNCHANGED <<spc, palive, finished, seenFinished, round>>
TFinish == /\ tpc = "in" /\ tpc' = "exited" /\ finished' = TRUE
           /\ UNCHANGED <<spc, palive, seenFinished, invokedOn, invocations, round>>
Next == SCall \/ SSpawnReturn \/ SAfter \/ SJoin \/ TInvoke \/ TFinish
Spec == Init /\ [][Next]_vars

\* C20
InvokedLive == invokedOn # "dead"
Once == invocations <= 1 /\ (spc = "done" \/ (spc = "init" /\ round > 1) => invocations = 1)
FinishedOnlyAfter == (finished \/ seenFinished) => tpc = "exited"
JoinAfterFinish == spc = "done" \/ (spc = "init" /\ round > 1) => finished /\ seenFinished
NoDeadlock == (ENABLED Next) \/ spc = "done"
=============================================================================
