----------------------------- MODULE ThreadStart -----------------------------
(***************************************************************************)
(* tulz::Thread::start (C20).  Starter S = thread 0 calls start(callable,   *)
(* args...) with the callable passed BY VALUE: the parameter object lives   *)
(* until start() returns.  The new thread T may be scheduled arbitrarily    *)
(* late.  One action per scheduler-visible step.                            *)
(*                                                                         *)
(*   spc   "init" -> "spawn" (inside start(), about to create the thread)  *)
(*         -> "after" (start() returned, parameter destroyed, stack reused) *)
(*         -> "join" (about to join) -> "done"                              *)
(*   tpc   "none" -> "created" -> "in" (inside the callable) -> "exited"    *)
(*   palive     the by-value parameter object of start() is alive          *)
(*   finished   Thread::m_isFinished       seenFinished  observer saw true  *)
(*   invokedOn  "-" | "live" | "dead": what the new thread invoked          *)
(* ByRef = TRUE models the header before the fix: the thread's lambda       *)
(* captured the parameter by reference.                                     *)
(***************************************************************************)
EXTENDS Naturals
CONSTANTS ByRef
VARIABLES spc, tpc, palive, finished, seenFinished, invokedOn, invocations
vars == <<spc, tpc, palive, finished, seenFinished, invokedOn, invocations>>

Init == /\ spc = "init" /\ tpc = "none" /\ palive = FALSE /\ finished = FALSE
        /\ seenFinished = FALSE /\ invokedOn = "-" /\ invocations = 0

SCall == /\ spc = "init" /\ spc' = "spawn" /\ palive' = TRUE
         /\ UNCHANGED <<tpc, finished, seenFinished, invokedOn, invocations>>
\* pthread_create, then start() returns and its parameter is destroyed
SSpawnReturn == /\ spc = "spawn" /\ spc' = "after" /\ tpc' = "created" /\ palive' = FALSE
                /\ UNCHANGED <<finished, seenFinished, invokedOn, invocations>>
\* the starter keeps running (and polls isFinished())
SAfter == /\ spc = "after" /\ spc' = "join" /\ seenFinished' = finished
          /\ UNCHANGED <<tpc, palive, finished, invokedOn, invocations>>
SJoin == /\ spc = "join" /\ tpc = "exited" /\ spc' = "done" /\ seenFinished' = finished
         /\ UNCHANGED <<tpc, palive, finished, invokedOn, invocations>>
TInvoke == /\ tpc = "created" /\ tpc' = "in"
           /\ invokedOn' = IF ByRef /\ ~palive THEN "dead" ELSE "live"
           /\ invocations' = invocations + 1
           /\ UNCHANGED <<spc, palive, finished, seenFinished>>
TFinish == /\ tpc = "in" /\ tpc' = "exited" /\ finished' = TRUE
           /\ UNCHANGED <<spc, palive, seenFinished, invokedOn, invocations>>
Next == SCall \/ SSpawnReturn \/ SAfter \/ SJoin \/ TInvoke \/ TFinish
Spec == Init /\ [][Next]_vars

\* C20
InvokedLive == invokedOn # "dead"
Once == invocations <= 1 /\ (spc = "done" => invocations = 1)
FinishedOnlyAfter == (finished \/ seenFinished) => tpc = "exited"
JoinAfterFinish == spc = "done" => finished /\ seenFinished
NoDeadlock == (ENABLED Next) \/ spc = "done"
=============================================================================
