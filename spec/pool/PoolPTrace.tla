----------------------------- MODULE PoolPTrace -----------------------------
(* T layer: executions of the real ThreadPool (recorded under vsched by instrumented Runnable
   subclasses and owner call/return markers) validated against PoolP. Every event is one P action;
   Deadlock, Crash, RunOnDead, DestroyedWhileRunning and TooLong events are never enabled.
   Event fields: e, k (task), w (thread), n (count). MaxThreads comes with the Begin event. *)
EXTENDS Naturals, FiniteSets, Sequences, TLC, Json, IOUtils
CONSTANT Mode     \* "C07": task life cycle only; "C08": stop()/worker-count obligations as well
VARIABLES x, l, ts, inClear, inStop, stopped, live, mx,
          mxHi,  \* the largest maximum configured so far: workers spawned under it may still be alive after it was lowered
          retd,  \* tasks whose start() call has returned
          pre    \* pre[k]: the tasks whose start() had returned when k was submitted -- those were certainly submitted before k
                 \* (two client threads may be inside start() at once: their order in the queue is not observable)
Ev == ndJsonDeserialize(IOEnv.TRACE_EVENTS)
Ix == ndJsonDeserialize(IOEnv.TRACE_INDEX)
Diag == "TRACE_DIAG" \in DOMAIN IOEnv /\ IOEnv.TRACE_DIAG = "1"
TTasks == 1..16
TThreads == 0..31
E == Ev[l]

\* PoolP with MaxThreads as a state variable (it is part of each recorded execution)
Waiting == {k \in TTasks : ts[k] = "submitted"}
TInit == /\ x \in 1..Len(Ix) /\ l = Ix[x].s + 1
         /\ Ev[Ix[x].s].e = "Begin" /\ mx = Ev[Ix[x].s].n /\ mxHi = mx
         /\ retd = {} /\ pre = [k \in TTasks |-> {}]
         /\ ts = [k \in TTasks |-> "none"] /\ inClear = FALSE /\ inStop = FALSE /\ stopped = FALSE /\ live = {}

P == INSTANCE PoolP WITH Tasks <- TTasks, Threads <- TThreads, MaxThreads <- 1   \* the maximum is passed per action (M variants)

\* an event that names a task or a thread outside the recorded ranges (an id read from an object that no longer exists) matches
\* no action: the execution is rejected at that event instead of TLC failing to evaluate ts[k]
InRange(name) == /\ (name \in {"Submit", "StartRet", "StartThrew", "RunBegin", "RunEnd", "Destroy"} => E.k \in TTasks)
                 /\ (name \in {"WorkerStart", "WorkerExit"} => E.w \in TThreads)
Is(name) == l <= Ix[x].e /\ E.e = name /\ InRange(name)
Adv0 == l' = l + 1 /\ UNCHANGED <<x, mx, mxHi>>
Adv == Adv0 /\ UNCHANGED <<retd, pre>>
TNext == \/ Is("Submit") /\ P!Submit(E.k) /\ pre' = [pre EXCEPT ![E.k] = retd] /\ UNCHANGED retd /\ Adv0
         \/ Is("StartRet") /\ retd' = retd \cup {E.k} /\ UNCHANGED <<ts, inClear, inStop, stopped, live, pre>> /\ Adv0
         \* start() threw because the worker thread could not be created: the task is queued all the same (it runs once a later
         \* start() has spawned a worker), nothing else has changed -- in particular no worker exists that was not started
         \/ Is("StartThrew") /\ ts[E.k] = "submitted" /\ retd' = retd \cup {E.k} /\ UNCHANGED <<ts, inClear, inStop, stopped, live, pre>> /\ Adv0
         \/ Is("RunBegin") /\ P!RunBeginB(E.k, mxHi, pre[E.k]) /\ Adv   \* submission order only while there never was more than one worker
         \/ Is("RunEnd") /\ P!RunEnd(E.k) /\ Adv
         \/ Is("Destroy") /\ P!Destroy(E.k) /\ Adv
         \/ Is("ClearCall") /\ P!ClearCall /\ Adv
         \/ Is("ClearRet") /\ P!ClearRet /\ Adv
         \/ Is("StopCall") /\ P!StopCall /\ Adv
         \/ Is("StopRet") /\ P!StopRetM(E.n, Mode = "C08") /\ Adv
         \/ Is("WorkerStart") /\ P!WorkerStartM(E.w, IF Mode = "C08" THEN mx ELSE 1000) /\ Adv
         \/ Is("WorkerExit") /\ P!WorkerExit(E.w) /\ Adv
         \/ Is("MaxSet") /\ mx' = E.n /\ mxHi' = (IF E.n > mxHi THEN E.n ELSE mxHi) /\ l' = l + 1
                          /\ UNCHANGED <<x, ts, inClear, inStop, stopped, live, retd, pre>>
         \/ Is("Quiescent") /\ P!Quiescent /\ Adv
         \/ Is("Done") /\ P!Done /\ Adv
TSpec == TInit /\ [][TNext]_<<x, l, ts, inClear, inStop, stopped, live, mx, mxHi, retd, pre>>
Accepted == (l = Ix[x].e + 1) => PrintT(<<"ACCEPTED", x>>)
Progress == Diag => PrintT(<<"AT", x, l>>)
=============================================================================
