-------------------------- MODULE ThreadStartTrace --------------------------
(* T layer for tulz::Thread (C20): recorded executions of start()/join()/isFinished() with
   canary-carrying callables validated against the contract:
   the callable is invoked exactly once, on a live object (a = 1), never through a stale pointer
   (InvokeTrap / Crash are never enabled); isFinished() is observed true (FinSeen) only after the
   callable returned; join() returns only after that and then isFinished() is true; the lvalue
   arguments reached the callable (b of JoinRet); a Runnable is run once and destroyed afterwards;
   a starter that only polls isFinished() sees what the callable wrote (Payload a = 42).
   Event fields: e, a, b.  Begin carries a = callable kind (0 function pointer, 1 small closure,
   2 large closure, 3 Runnable) and b = number of arguments. *)
EXTENDS Naturals, Sequences, TLC, Json, IOUtils
VARIABLES x, l, kind, nargs, called, invoked, ended, destroyed, finseen
vars == <<x, l, kind, nargs, called, invoked, ended, destroyed, finseen>>
Ev == ndJsonDeserialize(IOEnv.TRACE_EVENTS)
Ix == ndJsonDeserialize(IOEnv.TRACE_INDEX)
Diag == "TRACE_DIAG" \in DOMAIN IOEnv /\ IOEnv.TRACE_DIAG = "1"
E == Ev[l]
TInit == /\ x \in 1..Len(Ix) /\ l = Ix[x].s + 1
         /\ Ev[Ix[x].s].e = "Begin" /\ kind = Ev[Ix[x].s].a /\ nargs = Ev[Ix[x].s].b
         /\ called = FALSE /\ invoked = 0 /\ ended = FALSE /\ destroyed = FALSE /\ finseen = FALSE
Is(name) == l <= Ix[x].e /\ E.e = name
Adv == l' = l + 1 /\ UNCHANGED <<x, kind, nargs>>
ExpectedArgs == IF kind \in {3, 4} THEN 0 ELSE IF nargs = 0 THEN 0 ELSE IF nargs = 1 THEN 10 ELSE 11
TNext ==
  \/ Is("StartCall") /\ ~called /\ called' = TRUE /\ UNCHANGED <<invoked, ended, destroyed, finseen>> /\ Adv
  \* start() threw (the thread could not be created): nothing was invoked; the next StartCall begins afresh
  \/ Is("StartThrew") /\ called /\ invoked = 0 /\ called' = FALSE /\ UNCHANGED <<invoked, ended, destroyed, finseen>> /\ Adv
  \/ Is("StartRet") /\ called /\ UNCHANGED <<called, invoked, ended, destroyed, finseen>> /\ Adv
  \/ Is("Invoke") /\ kind # 3 /\ called /\ invoked = 0 /\ E.a = 1
       /\ invoked' = 1 /\ UNCHANGED <<called, ended, destroyed, finseen>> /\ Adv
  \/ Is("InvokeEnd") /\ invoked = 1 /\ ~ended /\ ended' = TRUE /\ UNCHANGED <<called, invoked, destroyed, finseen>> /\ Adv
  \/ Is("RunBegin") /\ kind = 3 /\ called /\ invoked = 0 /\ E.a = 1 /\ ~destroyed
       /\ invoked' = 1 /\ UNCHANGED <<called, ended, destroyed, finseen>> /\ Adv
  \/ Is("RunEnd") /\ invoked = 1 /\ ~ended /\ E.a = 1 /\ ~destroyed
       /\ ended' = TRUE /\ UNCHANGED <<called, invoked, destroyed, finseen>> /\ Adv
  \/ Is("Destroy") /\ kind = 3 /\ ended /\ ~destroyed /\ destroyed' = TRUE /\ UNCHANGED <<called, invoked, ended, finseen>> /\ Adv
  \/ Is("FinSeen") /\ ended /\ finseen' = TRUE /\ UNCHANGED <<called, invoked, ended, destroyed>> /\ Adv
  \/ Is("Payload") /\ ended /\ E.a = 42 /\ UNCHANGED <<called, invoked, ended, destroyed, finseen>> /\ Adv
  \/ Is("JoinRet") /\ ended /\ E.a = 1 /\ E.b = ExpectedArgs /\ UNCHANGED <<called, invoked, ended, destroyed, finseen>> /\ Adv
  \* the same Thread object is started again: everything the contract says starts afresh with the next StartCall,
  \* in particular isFinished() must not be observed true (FinSeen) before the NEW callable has returned
  \/ Is("Restart") /\ invoked = 1 /\ ended /\ (kind = 3 => destroyed)
       /\ called' = FALSE /\ invoked' = 0 /\ ended' = FALSE /\ destroyed' = FALSE /\ finseen' = FALSE /\ Adv
  \/ Is("Done") /\ invoked = 1 /\ ended /\ (kind = 3 => destroyed) /\ UNCHANGED <<called, invoked, ended, destroyed, finseen>> /\ Adv
TSpec == TInit /\ [][TNext]_vars
Accepted == (l = Ix[x].e + 1) => PrintT(<<"ACCEPTED", x>>)
Progress == Diag => PrintT(<<"AT", x, l>>)
=============================================================================
