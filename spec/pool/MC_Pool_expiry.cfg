SPECIFICATION Spec
CONSTANT MaxThreads = 2
CONSTANT MaxTasks = 2
CONSTANT MaxOps = 4
CONSTANT MaxSpawn = 3
CONSTANT FlagUnderMutex = TRUE
CONSTANT Expiry = TRUE
CONSTANT FinishedAtomic = TRUE
CONSTANT AllowSpurious = FALSE
INVARIANTS TypeOK NoDeadlockB PoolBounded QueueConsistent AllDestroyedAtEnd MutexOK NoRace
CONSTRAINT SpawnBound
CHECK_DEADLOCK FALSE
