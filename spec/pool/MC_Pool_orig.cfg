SPECIFICATION Spec
CONSTANT MaxThreads = 2
CONSTANT MaxTasks = 2
CONSTANT MaxOps = 3
CONSTANT MaxSpawn = 3
CONSTANT FlagUnderMutex = FALSE
CONSTANT Expiry = FALSE
CONSTANT FinishedAtomic = TRUE
CONSTANT AllowSpurious = FALSE
INVARIANTS TypeOK NoDeadlockB
CONSTRAINT SpawnBound
CHECK_DEADLOCK FALSE
