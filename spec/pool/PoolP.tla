------------------------------- MODULE PoolP -------------------------------
(***************************************************************************)
(* P layer for tulz::ThreadPool (C07, C08): the life cycle of every task   *)
(* and the owner-visible contract of clear()/stop(), as events.            *)
(*                                                                         *)
(*  ts[k]     "none" | "submitted" | "running" | "ran" | "destroyed"       *)
(*  inClear, inStop   the owner is inside clear() / stop()                 *)
(*  stopped   stop() has returned and no start() was issued since          *)
(*  live      worker threads that have started and not yet exited          *)
(*  A task that is still waiting when stop() returns becomes "stale": it   *)
(*  must never start running any more (C07).  StopRetM(n, strict): with    *)
(*  strict = TRUE the C08 obligations of stop() are demanded as well.      *)
(***************************************************************************)
EXTENDS Naturals, FiniteSets
CONSTANTS Tasks, Threads, MaxThreads
VARIABLES ts, inClear, inStop, stopped, live
pvars == <<ts, inClear, inStop, stopped, live>>

PInit == /\ ts = [k \in Tasks |-> "none"] /\ inClear = FALSE /\ inStop = FALSE
         /\ stopped = FALSE /\ live = {}

Waiting == {k \in Tasks : ts[k] = "submitted"}

Submit(k) == /\ ts[k] = "none" /\ ~inClear /\ ~inStop
             /\ ts' = [ts EXCEPT ![k] = "submitted"] /\ stopped' = FALSE
             /\ UNCHANGED <<inClear, inStop, live>>
\* C07: at most once, never after destruction, not after stop() returned; C07: with one worker in submission order
\* before = the tasks known to have been submitted before k (with one submitting thread: all lower-numbered ones)
RunBeginB(k, m, before) ==
    /\ ts[k] = "submitted" /\ ~stopped
    /\ (m = 1 => ((before \cap Waiting = {}) /\ (\A r \in Tasks : ts[r] # "running")))   \* one worker: in order, one task at a time
    /\ ts' = [ts EXCEPT ![k] = "running"]
    /\ UNCHANGED <<inClear, inStop, stopped, live>>
RunEnd(k) == /\ ts[k] = "running"
             /\ ts' = [ts EXCEPT ![k] = "ran"]
             /\ UNCHANGED <<inClear, inStop, stopped, live>>
\* C07: destroyed exactly once, never during its execution; without having run only by clear()/stop()
Destroy(k) == /\ \/ ts[k] = "ran"
                 \/ ts[k] = "submitted" /\ (inClear \/ inStop)
                 \/ ts[k] = "stale"
              /\ ts' = [ts EXCEPT ![k] = "destroyed"]
              /\ UNCHANGED <<inClear, inStop, stopped, live>>
ClearCall == ~inClear /\ ~inStop /\ inClear' = TRUE /\ UNCHANGED <<ts, inStop, stopped, live>>
ClearRet == inClear /\ inClear' = FALSE /\ UNCHANGED <<ts, inStop, stopped, live>>
StopCall == ~inClear /\ ~inStop /\ inStop' = TRUE /\ UNCHANGED <<ts, inClear, stopped, live>>
\* C08: after stop() returns: no worker thread, nothing running, everything still queued destroyed
StopRetM(n, strict) ==
    /\ inStop
    /\ strict => /\ n = 0 /\ live = {}
                 /\ \A k \in Tasks : ts[k] \notin {"submitted", "running"}
    /\ inStop' = FALSE /\ stopped' = TRUE
    /\ ts' = [k \in Tasks |-> IF ts[k] = "submitted" THEN "stale" ELSE ts[k]]
    /\ UNCHANGED <<inClear, live>>
StopRet(n) == StopRetM(n, TRUE)
\* C08: never more worker threads than the configured maximum
WorkerStartM(w, m) ==
    /\ w \notin live /\ Cardinality(live) < m
    /\ live' = live \cup {w} /\ UNCHANGED <<ts, inClear, inStop, stopped>>
WorkerExit(w) == /\ w \in live /\ live' = live \ {w} /\ UNCHANGED <<ts, inClear, inStop, stopped>>
\* C07: the owner is idle and no worker can run: whatever was submitted (and not cleared/stopped) has run
Quiescent == /\ ~inClear /\ ~inStop /\ Waiting = {} /\ \A k \in Tasks : ts[k] # "running"
             /\ UNCHANGED pvars
\* end of the history (after the final stop): every task has been destroyed exactly once
Done == /\ \A k \in Tasks : ts[k] \in {"none", "destroyed"}
        /\ UNCHANGED pvars

RunBeginM(k, m) == RunBeginB(k, m, {j \in Tasks : j < k})
RunBegin(k) == RunBeginM(k, MaxThreads)
WorkerStart(w) == WorkerStartM(w, MaxThreads)

PNext == \/ \E k \in Tasks : Submit(k) \/ RunBegin(k) \/ RunEnd(k) \/ Destroy(k)
         \/ ClearCall \/ ClearRet \/ StopCall \/ \E n \in 0..MaxThreads : StopRet(n)
         \/ \E w \in Threads : WorkerStart(w) \/ WorkerExit(w)
PSpec == PInit /\ [][PNext]_pvars
=============================================================================
