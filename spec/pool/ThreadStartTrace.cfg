SPECIFICATION TSpec
INVARIANTS Accepted Progress
CHECK_DEADLOCK FALSE
