SPECIFICATION TSpec
CONSTANT Mode = "C07"
INVARIANTS Accepted Progress
CHECK_DEADLOCK FALSE
