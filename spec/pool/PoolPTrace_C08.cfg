SPECIFICATION TSpec
CONSTANT Mode = "C08"
INVARIANTS Accepted Progress
CHECK_DEADLOCK FALSE
