SPECIFICATION Spec
CONSTANT ByRef = FALSE
CONSTANT Rounds = 2
CONSTANT ResetOnStart = TRUE
INVARIANTS InvokedLive Once FinishedOnlyAfter JoinAfterFinish NoDeadlock
CHECK_DEADLOCK FALSE
