SPECIFICATION Spec
CONSTANT ByRef = FALSE
INVARIANTS InvokedLive Once FinishedOnlyAfter JoinAfterFinish NoDeadlock
CHECK_DEADLOCK FALSE
