----------------------------- MODULE PoolImplDev -----------------------------
(***************************************************************************)
(* Named deviations of the I layer of tulz::ThreadPool beyond the two that *)
(* PoolImpl carries itself (FlagUnderMutex = F2, FinishedAtomic = F3).     *)
(* Each is a change a maintainer could make in ThreadPool.cpp; TLC must    *)
(* refute each with the invariant it was written against (tools/vnegative) *)
(*                                                                         *)
(*  "noclear"     stop() no longer destroys what is still queued           *)
(*                -> C08Quiescent (queue / task states after stop())       *)
(*  "stopone"     stop() wakes one worker (notify_one) instead of all      *)
(*                -> a second idle worker sleeps on, join() never returns  *)
(*  "queuefirst"  the worker looks at the queue before the stop flag: a    *)
(*                task is dequeued although stop() has cleared the flag    *)
(*                -> RunOnlyWhileRunning (C07: nothing starts after stop)  *)
(*  "none"        PoolImpl as written                                      *)
(***************************************************************************)
EXTENDS PoolImpl
CONSTANT Deviation

TNotifyD == /\ opc = "t_notify"
            /\ IF Deviation = "stopone" /\ cv # {}
               THEN \E w \in cv : woken' = woken \cup {w} /\ cv' = cv \ {w}
               ELSE woken' = woken \cup cv /\ cv' = {}
            /\ opc' = "t_lockpool"
            /\ UNCHANGED <<queue, pool, running, qmx, pmx, oarg, wpc, wtask, tstate, nextTask, nextW, opsLeft, finalDone, expired, bornExpired>>

TClearQD == /\ opc = "t_lockq" /\ qmx = -1
            /\ IF Deviation = "noclear" THEN UNCHANGED <<tstate, queue>>
                                        ELSE tstate' = DestroyQueued /\ queue' = <<>>
            /\ opc' = IF finalDone THEN "done" ELSE "idle"
            /\ UNCHANGED <<pool, running, qmx, pmx, cv, woken, oarg, wpc, wtask, nextTask, nextW, opsLeft, finalDone, expired, bornExpired>>

EvalD(w) == IF Deviation = "queuefirst" /\ queue # <<>>
            THEN /\ wtask' = [wtask EXCEPT ![w] = Head(queue)] /\ queue' = Tail(queue)
                 /\ tstate' = [tstate EXCEPT ![Head(queue)] = "running"]
                 /\ wpc' = [wpc EXCEPT ![w] = "run"] /\ qmx' = -1
            ELSE Eval(w)
WAcqD(w) == /\ wpc[w] = "lockq" /\ qmx = -1 /\ EvalD(w)
            /\ UNCHANGED <<pool, running, pmx, cv, woken, opc, oarg, nextTask, nextW, opsLeft, finalDone, expired, bornExpired>>
WWakeD(w) == /\ wpc[w] = "wait" /\ w \in woken /\ qmx = -1
             /\ woken' = woken \ {w} /\ EvalD(w)
             /\ UNCHANGED <<pool, running, pmx, cv, opc, oarg, nextTask, nextW, opsLeft, finalDone, expired, bornExpired>>

NextD == \/ Tick \/ UCall \/ UNotify \/ ULockPool \/ UJoin
         \/ SCall \/ SPush \/ SPool \/ SCreate \/ \E w \in Workers \cup {0} : SNotify(w)
         \/ CCall \/ CClear
         \/ TCall \/ TFlag \/ TNotifyD \/ TLockPool \/ TJoin \/ TClearQD
         \/ \E w \in Workers : WStart(w) \/ WAcqD(w) \/ WBlock(w) \/ WWakeD(w) \/ WRunEnd(w) \/ Spurious(w)
SpecD == Init /\ [][NextD]_vars

SpawnBound == ~(opc = "s_create" /\ nextW > MaxSpawn)
NoDeadlockD == (ENABLED NextD) \/ opc = "done" \/ (opc = "s_create" /\ nextW > MaxSpawn)
\* C07: no task starts running once stop() has cleared the flag (the flag is only raised again by the next start())
RunOnlyWhileRunning == [][\A k \in Tasks : (tstate[k] = "queued" /\ tstate'[k] = "running") => running]_vars
=============================================================================
