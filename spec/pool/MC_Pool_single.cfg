SPECIFICATION Spec
CONSTANT MaxThreads = 1
CONSTANT MaxTasks = 3
CONSTANT MaxOps = 4
CONSTANT MaxSpawn = 2
CONSTANT FlagUnderMutex = TRUE
CONSTANT Expiry = FALSE
CONSTANT FinishedAtomic = TRUE
CONSTANT AllowSpurious = FALSE
INVARIANTS TypeOK NoDeadlockB PoolBounded C08Quiescent QueueConsistent AllDestroyedAtEnd MutexOK NoRace
CONSTRAINT SpawnBound
CHECK_DEADLOCK FALSE
