SPECIFICATION SpecD
CONSTANT MaxThreads = 2
CONSTANT MaxTasks = 2
CONSTANT MaxOps = 3
CONSTANT MaxSpawn = 3
CONSTANT FlagUnderMutex = TRUE
CONSTANT Expiry = FALSE
CONSTANT FinishedAtomic = TRUE
CONSTANT AllowSpurious = FALSE
CONSTANT Deviation = "none"
INVARIANTS TypeOK NoDeadlockD PoolBounded C08Quiescent QueueConsistent AllDestroyedAtEnd MutexOK
PROPERTY RunOnlyWhileRunning
CONSTRAINT SpawnBound
CHECK_DEADLOCK FALSE
