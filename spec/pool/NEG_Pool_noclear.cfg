SPECIFICATION SpecD
CONSTANT MaxThreads = 2
CONSTANT MaxTasks = 2
CONSTANT MaxOps = 3
CONSTANT MaxSpawn = 3
CONSTANT FlagUnderMutex = TRUE
CONSTANT Expiry = FALSE
CONSTANT FinishedAtomic = TRUE
CONSTANT AllowSpurious = FALSE
CONSTANT Deviation = "noclear"
INVARIANTS TypeOK NoDeadlockD PoolBounded QueueConsistent C08Quiescent
CONSTRAINT SpawnBound
CHECK_DEADLOCK FALSE
