SPECIFICATION Spec
CONSTANT MaxThreads = 2
CONSTANT MaxTasks = 2
CONSTANT MaxOps = 3
CONSTANT MaxSpawn = 3
CONSTANT FlagUnderMutex = FALSE
CONSTANT AllowSpurious = FALSE
INVARIANTS TypeOK NoRace
CONSTRAINT SpawnBound
CHECK_DEADLOCK FALSE
