SPECIFICATION FairSpec
CONSTANT MaxThreads = 2
CONSTANT MaxTasks = 2
CONSTANT MaxOps = 3
CONSTANT MaxSpawn = 3
CONSTANT FlagUnderMutex = TRUE
CONSTANT Expiry = FALSE
CONSTANT FinishedAtomic = TRUE
CONSTANT AllowSpurious = FALSE
INVARIANTS TypeOK
PROPERTY C07live
CONSTRAINT SpawnBound
CHECK_DEADLOCK FALSE
