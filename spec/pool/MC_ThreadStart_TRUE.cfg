SPECIFICATION Spec
CONSTANT ByRef = TRUE
INVARIANTS InvokedLive Once FinishedOnlyAfter JoinAfterFinish NoDeadlock
CHECK_DEADLOCK FALSE
