SPECIFICATION Spec
CONSTANT ByRef = TRUE
CONSTANT Rounds = 1
CONSTANT ResetOnStart = TRUE
INVARIANTS InvokedLive Once FinishedOnlyAfter JoinAfterFinish NoDeadlock
CHECK_DEADLOCK FALSE
