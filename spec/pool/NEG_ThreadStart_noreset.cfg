SPECIFICATION Spec
CONSTANT ByRef = FALSE
CONSTANT Rounds = 2
CONSTANT ResetOnStart = FALSE
INVARIANTS FinishedOnlyAfter
CHECK_DEADLOCK FALSE
