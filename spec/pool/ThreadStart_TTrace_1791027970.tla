---- MODULE ThreadStart_TTrace_1791027970 ----
EXTENDS ThreadStart, Sequences, TLCExt, Toolbox, Naturals, TLC

_expression ==
    LET ThreadStart_TEExpression == INSTANCE ThreadStart_TEExpression
    IN ThreadStart_TEExpression!expression
----

_trace ==
    LET ThreadStart_TETrace == INSTANCE ThreadStart_TETrace
    IN ThreadStart_TETrace!trace
----

_inv ==
    ~(
        TLCGet("level") = Len(_TETrace)
        /\
        seenFinished = (FALSE)
        /\
        invokedOn = ("dead")
        /\
        round = (1)
        /\
        palive = (FALSE)
        /\
        tpc = ("in")
        /\
        spc = ("after")
        /\
        finished = (FALSE)
        /\
        invocations = (1)
    )
----

_init ==
    /\ invokedOn = _TETrace[1].invokedOn
    /\ spc = _TETrace[1].spc
    /\ tpc = _TETrace[1].tpc
    /\ seenFinished = _TETrace[1].seenFinished
    /\ round = _TETrace[1].round
    /\ invocations = _TETrace[1].invocations
    /\ finished = _TETrace[1].finished
    /\ palive = _TETrace[1].palive
----

_next ==
    /\ \E i,j \in DOMAIN _TETrace:
        /\ \/ /\ j = i + 1
              /\ i = TLCGet("level")
        /\ invokedOn  = _TETrace[i].invokedOn
        /\ invokedOn' = _TETrace[j].invokedOn
        /\ spc  = _TETrace[i].spc
        /\ spc' = _TETrace[j].spc
        /\ tpc  = _TETrace[i].tpc
        /\ tpc' = _TETrace[j].tpc
        /\ seenFinished  = _TETrace[i].seenFinished
        /\ seenFinished' = _TETrace[j].seenFinished
        /\ round  = _TETrace[i].round
        /\ round' = _TETrace[j].round
        /\ invocations  = _TETrace[i].invocations
        /\ invocations' = _TETrace[j].invocations
        /\ finished  = _TETrace[i].finished
        /\ finished' = _TETrace[j].finished
        /\ palive  = _TETrace[i].palive
        /\ palive' = _TETrace[j].palive

\* Uncomment the ASSUME below to write the states of the error trace
\* to the given file in Json format. Note that you can pass any tuple
\* to `JsonSerialize`. For example, a sub-sequence of _TETrace.
    \* ASSUME
    \*     LET J == INSTANCE Json
    \*         IN J!JsonSerialize("ThreadStart_TTrace_1791027970.json", _TETrace)

=============================================================================

 Note that you can extract this module `ThreadStart_TEExpression`
  to a dedicated file to reuse `expression` (the module in the 
  dedicated `ThreadStart_TEExpression.tla` file takes precedence 
  over the module `ThreadStart_TEExpression` below).

---- MODULE ThreadStart_TEExpression ----
EXTENDS ThreadStart, Sequences, TLCExt, Toolbox, Naturals, TLC

expression == 
    [
        \* To hide variables of the `ThreadStart` spec from the error trace,
        \* remove the variables below.  The trace will be written in the order
        \* of the fields of this record.
        invokedOn |-> invokedOn
        ,spc |-> spc
        ,tpc |-> tpc
        ,seenFinished |-> seenFinished
        ,round |-> round
        ,invocations |-> invocations
        ,finished |-> finished
        ,palive |-> palive
        
        \* Put additional constant-, state-, and action-level expressions here:
        \* ,_stateNumber |-> _TEPosition
        \* ,_invokedOnUnchanged |-> invokedOn = invokedOn'
        
        \* Format the `invokedOn` variable as Json value.
        \* ,_invokedOnJson |->
        \*     LET J == INSTANCE Json
        \*     IN J!ToJson(invokedOn)
        
        \* Lastly, you may build expressions over arbitrary sets of states by
        \* leveraging the _TETrace operator.  For example, this is how to
        \* count the number of times a spec variable changed up to the current
        \* state in the trace.
        \* ,_invokedOnModCount |->
        \*     LET F[s \in DOMAIN _TETrace] ==
        \*         IF s = 1 THEN 0
        \*         ELSE IF _TETrace[s].invokedOn # _TETrace[s-1].invokedOn
        \*             THEN 1 + F[s-1] ELSE F[s-1]
        \*     IN F[_TEPosition - 1]
    ]

=============================================================================



Parsing and semantic processing can take forever if the trace below is long.
 In this case, it is advised to uncomment the module below to deserialize the
 trace from a generated binary file.

\*
\*---- MODULE ThreadStart_TETrace ----
\*EXTENDS ThreadStart, IOUtils, TLC
\*
\*trace == IODeserialize("ThreadStart_TTrace_1791027970.bin", TRUE)
\*
\*=============================================================================
\*

---- MODULE ThreadStart_TETrace ----
EXTENDS ThreadStart, TLC

trace == 
    <<
    ([seenFinished |-> FALSE,invokedOn |-> "-",round |-> 1,palive |-> FALSE,tpc |-> "none",spc |-> "init",finished |-> FALSE,invocations |-> 0]),
    ([seenFinished |-> FALSE,invokedOn |-> "-",round |-> 1,palive |-> TRUE,tpc |-> "none",spc |-> "spawn",finished |-> FALSE,invocations |-> 0]),
    ([seenFinished |-> FALSE,invokedOn |-> "-",round |-> 1,palive |-> FALSE,tpc |-> "created",spc |-> "after",finished |-> FALSE,invocations |-> 0]),
    ([seenFinished |-> FALSE,invokedOn |-> "dead",round |-> 1,palive |-> FALSE,tpc |-> "in",spc |-> "after",finished |-> FALSE,invocations |-> 1])
    >>
----


=============================================================================

---- CONFIG ThreadStart_TTrace_1791027970 ----
CONSTANTS
    ByRef = TRUE
    Rounds = 1
    ResetOnStart = TRUE

INVARIANT
    _inv

CHECK_DEADLOCK
    \* CHECK_DEADLOCK off because of PROPERTY or INVARIANT above.
    FALSE

INIT
    _init

NEXT
    _next

CONSTANT
    _TETrace <- _trace

ALIAS
    _expression
=============================================================================
\* Generated on Sat Oct 03 11:46:11 UTC 2026