------------------------------ MODULE PoolImpl ------------------------------
(***************************************************************************)
(* I layer: tulz::ThreadPool (src/threading/ThreadPool.cpp) with           *)
(* non-expiring workers, one action per scheduler-visible step: a step     *)
(* starts at an intercepted pthread operation (lock, cond wait / wake-up,  *)
(* notify, create, join) or harness marker and runs to the next one.       *)
(* Thread 0 is the owner; workers are numbered in creation order.          *)
(*                                                                         *)
(*  queue, pool, running          m_queue (task ids), m_pool (worker ids), *)
(*                                m_isRunning                              *)
(*  qmx, pmx                      owner of m_queueMutex / m_poolMutex      *)
(*                                (-1 = free)                              *)
(*  cv, woken                     wait set of m_condition / woken waiters  *)
(*  opc, oarg                     owner: control location, current task /  *)
(*                                join index                               *)
(*  wpc, wtask                    workers: control location, running task  *)
(*  tstate                        ghost: life cycle of every task          *)
(*                                                                         *)
(* FlagUnderMutex = FALSE models stop() as it was before the fix (the flag *)
(* is cleared without m_queueMutex): kept as a named deviation.            *)
(***************************************************************************)
EXTENDS Integers, Sequences, FiniteSets
CONSTANTS MaxThreads,      \* setMaxThreadCount
          MaxTasks, MaxOps, MaxSpawn,
          FlagUnderMutex, AllowSpurious,
          Expiry,          \* workers expire (setExpiryTimeout >= 0) and the owner may call update()
          FinishedAtomic   \* Thread::m_isFinished is std::atomic (FALSE = the plain bool it was before the fix)
VARIABLES queue, pool, running, qmx, pmx, cv, woken, opc, oarg, wpc, wtask, tstate,
          nextTask, nextW, opsLeft, finalDone,
          expired,         \* workers whose idle time exceeds the expiry timeout (virtual clock)
          bornExpired      \* the clock passed the timeout between `new PooledThread()` (which stamps the activity time,
                           \* in the SPool step) and the creation of its thread (SCreate)
vars == <<queue, pool, running, qmx, pmx, cv, woken, opc, oarg, wpc, wtask, tstate, nextTask, nextW, opsLeft, finalDone, expired, bornExpired>>

Workers == 1..MaxSpawn
Tasks == 1..MaxTasks

TypeOK == /\ queue \in Seq(Tasks) /\ pool \in Seq(Workers) /\ running \in BOOLEAN
          /\ qmx \in {-1} \cup Workers /\ pmx \in {-1, 0}
          /\ cv \subseteq Workers /\ woken \subseteq Workers
          /\ opc \in {"idle", "s_lockq", "s_lockpool", "s_create", "s_notify", "c_lockq",
                      "t_flag", "t_notify", "t_lockpool", "t_join", "t_lockq", "done",
                      "u_notify", "u_lockpool", "u_join"}
          /\ wpc \in [Workers -> {"none", "start", "lockq", "prewait", "wait", "run", "done", "joined"}]
          /\ wtask \in [Workers -> Tasks \cup {0}]
          /\ tstate \in [Tasks -> {"none", "new", "queued", "running", "destroyed"}]

Init == /\ queue = <<>> /\ pool = <<>> /\ running = TRUE /\ qmx = -1 /\ pmx = -1
        /\ cv = {} /\ woken = {} /\ opc = "idle" /\ oarg = 0
        /\ wpc = [w \in Workers |-> "none"] /\ wtask = [w \in Workers |-> 0]
        /\ tstate = [k \in Tasks |-> "none"]
        /\ nextTask = 1 /\ nextW = 1 /\ opsLeft = MaxOps /\ finalDone = FALSE /\ expired = {} /\ bornExpired = FALSE

Range(s) == {s[i] : i \in 1..Len(s)}
Finished(w) == wpc[w] \in {"done", "joined"}       \* Thread::m_isFinished

(* ---------------- owner: start(task) ---------------- *)
SCall == /\ opc = "idle" /\ opsLeft > 0 /\ nextTask <= MaxTasks
         /\ running' = TRUE                                   \* plain write, no mutex
         /\ oarg' = nextTask /\ nextTask' = nextTask + 1 /\ opsLeft' = opsLeft - 1
         /\ tstate' = [tstate EXCEPT ![nextTask] = "new"]
         /\ opc' = "s_lockq"
         /\ UNCHANGED <<queue, pool, qmx, pmx, cv, woken, wpc, wtask, nextW, finalDone, expired, bornExpired>>
SPush == /\ opc = "s_lockq" /\ qmx = -1
         /\ queue' = Append(queue, oarg) /\ tstate' = [tstate EXCEPT ![oarg] = "queued"]
         /\ opc' = "s_lockpool"
         /\ UNCHANGED <<pool, running, qmx, pmx, cv, woken, oarg, wpc, wtask, nextTask, nextW, opsLeft, finalDone, expired, bornExpired>>
SPool == /\ opc = "s_lockpool" /\ pmx = -1
         /\ IF Len(pool) < MaxThreads /\ \A w \in Range(pool) : ~Finished(w)
            THEN pmx' = 0 /\ opc' = "s_create"
            ELSE pmx' = -1 /\ opc' = "s_notify"
         /\ UNCHANGED <<queue, pool, running, qmx, cv, woken, oarg, wpc, wtask, tstate, nextTask, nextW, opsLeft, finalDone, expired, bornExpired>>
SCreate == /\ opc = "s_create" /\ nextW <= MaxSpawn
           /\ wpc' = [wpc EXCEPT ![nextW] = "start"] /\ pool' = Append(pool, nextW) /\ nextW' = nextW + 1
           /\ pmx' = -1 /\ opc' = "s_notify"
           /\ expired' = IF bornExpired THEN expired \cup {nextW} ELSE expired
           /\ bornExpired' = FALSE
           /\ UNCHANGED <<queue, running, qmx, cv, woken, oarg, wtask, tstate, nextTask, opsLeft, finalDone>>
SNotify(w) == /\ opc = "s_notify"
              /\ IF cv = {} THEN w = 0 /\ UNCHANGED <<cv, woken>>
                            ELSE w \in cv /\ cv' = cv \ {w} /\ woken' = woken \cup {w}
              /\ opc' = "idle"
              /\ UNCHANGED <<queue, pool, running, qmx, pmx, oarg, wpc, wtask, tstate, nextTask, nextW, opsLeft, finalDone, expired, bornExpired>>

(* ---------------- owner: clear() ---------------- *)
DestroyQueued == [k \in Tasks |-> IF tstate[k] = "queued" THEN "destroyed" ELSE tstate[k]]
CCall == /\ opc = "idle" /\ opsLeft > 0
         /\ opsLeft' = opsLeft - 1 /\ opc' = "c_lockq"
         /\ UNCHANGED <<queue, pool, running, qmx, pmx, cv, woken, oarg, wpc, wtask, tstate, nextTask, nextW, finalDone, expired, bornExpired>>
CClear == /\ opc = "c_lockq" /\ qmx = -1
          /\ tstate' = DestroyQueued /\ queue' = <<>> /\ opc' = "idle"
          /\ UNCHANGED <<pool, running, qmx, pmx, cv, woken, oarg, wpc, wtask, nextTask, nextW, opsLeft, finalDone, expired, bornExpired>>

(* ---------------- owner: stop() ---------------- *)
TCall == /\ opc = "idle" /\ (opsLeft > 0 \/ ~finalDone)
         /\ IF opsLeft > 0 THEN opsLeft' = opsLeft - 1 /\ UNCHANGED finalDone
                           ELSE finalDone' = TRUE /\ UNCHANGED opsLeft
         /\ IF FlagUnderMutex THEN opc' = "t_flag" /\ UNCHANGED running
                              ELSE opc' = "t_notify" /\ running' = FALSE
         /\ UNCHANGED <<queue, pool, qmx, pmx, cv, woken, oarg, wpc, wtask, tstate, nextTask, nextW, expired, bornExpired>>
TFlag == /\ opc = "t_flag" /\ qmx = -1
         /\ running' = FALSE /\ opc' = "t_notify"
         /\ UNCHANGED <<queue, pool, qmx, pmx, cv, woken, oarg, wpc, wtask, tstate, nextTask, nextW, opsLeft, finalDone, expired, bornExpired>>
TNotify == /\ opc = "t_notify"
           /\ woken' = woken \cup cv /\ cv' = {} /\ opc' = "t_lockpool"
           /\ UNCHANGED <<queue, pool, running, qmx, pmx, oarg, wpc, wtask, tstate, nextTask, nextW, opsLeft, finalDone, expired, bornExpired>>
TLockPool == /\ opc = "t_lockpool" /\ pmx = -1
             /\ IF pool = <<>> THEN opc' = "t_lockq" /\ UNCHANGED <<pmx, oarg>>
                               ELSE pmx' = 0 /\ opc' = "t_join" /\ oarg' = 1
             /\ UNCHANGED <<queue, pool, running, qmx, cv, woken, wpc, wtask, tstate, nextTask, nextW, opsLeft, finalDone, expired, bornExpired>>
TJoin == /\ opc = "t_join" /\ wpc[pool[oarg]] = "done"
         /\ wpc' = [wpc EXCEPT ![pool[oarg]] = "joined"]
         /\ IF oarg < Len(pool) THEN oarg' = oarg + 1 /\ UNCHANGED <<pool, pmx, opc>>
                                ELSE pool' = <<>> /\ pmx' = -1 /\ opc' = "t_lockq" /\ oarg' = 0
         /\ UNCHANGED <<queue, running, qmx, cv, woken, wtask, tstate, nextTask, nextW, opsLeft, finalDone, expired, bornExpired>>
TClearQ == /\ opc = "t_lockq" /\ qmx = -1
           /\ tstate' = DestroyQueued /\ queue' = <<>>
           /\ opc' = IF finalDone THEN "done" ELSE "idle"
           /\ UNCHANGED <<pool, running, qmx, pmx, cv, woken, oarg, wpc, wtask, nextTask, nextW, opsLeft, finalDone, expired, bornExpired>>

(* ---------------- workers: PooledRunnable::run() ---------------- *)
\* the wait predicate and what follows it, evaluated with m_queueMutex held
IsExpired(w) == Expiry /\ w \in expired
Eval(w) == IF queue # <<>> \/ ~running \/ IsExpired(w)
           THEN IF ~running \/ (queue = <<>> /\ IsExpired(w))
                THEN /\ wpc' = [wpc EXCEPT ![w] = "done"]      \* return; delete PooledRunnable; m_isFinished = true
                     /\ qmx' = -1 /\ UNCHANGED <<queue, wtask, tstate>>
                ELSE /\ wtask' = [wtask EXCEPT ![w] = Head(queue)] /\ queue' = Tail(queue)
                     /\ tstate' = [tstate EXCEPT ![Head(queue)] = "running"]
                     /\ wpc' = [wpc EXCEPT ![w] = "run"] /\ qmx' = -1
           ELSE /\ qmx' = w /\ wpc' = [wpc EXCEPT ![w] = "prewait"]   \* about to call pthread_cond_wait
                /\ UNCHANGED <<queue, wtask, tstate>>
WStart(w) == /\ wpc[w] = "start" /\ wpc' = [wpc EXCEPT ![w] = "lockq"]
             /\ UNCHANGED <<queue, pool, running, qmx, pmx, cv, woken, opc, oarg, wtask, tstate, nextTask, nextW, opsLeft, finalDone, expired, bornExpired>>
WAcq(w) == /\ wpc[w] = "lockq" /\ qmx = -1 /\ Eval(w)
           /\ UNCHANGED <<pool, running, pmx, cv, woken, opc, oarg, nextTask, nextW, opsLeft, finalDone, expired, bornExpired>>
WBlock(w) == /\ wpc[w] = "prewait"
             /\ qmx' = -1 /\ cv' = cv \cup {w} /\ wpc' = [wpc EXCEPT ![w] = "wait"]
             /\ UNCHANGED <<queue, pool, running, pmx, woken, opc, oarg, wtask, tstate, nextTask, nextW, opsLeft, finalDone, expired, bornExpired>>
WWake(w) == /\ wpc[w] = "wait" /\ w \in woken /\ qmx = -1
            /\ woken' = woken \ {w} /\ Eval(w)
            /\ UNCHANGED <<pool, running, pmx, cv, opc, oarg, nextTask, nextW, opsLeft, finalDone, expired, bornExpired>>
WRunEnd(w) == /\ wpc[w] = "run"
              /\ tstate' = [tstate EXCEPT ![wtask[w]] = "destroyed"]     \* run() returned, then `delete runnable`
              /\ wtask' = [wtask EXCEPT ![w] = 0] /\ wpc' = [wpc EXCEPT ![w] = "lockq"]
              /\ expired' = expired \ {w}                                     \* setLastActiveTime(time())
              /\ UNCHANGED <<queue, pool, running, qmx, pmx, cv, woken, opc, oarg, nextTask, nextW, opsLeft, finalDone, bornExpired>>
Spurious(w) == /\ AllowSpurious /\ wpc[w] = "wait" /\ w \in cv
               /\ cv' = cv \ {w} /\ woken' = woken \cup {w}
               /\ UNCHANGED <<queue, pool, running, qmx, pmx, opc, oarg, wpc, wtask, tstate, nextTask, nextW, opsLeft, finalDone, expired, bornExpired>>


(* ---------------- expiry: the virtual clock and update() ---------------- *)
\* the clock moves past the expiry timeout: every worker that exists now has been idle too long
\* (a worker that finishes a task afterwards is fresh again, and so is every worker created later)
Tick == /\ Expiry /\ opsLeft > 0
        /\ expired' = {w \in Workers : wpc[w] \in {"start", "lockq", "prewait", "wait", "run"}}
        /\ bornExpired' = (opc = "s_create")
        /\ (expired' # expired \/ bornExpired' # bornExpired)
        /\ UNCHANGED <<queue, pool, running, qmx, pmx, cv, woken, opc, oarg, wpc, wtask, tstate, nextTask, nextW, opsLeft, finalDone>>
\* update(): wake everybody so that expired workers leave, then reap the finished threads
UCall == /\ Expiry /\ opc = "idle" /\ opsLeft > 0
         /\ opsLeft' = opsLeft - 1 /\ opc' = "u_notify"
         /\ UNCHANGED <<queue, pool, running, qmx, pmx, cv, woken, oarg, wpc, wtask, tstate, nextTask, nextW, finalDone, expired, bornExpired>>
UNotify == /\ opc = "u_notify"
           /\ woken' = woken \cup cv /\ cv' = {} /\ opc' = "u_lockpool"
           /\ UNCHANGED <<queue, pool, running, qmx, pmx, oarg, wpc, wtask, tstate, nextTask, nextW, opsLeft, finalDone, expired, bornExpired>>
FirstFinished(p, from) == IF \E i \in from..Len(p) : Finished(p[i])
                          THEN CHOOSE i \in from..Len(p) : Finished(p[i]) /\ \A j \in from..(i - 1) : ~Finished(p[j])
                          ELSE 0
ULockPool == /\ opc = "u_lockpool" /\ pmx = -1
             /\ LET i == FirstFinished(pool, 1) IN
                IF i = 0 THEN opc' = "idle" /\ UNCHANGED <<pmx, oarg>>
                         ELSE pmx' = 0 /\ opc' = "u_join" /\ oarg' = i
             /\ UNCHANGED <<queue, pool, running, qmx, cv, woken, wpc, wtask, tstate, nextTask, nextW, opsLeft, finalDone, expired, bornExpired>>
Without(p, i) == SubSeq(p, 1, i - 1) \o SubSeq(p, i + 1, Len(p))
UJoin == /\ opc = "u_join" /\ wpc[pool[oarg]] = "done"
         /\ wpc' = [wpc EXCEPT ![pool[oarg]] = "joined"]
         /\ pool' = Without(pool, oarg)
         /\ LET i == FirstFinished(pool', oarg) IN     \* the scan continues with the element that moved into this place
            IF i = 0 THEN pmx' = -1 /\ opc' = "idle" /\ oarg' = 0
                     ELSE oarg' = i /\ UNCHANGED <<pmx, opc>>
         /\ UNCHANGED <<queue, running, qmx, cv, woken, wtask, tstate, nextTask, nextW, opsLeft, finalDone, expired, bornExpired>>

Next == \/ Tick \/ UCall \/ UNotify \/ ULockPool \/ UJoin
        \/ SCall \/ SPush \/ SPool \/ SCreate \/ \E w \in Workers \cup {0} : SNotify(w)
        \/ CCall \/ CClear
        \/ TCall \/ TFlag \/ TNotify \/ TLockPool \/ TJoin \/ TClearQ
        \/ \E w \in Workers : WStart(w) \/ WAcq(w) \/ WBlock(w) \/ WWake(w) \/ WRunEnd(w) \/ Spurious(w)
Spec == Init /\ [][Next]_vars
FairSpec == Spec /\ WF_vars(SPush \/ SPool \/ SCreate \/ (\E w \in Workers \cup {0} : SNotify(w)) \/ CClear
                            \/ TFlag \/ TNotify \/ TLockPool \/ TJoin \/ TClearQ \/ UNotify \/ ULockPool \/ UJoin)
                 /\ \A w \in Workers : WF_vars(WStart(w) \/ WAcq(w) \/ WBlock(w) \/ WWake(w) \/ WRunEnd(w))

(* ---------------- properties ---------------- *)
\* C08: stop() always terminates -- the only terminal state is "final stop returned"
NoDeadlock == (ENABLED Next) \/ opc = "done"
\* C08: the number of worker threads never exceeds the configured maximum
PoolBounded == Len(pool) <= MaxThreads
LiveWorkers == {w \in Workers : wpc[w] \in {"start", "lockq", "prewait", "wait", "run"}}
\* C08: quiescent after stop() returned (owner idle, flag cleared by stop and not yet set by a new start)
AfterStop == opc \in {"idle", "done"} /\ ~running
C08Quiescent == AfterStop => /\ pool = <<>> /\ LiveWorkers = {} /\ queue = <<>>
                              /\ \A k \in Tasks : tstate[k] \in {"none", "destroyed"}
\* C07: a task is dequeued by exactly one worker, never while new / destroyed; queued tasks are in the queue
QueueConsistent == /\ \A k \in Tasks : (tstate[k] = "queued") <=> (k \in Range(queue))
                   /\ \A i, j \in 1..Len(queue) : i < j => queue[i] < queue[j]        \* submission order
                   /\ \A w, u \in Workers : w # u /\ wtask[w] # 0 => wtask[w] # wtask[u]
                   /\ \A w \in Workers : (wpc[w] = "run") <=> (wtask[w] # 0 /\ tstate[wtask[w]] = "running")
\* C07: at the end everything submitted has been destroyed
AllDestroyedAtEnd == opc = "done" => \A k \in Tasks : tstate[k] \in {"none", "destroyed"}
\* C07 liveness: a queued task is eventually run or destroyed
C07live == \A k \in Tasks : (tstate[k] = "queued") ~> (tstate[k] \in {"running", "destroyed"})

(* ---------------- C15: footprints and data-race freedom ---------------- *)
\* What the NEXT step of a thread may touch: a set of [loc, w (write?), locks]. Plain (non-atomic) shared
\* locations of ThreadPool / Thread: m_isRunning, m_queue, m_pool and m_isFinished of every worker thread.
A(loc, w, locks) == [loc |-> loc, w |-> w, locks |-> locks]
Loc(name) == <<name, 0>>           \* all locations are pairs, so that they compare
FinLoc(w) == <<"isFinished", w>>
OwnerAcc ==
    CASE opc = "idle" -> {A(Loc("running"), FALSE, {})} \cup (IF ~running THEN {A(Loc("running"), TRUE, {})} ELSE {})     \* start()
                         \cup (IF ~FlagUnderMutex THEN {A(Loc("running"), TRUE, {})} ELSE {})                       \* stop(), as it was
      [] opc = "t_flag" -> {A(Loc("running"), TRUE, {"q"})}
      [] opc \in {"s_lockq", "c_lockq", "t_lockq"} -> {A(Loc("queue"), TRUE, {"q"})}
      [] opc = "s_lockpool" -> {A(Loc("pool"), FALSE, {"p"})} \cup (IF FinishedAtomic THEN {} ELSE {A(FinLoc(w), FALSE, {"p"}) : w \in Range(pool)})
      [] opc = "s_create" -> {A(Loc("pool"), TRUE, {"p"})}
      [] opc \in {"t_lockpool"} -> {A(Loc("pool"), FALSE, {"p"})}
      [] opc = "u_lockpool" -> {A(Loc("pool"), FALSE, {"p"})} \cup (IF FinishedAtomic THEN {} ELSE {A(FinLoc(w), FALSE, {"p"}) : w \in Range(pool)})
      [] opc = "u_join" -> {A(Loc("pool"), TRUE, {"p"})}
      [] opc = "t_join" -> {A(Loc("pool"), TRUE, {"p"})}
      [] OTHER -> {}
OwnerEnabled == ENABLED (SCall \/ SPush \/ SPool \/ SCreate \/ CCall \/ CClear \/ TCall \/ TFlag \/ TLockPool \/ TJoin \/ TClearQ \/ ULockPool \/ UJoin)
WorkerAcc(w) ==
    IF wpc[w] = "lockq" \/ (wpc[w] = "wait" /\ w \in woken)
    THEN {A(Loc("queue"), TRUE, {"q"}), A(Loc("running"), FALSE, {"q"})}
         \cup (IF (~running \/ (queue = <<>> /\ IsExpired(w))) /\ ~FinishedAtomic
                THEN {A(FinLoc(w), TRUE, {})} ELSE {})                     \* exits: m_isFinished = true, no mutex
    ELSE {}
WorkerEnabled(w) == ENABLED (WAcq(w) \/ WWake(w))
\* a worker is ordered after the owner's start() by thread creation and before `delete thread` by join: the
\* accesses considered here all lie between those two points
Conflict(a, b) == a.loc = b.loc /\ (a.w \/ b.w) /\ a.locks \cap b.locks = {}
NoRace == /\ \A w \in Workers : (OwnerEnabled /\ WorkerEnabled(w)) =>
                 \A a \in OwnerAcc, b \in WorkerAcc(w) : ~Conflict(a, b)
          /\ \A w, u \in Workers : (w # u /\ WorkerEnabled(w) /\ WorkerEnabled(u)) =>
                 \A a \in WorkerAcc(w), b \in WorkerAcc(u) : ~Conflict(a, b)
MutexOK == /\ (qmx # -1 => wpc[qmx] = "prewait")
           /\ (pmx = 0 <=> opc \in {"s_create", "t_join", "u_join"})
=============================================================================
