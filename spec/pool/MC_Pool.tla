---- MODULE MC_Pool ----
EXTENDS PoolImpl
\* model bound: behaviours that would need more worker threads than MaxSpawn are cut off
SpawnBound == ~(opc = "s_create" /\ nextW > MaxSpawn)
NoDeadlockB == NoDeadlock \/ (opc = "s_create" /\ nextW > MaxSpawn)
====
