----------------------------- MODULE ResourceImpl -----------------------------
(***************************************************************************)
(* I layer: tulz::rwp::Resource as written (src/threading/rwp/Resource.cpp) *)
(* one action per critical section.  Variables carry the names of the      *)
(* fields they model.                                                      *)
(*                                                                         *)
(*   LockEnter(t,k)  lock(): lines 28-46, fast path or ticket+enqueue+park *)
(*   Recheck(t)      a woken waiter re-acquires m_mutex and re-evaluates   *)
(*                   `id < m_upperUnlockBound`                             *)
(*   UnlockCS(t)     unlock(): lines 49-56, with select() when count -> 0  *)
(*   NotifyAll(t)    line 57, *outside* the mutex, hence its own step      *)
(*   Spurious(t)     POSIX allows a waiter to wake up uninvited            *)
(*                                                                         *)
(* CountAtWake = TRUE models the algorithm as it was before the fix        *)
(* (admitted waiters are counted when they wake up, not when they are      *)
(* admitted): kept as a named deviation so that the counterexample that    *)
(* justified the fix stays reproducible.                                   *)
(***************************************************************************)
EXTENDS Naturals, Sequences, FiniteSets, TLC
CONSTANTS Threads, MaxOps, CountAtWake, AllowSpurious
VARIABLES queue, activeOp, activeCount, idCounter, bound,   \* the object
          pc, kind, myid, woken, opsLeft                    \* the threads
ovars == <<queue, activeOp, activeCount, idCounter, bound>>
tvars == <<pc, kind, myid, woken, opsLeft>>
vars == <<ovars, tvars>>

Kinds == {"Read", "Write"}

TypeOK == /\ queue \in Seq([type : Kinds, ub : Nat])
          /\ activeOp \in Kinds \cup {"None"}
          /\ activeCount \in Nat /\ idCounter \in Nat /\ bound \in Nat
          /\ pc \in [Threads -> {"idle", "waiting", "held", "notify"}]
          /\ kind \in [Threads -> Kinds]
          /\ myid \in [Threads -> Nat]
          /\ woken \in [Threads -> BOOLEAN]
          /\ opsLeft \in [Threads -> 0..MaxOps]

Init == /\ queue = <<>> /\ activeOp = "None" /\ activeCount = 0 /\ idCounter = 0 /\ bound = 0
        /\ pc = [t \in Threads |-> "idle"]
        /\ kind = [t \in Threads |-> "Read"]
        /\ myid = [t \in Threads |-> 0]
        /\ woken = [t \in Threads |-> FALSE]
        /\ opsLeft = [t \in Threads |-> MaxOps]

\* enqueue(opType) with m_idCounter already incremented to `idc`
Enqueue(q, k, idc) ==
    IF q = <<>> \/ k = "Write" THEN Append(q, [type |-> k, ub |-> idc])
    ELSE IF q[Len(q)].type = "Read" THEN [q EXCEPT ![Len(q)].ub = idc]
    ELSE Append(q, [type |-> "Read", ub |-> idc])

LockEnter(t, k) ==
    /\ pc[t] = "idle" /\ opsLeft[t] > 0
    /\ kind' = [kind EXCEPT ![t] = k]
    /\ IF queue = <<>> /\ (activeOp = "None" \/ (activeOp = k /\ k = "Read"))
       THEN /\ activeOp' = k
            /\ activeCount' = activeCount + 1
            /\ pc' = [pc EXCEPT ![t] = "held"]
            /\ UNCHANGED <<queue, idCounter, bound, myid, woken, opsLeft>>
       ELSE /\ myid' = [myid EXCEPT ![t] = idCounter]
            /\ idCounter' = idCounter + 1
            /\ queue' = Enqueue(queue, k, idCounter + 1)
            \* wait(lock, pred): the predicate is evaluated once before blocking; a fresh ticket
            \* is never below the bound (TicketsAboveBound), so the thread parks
            /\ pc' = [pc EXCEPT ![t] = "waiting"]
            /\ woken' = [woken EXCEPT ![t] = FALSE]
            /\ UNCHANGED <<activeOp, activeCount, bound, opsLeft>>

Recheck(t) ==
    /\ pc[t] = "waiting" /\ woken[t]
    /\ IF myid[t] < bound
       THEN /\ pc' = [pc EXCEPT ![t] = "held"]
            /\ activeCount' = IF CountAtWake THEN activeCount + 1 ELSE activeCount
            /\ myid' = [myid EXCEPT ![t] = 0]      \* the ticket is a local of lock(): dead from here on
       ELSE /\ UNCHANGED <<pc, activeCount, myid>>
    /\ woken' = [woken EXCEPT ![t] = FALSE]
    /\ UNCHANGED <<queue, activeOp, idCounter, bound, kind, opsLeft>>

UnlockCS(t) ==
    /\ pc[t] = "held"
    /\ IF activeCount - 1 = 0
       THEN /\ pc' = [pc EXCEPT ![t] = "notify"]
            /\ IF queue = <<>>
               THEN /\ activeOp' = "None" /\ idCounter' = 0 /\ bound' = 0 /\ activeCount' = 0
                    /\ UNCHANGED queue
               ELSE /\ activeOp' = Head(queue).type
                    /\ bound' = Head(queue).ub
                    /\ activeCount' = IF CountAtWake THEN 0 ELSE Head(queue).ub - bound
                    /\ queue' = Tail(queue)
                    /\ UNCHANGED idCounter
            /\ UNCHANGED opsLeft
            /\ UNCHANGED kind
       ELSE /\ activeCount' = activeCount - 1
            /\ pc' = [pc EXCEPT ![t] = "idle"]
            /\ opsLeft' = [opsLeft EXCEPT ![t] = @ - 1]
            /\ kind' = [kind EXCEPT ![t] = "Read"]   \* canonical value while idle
            /\ UNCHANGED <<queue, activeOp, idCounter, bound>>
    /\ UNCHANGED <<myid, woken>>

NotifyAll(t) ==
    /\ pc[t] = "notify"
    /\ woken' = [u \in Threads |-> IF pc[u] = "waiting" THEN TRUE ELSE woken[u]]
    /\ pc' = [pc EXCEPT ![t] = "idle"]
    /\ opsLeft' = [opsLeft EXCEPT ![t] = @ - 1]
    /\ kind' = [kind EXCEPT ![t] = "Read"]
    /\ UNCHANGED <<ovars, myid>>

Spurious(t) ==
    /\ AllowSpurious
    /\ pc[t] = "waiting" /\ ~woken[t]
    /\ woken' = [woken EXCEPT ![t] = TRUE]
    /\ UNCHANGED <<ovars, pc, kind, myid, opsLeft>>

Next == \E t \in Threads : \/ \E k \in Kinds : LockEnter(t, k)
                           \/ Recheck(t) \/ UnlockCS(t) \/ NotifyAll(t) \/ Spurious(t)
Spec == Init /\ [][Next]_vars
FairSpec == Spec /\ \A t \in Threads :
              WF_vars(Recheck(t)) /\ WF_vars(UnlockCS(t)) /\ WF_vars(NotifyAll(t))

Done == \A t \in Threads : pc[t] = "idle" /\ opsLeft[t] = 0
\* the only allowed terminal state: every program finished (C02, safety half)
NoDeadlock == (ENABLED Next) \/ Done

(* ---- refinement to the property layer ---- *)
Admitted(t) == pc[t] = "held" \/ (pc[t] = "waiting" /\ myid[t] < bound)
PendSet == {t \in Threads : pc[t] = "waiting" /\ myid[t] >= bound}
SortById(S) == LET n == Cardinality(S)
                   s == CHOOSE f \in [1..n -> S] : \A i, j \in 1..n : i < j => myid[f[i]] < myid[f[j]]
               IN [i \in 1..n |-> [t |-> s[i], k |-> kind[s[i]]]]
P == INSTANCE RWLock WITH
       active <- [t \in Threads |-> IF Admitted(t) THEN kind[t] ELSE "-"],
       returned <- {t \in Threads : pc[t] = "held"},
       pending <- SortById(PendSet)
Refines == P!PSpec

(* ---- the inductive invariant that Apalache proves for the unbounded algorithm (apalache/ResourceInd.tla), ---- *)
(* ---- checked here by TLC on the model that is replayed against the code                                   ---- *)
Pending(t) == pc[t] = "waiting" /\ myid[t] >= bound
AdmittedSet == {t \in Threads : Admitted(t)}
Lo(i) == IF i = 1 THEN bound ELSE queue[i - 1].ub
IndInv12 ==
    /\ bound <= idCounter
    /\ activeCount = Cardinality(AdmittedSet)
    /\ (activeOp = "None") <=> (AdmittedSet = {})
    /\ activeOp = "None" => Len(queue) = 0 /\ idCounter = 0 /\ bound = 0
    /\ \A t \in AdmittedSet : kind[t] = activeOp
    /\ activeOp = "Write" => Cardinality(AdmittedSet) <= 1
    /\ \A t \in Threads : pc[t] = "waiting" => myid[t] < idCounter
    /\ \A t, u \in Threads : (Pending(t) /\ Pending(u) /\ t # u) => myid[t] # myid[u]
    /\ Cardinality({t \in Threads : Pending(t)}) = idCounter - bound
    /\ (Len(queue) = 0) <=> (idCounter = bound)
    /\ Len(queue) > 0 => queue[Len(queue)].ub = idCounter
    /\ \A i \in DOMAIN queue : Lo(i) < queue[i].ub
    /\ \A i \in DOMAIN queue : queue[i].type = "Write" => queue[i].ub = Lo(i) + 1
    /\ \A t \in Threads : Pending(t) =>
          \E i \in DOMAIN queue : Lo(i) <= myid[t] /\ myid[t] < queue[i].ub /\ queue[i].type = kind[t]
    /\ \A i \in DOMAIN queue : i > 1 => ~(queue[i].type = "Read" /\ queue[i - 1].type = "Read")
    /\ (Len(queue) > 0 /\ queue[1].type = "Read") => activeOp = "Write"

(* ---- the listed properties on I ---- *)
Holders == {t \in Threads : pc[t] = "held"}
C01 == \A w \in Holders : kind[w] = "Write" => Holders = {w}
C01P == P!C01a
C12P == P!C12inv /\ P!C12batch
C02Quiescent == (\A t \in Threads : pc[t] = "idle")
                  => activeOp = "None" /\ queue = <<>> /\ idCounter = 0 /\ bound = 0 /\ activeCount = 0
C02live == \A t \in Threads : (pc[t] = "waiting") ~> (pc[t] = "held")
\* structural invariants of the ticket scheme (what the fix relies on)
TicketsAboveBound == \A t \in Threads : pc[t] = "waiting" => myid[t] < idCounter
CountMatches == ~CountAtWake => activeCount = Cardinality({t \in Threads : Admitted(t)})
UniqueTickets == \A t, u \in Threads : pc[t] = "waiting" /\ pc[u] = "waiting" /\ t # u => myid[t] # myid[u]
ActiveOpMatches == \A t \in Threads : Admitted(t) => activeOp = kind[t]
=============================================================================
