SPECIFICATION TSpec
CONSTANT Threads <- TraceThreads
CONSTANT Mode = "lazy"
INVARIANTS Accepted Progress
CHECK_DEADLOCK FALSE
