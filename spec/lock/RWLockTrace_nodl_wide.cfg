SPECIFICATION TSpec
CONSTANT Threads <- WideThreads
CONSTANT Mode = "nodl"
INVARIANTS Accepted Progress
CHECK_DEADLOCK FALSE
