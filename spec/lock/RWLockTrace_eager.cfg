SPECIFICATION TSpec
CONSTANT Threads <- TraceThreads
CONSTANT Mode = "eager"
INVARIANTS Accepted Progress
CHECK_DEADLOCK FALSE
