---- MODULE MC_RWLock ----
EXTENDS RWLock, TLC
CONSTANTS t1, t2, t3, t4
MCThreads3 == {t1, t2, t3}
MCThreads4 == {t1, t2, t3, t4}
Sym3 == Permutations(MCThreads3)
Sym4 == Permutations(MCThreads4)
====
