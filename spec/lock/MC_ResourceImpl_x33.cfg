SPECIFICATION Spec
CONSTANTS t1 = t1  t2 = t2  t3 = t3  t4 = t4
CONSTANT Threads <- MCThreads3
CONSTANT MaxOps = 3
CONSTANT CountAtWake = FALSE
CONSTANT AllowSpurious = FALSE
INVARIANTS TypeOK C01 NoDeadlock
CHECK_DEADLOCK FALSE
