SPECIFICATION PSpec
CONSTANTS t1 = t1  t2 = t2  t3 = t3  t4 = t4
CONSTANT Threads <- MCThreads4
INVARIANTS PTypeOK C01 C01a C12inv C12batch C02inv
PROPERTY C03step
CHECK_DEADLOCK FALSE
