----------------------------- MODULE ResourceInd -----------------------------
(***************************************************************************)
(* The algorithm of ResourceImpl.tla (CountAtWake = FALSE, spurious        *)
(* wake-ups allowed) WITHOUT the bound on the number of operations per     *)
(* thread, annotated for Apalache.  IndInv is an inductive invariant:      *)
(*   Init => IndInv              (apalache-mc check --init=Init --length=0) *)
(*   IndInv /\ Next => IndInv'   (--init=IndInit --inv=IndInv --length=1)   *)
(* and IndInv => C01.  It therefore holds after ANY number of lock/unlock  *)
(* pairs and for arbitrarily large ticket values (TLC's exhaustive runs of *)
(* ResourceImpl bound both through MaxOps); the number of threads is fixed *)
(* by the constant.                                                        *)
(***************************************************************************)
EXTENDS Integers, Sequences, FiniteSets, Apalache

CONSTANTS
    \* @type: Set(Int);
    Threads,
    \* @type: Bool;
    CountAtWake     \* TRUE: the algorithm as it was before fix 0d7aa32 (admitted waiters counted when they wake up)

VARIABLES
    \* @type: Seq({ type: Str, ub: Int });
    queue,
    \* @type: Str;
    activeOp,
    \* @type: Int;
    activeCount,
    \* @type: Int;
    idCounter,
    \* @type: Int;
    bound,
    \* @type: Int -> Str;
    pc,
    \* @type: Int -> Str;
    kind,
    \* @type: Int -> Int;
    myid,
    \* @type: Int -> Bool;
    woken

vars == <<queue, activeOp, activeCount, idCounter, bound, pc, kind, myid, woken>>

Kinds == {"Read", "Write"}
N == Cardinality(Threads)

CInit == Threads = {1, 2, 3} /\ CountAtWake = FALSE
CInit4 == Threads = {1, 2, 3, 4} /\ CountAtWake = FALSE
CInitOld == Threads = {1, 2, 3} /\ CountAtWake = TRUE

Init == /\ queue = <<>> /\ activeOp = "None" /\ activeCount = 0 /\ idCounter = 0 /\ bound = 0
        /\ pc = [t \in Threads |-> "idle"]
        /\ kind = [t \in Threads |-> "Read"]
        /\ myid = [t \in Threads |-> 0]
        /\ woken = [t \in Threads |-> FALSE]

\* @type: (Seq({ type: Str, ub: Int }), Str, Int) => Seq({ type: Str, ub: Int });
Enqueue(q, k, idc) ==
    IF Len(q) = 0 \/ k = "Write" THEN Append(q, [type |-> k, ub |-> idc])
    ELSE IF q[Len(q)].type = "Read" THEN [q EXCEPT ![Len(q)] = [type |-> "Read", ub |-> idc]]
    ELSE Append(q, [type |-> "Read", ub |-> idc])

LockEnter(t, k) ==
    /\ pc[t] = "idle"
    /\ kind' = [kind EXCEPT ![t] = k]
    /\ IF Len(queue) = 0 /\ (activeOp = "None" \/ (activeOp = k /\ k = "Read"))
       THEN /\ activeOp' = k
            /\ activeCount' = activeCount + 1
            /\ pc' = [pc EXCEPT ![t] = "held"]
            /\ UNCHANGED <<queue, idCounter, bound, myid, woken>>
       ELSE /\ myid' = [myid EXCEPT ![t] = idCounter]
            /\ idCounter' = idCounter + 1
            /\ queue' = Enqueue(queue, k, idCounter + 1)
            /\ pc' = [pc EXCEPT ![t] = "waiting"]
            /\ woken' = [woken EXCEPT ![t] = FALSE]
            /\ UNCHANGED <<activeOp, activeCount, bound>>

Recheck(t) ==
    /\ pc[t] = "waiting" /\ woken[t]
    /\ IF myid[t] < bound
       THEN /\ pc' = [pc EXCEPT ![t] = "held"]
            /\ myid' = [myid EXCEPT ![t] = 0]
            /\ activeCount' = IF CountAtWake THEN activeCount + 1 ELSE activeCount
       ELSE UNCHANGED <<pc, myid, activeCount>>
    /\ woken' = [woken EXCEPT ![t] = FALSE]
    /\ UNCHANGED <<queue, activeOp, idCounter, bound, kind>>

UnlockCS(t) ==
    /\ pc[t] = "held"
    /\ IF activeCount - 1 = 0
       THEN /\ pc' = [pc EXCEPT ![t] = "notify"]
            /\ IF Len(queue) = 0
               THEN /\ activeOp' = "None" /\ idCounter' = 0 /\ bound' = 0 /\ activeCount' = 0
                    /\ UNCHANGED queue
               ELSE /\ activeOp' = queue[1].type
                    /\ bound' = queue[1].ub
                    /\ activeCount' = IF CountAtWake THEN 0 ELSE queue[1].ub - bound
                    /\ queue' = Tail(queue)
                    /\ UNCHANGED idCounter
            /\ UNCHANGED kind
       ELSE /\ activeCount' = activeCount - 1
            /\ pc' = [pc EXCEPT ![t] = "idle"]
            /\ kind' = [kind EXCEPT ![t] = "Read"]
            /\ UNCHANGED <<queue, activeOp, idCounter, bound>>
    /\ UNCHANGED <<myid, woken>>

NotifyAll(t) ==
    /\ pc[t] = "notify"
    /\ woken' = [u \in Threads |-> IF pc[u] = "waiting" THEN TRUE ELSE woken[u]]
    /\ pc' = [pc EXCEPT ![t] = "idle"]
    /\ kind' = [kind EXCEPT ![t] = "Read"]
    /\ UNCHANGED <<queue, activeOp, activeCount, idCounter, bound, myid>>

Spurious(t) ==
    /\ pc[t] = "waiting" /\ ~woken[t]
    /\ woken' = [woken EXCEPT ![t] = TRUE]
    /\ UNCHANGED <<queue, activeOp, activeCount, idCounter, bound, pc, kind, myid>>

Next == \E t \in Threads : \/ \E k \in Kinds : LockEnter(t, k)
                           \/ Recheck(t) \/ UnlockCS(t) \/ NotifyAll(t) \/ Spurious(t)

(* ---------------------------- the invariant ---------------------------- *)
Admitted(t) == pc[t] = "held" \/ (pc[t] = "waiting" /\ myid[t] < bound)
Pending(t) == pc[t] = "waiting" /\ myid[t] >= bound
AdmittedSet == {t \in Threads : Admitted(t)}
\* lower end of the ticket range of queue entry i
Lo(i) == IF i = 1 THEN bound ELSE queue[i - 1].ub

TypeOK ==
    /\ Len(queue) <= N
    /\ \A i \in DOMAIN queue : queue[i].type \in Kinds
    /\ activeOp \in Kinds \union {"None"}
    /\ pc \in [Threads -> {"idle", "waiting", "held", "notify"}]
    /\ kind \in [Threads -> Kinds]
    /\ DOMAIN myid = Threads /\ DOMAIN woken = Threads

IndInv ==
    /\ TypeOK
    /\ 0 <= bound /\ bound <= idCounter
    \* the counter is the number of admitted requests, counted at admission
    /\ activeCount = Cardinality(AdmittedSet)
    /\ (activeOp = "None") <=> (AdmittedSet = {})
    /\ activeOp = "None" => Len(queue) = 0 /\ idCounter = 0 /\ bound = 0
    /\ \A t \in AdmittedSet : kind[t] = activeOp
    /\ activeOp = "Write" => Cardinality(AdmittedSet) <= 1
    \* tickets: admitted waiters are below the bound and non-negative, pending ones are distinct and in [bound, idCounter)
    /\ \A t \in Threads : pc[t] = "waiting" => myid[t] >= 0 /\ myid[t] < idCounter
    /\ \A t, u \in Threads : (Pending(t) /\ Pending(u) /\ t # u) => myid[t] # myid[u]
    /\ Cardinality({t \in Threads : Pending(t)}) = idCounter - bound
    \* the queue partitions [bound, idCounter) into consecutive non-empty ranges
    /\ (Len(queue) = 0) <=> (idCounter = bound)
    /\ Len(queue) > 0 => queue[Len(queue)].ub = idCounter
    /\ \A i \in DOMAIN queue : Lo(i) < queue[i].ub
    /\ \A i \in DOMAIN queue : queue[i].type = "Write" => queue[i].ub = Lo(i) + 1
    \* a pending request sits in the range of an entry of its own kind
    /\ \A t \in Threads : Pending(t) =>
          \E i \in DOMAIN queue : Lo(i) <= myid[t] /\ myid[t] < queue[i].ub /\ queue[i].type = kind[t]

\* C12 on the algorithm: consecutive readers share one entry, and readers only ever queue behind a writer
IndInv12 ==
    /\ IndInv
    /\ \A i \in DOMAIN queue : i > 1 => ~(queue[i].type = "Read" /\ queue[i - 1].type = "Read")
    /\ (Len(queue) > 0 /\ queue[1].type = "Read") => activeOp = "Write"
\* nobody is parked unless a writer is active or parked
C12inv == (\E t \in Threads : Pending(t)) => (activeOp = "Write" \/ \E i \in DOMAIN queue : queue[i].type = "Write")
IndInit12 ==
    /\ queue = Gen(4) /\ activeOp = Gen(1) /\ activeCount = Gen(1) /\ idCounter = Gen(1) /\ bound = Gen(1)
    /\ pc = Gen(4) /\ kind = Gen(4) /\ myid = Gen(4) /\ woken = Gen(4)
    /\ IndInv12

\* the inductive step starts from an arbitrary state of the right shape that satisfies IndInv
IndInit ==
    /\ queue = Gen(4) /\ activeOp = Gen(1) /\ activeCount = Gen(1) /\ idCounter = Gen(1) /\ bound = Gen(1)
    /\ pc = Gen(4) /\ kind = Gen(4) /\ myid = Gen(4) /\ woken = Gen(4)
    /\ IndInv

(* ------------------------------- C01 ----------------------------------- *)
Holders == {t \in Threads : pc[t] = "held"}
C01 == \A w \in Holders : kind[w] = "Write" => Holders = {w}
\* IndInv => C01 is checked as an invariant of the one-step system that starts in IndInit

(* vacuity guards: each of these "invariants" must be VIOLATED from IndInit at length 0, i.e. IndInit admits such states *)
NoDeepQueue == ~(Len(queue) = 2 /\ activeOp = "Write" /\ idCounter > 5 /\ bound > 2)
NoAdmittedSleeper == ~(\E t \in Threads : pc[t] = "waiting" /\ myid[t] < bound /\ ~woken[t])
NoReaderBatch == ~(activeOp = "Read" /\ activeCount = 3)
=============================================================================
