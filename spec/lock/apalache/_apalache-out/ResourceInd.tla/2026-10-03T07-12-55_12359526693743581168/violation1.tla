---------------------------- MODULE counterexample ----------------------------

EXTENDS ResourceInd

(* Constant initialization state *)
ConstInit == Threads = { 1, 2, 3 }

(* Initial state [_transition(0)] *)
State0 ==
  Threads = { 1, 2, 3 }
    /\ activeCount = 2
    /\ activeOp = "Read"
    /\ bound = 4
    /\ idCounter = 4
    /\ kind = SetAsFun({ <<1, "Read">>, <<2, "Read">>, <<3, "Read">> })
    /\ myid = SetAsFun({ <<1, 2>>, <<2, 1>>, <<3, 0>> })
    /\ pc = SetAsFun({ <<1, "notify">>, <<2, "waiting">>, <<3, "waiting">> })
    /\ queue = <<>>
    /\ woken = SetAsFun({ <<1, FALSE>>, <<2, FALSE>>, <<3, FALSE>> })

(* The following formula holds true in the last state and violates the invariant *)
InvariantViolation ==
  Skolem((\E t_20 \in Threads:
    (pc[t_20] = "waiting" /\ myid[t_20] < bound) /\ ~(woken[t_20])))

================================================================================
(* Created by Apalache on Sat Oct 03 07:12:58 UTC 2026 *)
(* https://github.com/apalache-mc/apalache *)
