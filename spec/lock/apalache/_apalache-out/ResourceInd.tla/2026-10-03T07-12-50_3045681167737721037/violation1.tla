---------------------------- MODULE counterexample ----------------------------

EXTENDS ResourceInd

(* Constant initialization state *)
ConstInit == Threads = { 1, 2, 3 }

(* Initial state [_transition(0)] *)
State0 ==
  Threads = { 1, 2, 3 }
    /\ activeCount = 1
    /\ activeOp = "Write"
    /\ bound = 4
    /\ idCounter = 6
    /\ kind = SetAsFun({ <<1, "Write">>, <<2, "Write">>, <<3, "Write">> })
    /\ myid = SetAsFun({ <<1, 5>>, <<2, 3>>, <<3, 4>> })
    /\ pc = SetAsFun({ <<1, "waiting">>, <<2, "waiting">>, <<3, "waiting">> })
    /\ queue = <<[type |-> "Write", ub |-> 5], [type |-> "Write", ub |-> 6]>>
    /\ woken = SetAsFun({ <<1, FALSE>>, <<2, FALSE>>, <<3, FALSE>> })

(* The following formula holds true in the last state and violates the invariant *)
InvariantViolation ==
  ((Len(queue) = 2 /\ activeOp = "Write") /\ idCounter > 5) /\ bound > 2

================================================================================
(* Created by Apalache on Sat Oct 03 07:12:54 UTC 2026 *)
(* https://github.com/apalache-mc/apalache *)
