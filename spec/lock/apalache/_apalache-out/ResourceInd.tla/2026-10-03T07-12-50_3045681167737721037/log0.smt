Logging is disabled (Z3SolverContext.debug = false). Activate with --debug.
