---------------------------- MODULE counterexample ----------------------------

EXTENDS ResourceInd

(* Constant initialization state *)
ConstInit == CountAtWake = TRUE /\ Threads = { 1, 2, 3 }

(* Initial state [_transition(0)] *)
State0 ==
  CountAtWake = TRUE
    /\ Threads = { 1, 2, 3 }
    /\ activeCount = 2
    /\ activeOp = "Read"
    /\ bound = 3
    /\ idCounter = 4
    /\ kind = SetAsFun({ <<1, "Read">>, <<2, "Read">>, <<3, "Write">> })
    /\ myid = SetAsFun({ <<1, 2>>, <<2, 1>>, <<3, 3>> })
    /\ pc = SetAsFun({ <<1, "held">>, <<2, "waiting">>, <<3, "waiting">> })
    /\ queue = <<[type |-> "Write", ub |-> 4]>>
    /\ woken = SetAsFun({ <<1, FALSE>>, <<2, TRUE>>, <<3, FALSE>> })

(* State1 [_transition(3)] *)
State1 ==
  CountAtWake = TRUE
    /\ Threads = { 1, 2, 3 }
    /\ activeCount = 3
    /\ activeOp = "Read"
    /\ bound = 3
    /\ idCounter = 4
    /\ kind = SetAsFun({ <<1, "Read">>, <<2, "Read">>, <<3, "Write">> })
    /\ myid = SetAsFun({ <<1, 2>>, <<2, 0>>, <<3, 3>> })
    /\ pc = SetAsFun({ <<1, "held">>, <<2, "held">>, <<3, "waiting">> })
    /\ queue = <<[type |-> "Write", ub |-> 4]>>
    /\ woken = SetAsFun({ <<1, FALSE>>, <<2, FALSE>>, <<3, FALSE>> })

(* The following formula holds true in the last state and violates the invariant *)
InvariantViolation ==
  ~(activeCount
    = Cardinality({
      t_20 \in Threads:
        pc[t_20] = "held" \/ (pc[t_20] = "waiting" /\ myid[t_20] < bound)
    }))

================================================================================
(* Created by Apalache on Sat Oct 03 07:15:46 UTC 2026 *)
(* https://github.com/apalache-mc/apalache *)
