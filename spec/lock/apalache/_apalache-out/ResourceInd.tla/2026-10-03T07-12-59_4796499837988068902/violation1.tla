---------------------------- MODULE counterexample ----------------------------

EXTENDS ResourceInd

(* Constant initialization state *)
ConstInit == Threads = { 1, 2, 3 }

(* Initial state [_transition(0)] *)
State0 ==
  Threads = { 1, 2, 3 }
    /\ activeCount = 3
    /\ activeOp = "Read"
    /\ bound = 1
    /\ idCounter = 1
    /\ kind = SetAsFun({ <<1, "Read">>, <<2, "Read">>, <<3, "Read">> })
    /\ myid = SetAsFun({ <<1, -2>>, <<2, -1>>, <<3, 0>> })
    /\ pc = SetAsFun({ <<1, "held">>, <<2, "held">>, <<3, "held">> })
    /\ queue = <<>>
    /\ woken = SetAsFun({ <<1, FALSE>>, <<2, FALSE>>, <<3, FALSE>> })

(* The following formula holds true in the last state and violates the invariant *)
InvariantViolation == activeOp = "Read" /\ activeCount = 3

================================================================================
(* Created by Apalache on Sat Oct 03 07:13:03 UTC 2026 *)
(* https://github.com/apalache-mc/apalache *)
