SPECIFICATION TSpec
CONSTANT Threads <- WideThreads
CONSTANT Mode = "eager"
INVARIANTS Accepted Progress
CHECK_DEADLOCK FALSE
