---------------------------- MODULE RWLockTrace ----------------------------
(***************************************************************************)
(* T layer: validates executions recorded from the real tulz::rwp::Resource *)
(* (under vsched) against the property layer RWLock.                       *)
(*                                                                         *)
(* Logged events are only what a user of the lock can see plus what the    *)
(* scheduler sees at the pthread boundary:                                 *)
(*   AcqCall(t,k)  lock*() is being called        AcqRet(t)  it returned   *)
(*   RelCall(t)    unlock*() is being called      RelRet(t)  it returned   *)
(*   Parked(t)     t blocked on a condition variable inside lock*()        *)
(*   Deadlock      no thread can run and some have not finished            *)
(*   Crash         an assertion / signal ended the execution               *)
(* Where an operation takes effect between its call and its return is not  *)
(* logged: TLC places one silent Lin step per operation (so any correct    *)
(* locking scheme is accepted, whatever its internals).                    *)
(*                                                                         *)
(* Mode = "hold"  : C01 only -- no two holders unless all are readers      *)
(*        "lazy"  : C01 + C03 (+ C02: a Deadlock while the lock owes       *)
(*                  somebody progress is rejected)                         *)
(*        "eager" : RWLock proper (adds C12)                               *)
(*        "nodl"  : as "hold", and a Deadlock is never acceptable (C02 for  *)
(*                  programs whose critical sections wait for nothing)     *)
(* All executions of one batch are checked in a single TLC run: one        *)
(* initial state per execution; an accepted execution prints ACCEPTED.     *)
(***************************************************************************)
EXTENDS RWLock, TLC, Json, IOUtils
CONSTANT Mode
VARIABLES x, l, st, reqk
tvars == <<x, l, st, reqk>>

TraceThreads == (0..10) \cup {99}
WideThreads == (0..90) \cup {99}     \* the "crowd" executions: dozens of requests parked at the same time
Ev == ndJsonDeserialize(IOEnv.TRACE_EVENTS)
Ix == ndJsonDeserialize(IOEnv.TRACE_INDEX)
Diag == "TRACE_DIAG" \in DOMAIN IOEnv /\ IOEnv.TRACE_DIAG = "1"

HoldMode == Mode \in {"hold", "nodl"}

TInit == /\ x \in 1..Len(Ix) /\ l = Ix[x].s
         /\ PInit
         /\ st = [t \in Threads |-> "idle"]
         /\ reqk = [t \in Threads |-> "Read"]

IsEv(name) == l <= Ix[x].e /\ Ev[l].e = name
Adv == l' = l + 1 /\ UNCHANGED x
T == Ev[l].t

Compat(holders, k) == holders = {} \/ (k = "Read" /\ \A u \in holders : active[u] = "Read")

TAcqCall == /\ IsEv("AcqCall") /\ st[T] = "idle"
            /\ st' = [st EXCEPT ![T] = "acq"] /\ reqk' = [reqk EXCEPT ![T] = Ev[l].k]
            /\ Adv /\ UNCHANGED pvars

LinAcquire(t) == /\ ~HoldMode /\ st[t] = "acq"
                 /\ AcquireNow(t, reqk[t])
                 /\ st' = [st EXCEPT ![t] = "got"] /\ UNCHANGED <<x, l, reqk>>
LinPark(t) == /\ ~HoldMode /\ st[t] = "acq"
              /\ IF Mode = "eager" THEN Park(t, reqk[t]) ELSE LazyPark(t, reqk[t])
              /\ st' = [st EXCEPT ![t] = "parked"] /\ UNCHANGED <<x, l, reqk>>

TParked == /\ IsEv("Parked")
           /\ HoldMode \/ (st[T] = "parked" /\ T \notin returned)
           /\ Adv /\ UNCHANGED <<pvars, st, reqk>>

TAcqRet == /\ IsEv("AcqRet")
           /\ IF HoldMode
              THEN /\ st[T] = "acq" /\ Compat(returned, reqk[T])
                   /\ active' = [active EXCEPT ![T] = reqk[T]] /\ returned' = returned \cup {T}
                   /\ UNCHANGED pending
              ELSE \/ st[T] = "got" /\ UNCHANGED pvars
                   \/ st[T] = "parked" /\ Return(T)
           /\ st' = [st EXCEPT ![T] = "in"]
           /\ Adv /\ UNCHANGED reqk

TRelCall == /\ IsEv("RelCall") /\ st[T] = "in"
            /\ IF HoldMode
               THEN /\ active' = [active EXCEPT ![T] = "-"] /\ returned' = returned \ {T} /\ UNCHANGED pending
                    /\ st' = [st EXCEPT ![T] = "reld"]
               ELSE st' = [st EXCEPT ![T] = "rel"] /\ UNCHANGED pvars
            /\ Adv /\ UNCHANGED reqk

LinRelease(t) == /\ ~HoldMode /\ st[t] = "rel"
                 /\ IF Mode = "eager" THEN Release(t) ELSE LazyRelease(t)
                 /\ st' = [st EXCEPT ![t] = "reld"] /\ UNCHANGED <<x, l, reqk>>
LinAdmit == Mode = "lazy" /\ Admit /\ UNCHANGED tvars

TRelRet == /\ IsEv("RelRet") /\ st[T] = "reld"
           /\ st' = [st EXCEPT ![T] = "idle"]
           /\ Adv /\ UNCHANGED <<pvars, reqk>>

\* The real system is stuck. That is acceptable only if the lock owes nobody progress:
\* nobody is admitted-but-not-returned, and (lazy) the head of the queue is not admissible.
\* In "hold" mode deadlocks are not judged.
TDeadlock == /\ IsEv("Deadlock")
             /\ Mode # "nodl"
             /\ Mode = "hold" \/ /\ \A t \in Threads : active[t] # "-" => t \in returned
                                 /\ Mode = "lazy" => ~CanAdmitHead
             /\ Adv /\ UNCHANGED <<pvars, st, reqk>>

\* "Crash" and "TooLong" events are never enabled: an execution containing one is rejected there.

TNext == \/ TAcqCall \/ TParked \/ TAcqRet \/ TRelCall \/ TRelRet \/ TDeadlock
         \/ \E t \in Threads : LinAcquire(t) \/ LinPark(t) \/ LinRelease(t)
         \/ LinAdmit
TSpec == TInit /\ [][TNext]_<<pvars, tvars>>

Accepted == (l = Ix[x].e + 1) => PrintT(<<"ACCEPTED", x>>)
Progress == Diag => PrintT(<<"AT", x, l>>)
=============================================================================
