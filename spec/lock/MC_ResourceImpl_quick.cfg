SPECIFICATION Spec
CONSTANTS t1 = t1  t2 = t2  t3 = t3  t4 = t4
CONSTANT Threads <- MCThreads3
CONSTANT MaxOps = 2
CONSTANT CountAtWake = FALSE
CONSTANT AllowSpurious = TRUE
INVARIANTS TypeOK C01 C01P C12P C02Quiescent NoDeadlock TicketsAboveBound CountMatches UniqueTickets ActiveOpMatches IndInv12
PROPERTY Refines
CHECK_DEADLOCK FALSE
