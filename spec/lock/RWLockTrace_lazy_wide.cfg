SPECIFICATION TSpec
CONSTANT Threads <- WideThreads
CONSTANT Mode = "lazy"
INVARIANTS Accepted Progress
CHECK_DEADLOCK FALSE
