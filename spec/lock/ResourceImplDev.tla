--------------------------- MODULE ResourceImplDev ---------------------------
(***************************************************************************)
(* Named deviations of the I layer of rwp::Resource, one per property of   *)
(* the family that has no deviation of its own in ResourceImpl             *)
(* (CountAtWake stands for C01 there).  Each is a change a maintainer      *)
(* could make in Resource.cpp; TLC must refute each with the invariant or  *)
(* the refinement it was written against (tools/vnegative), which shows    *)
(* that those obligations are not vacuous on the bounded model that is     *)
(* replayed against the code.                                              *)
(*                                                                         *)
(*   "barge"     lock(): the fast path of a reader only looks at           *)
(*               m_activeOp, not at the wait queue  -> readers overtake a  *)
(*               parked writer (C03: ResourceImpl no longer refines RWLock)*)
(*   "nomerge"   enqueue(): a reader always gets a queue entry of its own  *)
(*               -> consecutive readers are admitted one at a time (C12)   *)
(*   "notifyone" unlock(): notify_one instead of notify_all -> a member of *)
(*               an admitted read batch sleeps forever (C02)               *)
(*   "none"      the algorithm as written (must pass everything)           *)
(***************************************************************************)
EXTENDS ResourceImpl
CONSTANTS Deviation, t1, t2, t3
DevThreads == {t1, t2, t3}

EnqueueD(q, k, idc) ==
    IF Deviation = "nomerge" THEN Append(q, [type |-> k, ub |-> idc]) ELSE Enqueue(q, k, idc)

FastPath(k) ==
    IF Deviation = "barge"
    THEN (queue = <<>> /\ activeOp = "None") \/ (activeOp = k /\ k = "Read")
    ELSE queue = <<>> /\ (activeOp = "None" \/ (activeOp = k /\ k = "Read"))

LockEnterD(t, k) ==
    /\ pc[t] = "idle" /\ opsLeft[t] > 0
    /\ kind' = [kind EXCEPT ![t] = k]
    /\ IF FastPath(k)
       THEN /\ activeOp' = k
            /\ activeCount' = activeCount + 1
            /\ pc' = [pc EXCEPT ![t] = "held"]
            /\ UNCHANGED <<queue, idCounter, bound, myid, woken, opsLeft>>
       ELSE /\ myid' = [myid EXCEPT ![t] = idCounter]
            /\ idCounter' = idCounter + 1
            /\ queue' = EnqueueD(queue, k, idCounter + 1)
            /\ pc' = [pc EXCEPT ![t] = "waiting"]
            /\ woken' = [woken EXCEPT ![t] = FALSE]
            /\ UNCHANGED <<activeOp, activeCount, bound, opsLeft>>

Sleepers == {u \in Threads : pc[u] = "waiting" /\ ~woken[u]}
NotifyD(t) ==
    /\ pc[t] = "notify"
    /\ IF Deviation = "notifyone" /\ Sleepers # {}
       THEN \E u \in Sleepers : woken' = [woken EXCEPT ![u] = TRUE]
       ELSE woken' = [u \in Threads |-> IF pc[u] = "waiting" THEN TRUE ELSE woken[u]]
    /\ pc' = [pc EXCEPT ![t] = "idle"]
    /\ opsLeft' = [opsLeft EXCEPT ![t] = @ - 1]
    /\ kind' = [kind EXCEPT ![t] = "Read"]
    /\ UNCHANGED <<ovars, myid>>

NextD == \E t \in Threads : \/ \E k \in Kinds : LockEnterD(t, k)
                            \/ Recheck(t) \/ UnlockCS(t) \/ NotifyD(t) \/ Spurious(t)
SpecD == Init /\ [][NextD]_vars
NoDeadlockD == (ENABLED NextD) \/ Done
=============================================================================
