SPECIFICATION TSpec
CONSTANT Threads <- WideThreads
CONSTANT Mode = "hold"
INVARIANTS Accepted Progress
CHECK_DEADLOCK FALSE
