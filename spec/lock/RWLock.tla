------------------------------- MODULE RWLock -------------------------------
(***************************************************************************)
(* P layer: the observable contract of a FIFO-fair reader/writer lock      *)
(* (tulz::rwp::Resource, properties C01 C02 C03 C12).  Nothing here names  *)
(* a field of the implementation.                                          *)
(*                                                                         *)
(*  active   : admitted requests  (thread -> "-" | "Read" | "Write")       *)
(*  returned : admitted requests whose lock*() call has returned           *)
(*  pending  : parked requests in park (= arrival) order                   *)
(*                                                                         *)
(* Admission of parked requests is part of Release (eager): when the last  *)
(* holder leaves, the maximal admissible prefix of `pending` -- one        *)
(* writer, or a run of consecutive readers -- is admitted in the same      *)
(* step.  A delayed admission would let the spec accept a reader that      *)
(* parks although it could have joined (C12).                              *)
(***************************************************************************)
EXTENDS Naturals, Sequences, FiniteSets
CONSTANT Threads
VARIABLES active, returned, pending
pvars == <<active, returned, pending>>

Kinds == {"Read", "Write"}
Act == {t \in Threads : active[t] # "-"}

PTypeOK == /\ active \in [Threads -> Kinds \cup {"-"}]
           /\ returned \subseteq Act
           /\ pending \in Seq([t : Threads, k : Kinds])

PInit == active = [t \in Threads |-> "-"] /\ returned = {} /\ pending = <<>>

CanEnter(k) == pending = <<>> /\ (Act = {} \/ (k = "Read" /\ \A t \in Act : active[t] = "Read"))
Idle(t) == active[t] = "-" /\ \A i \in 1..Len(pending) : pending[i].t # t

AcquireNow(t, k) == /\ Idle(t) /\ CanEnter(k)
                    /\ active' = [active EXCEPT ![t] = k]
                    /\ returned' = returned \cup {t}
                    /\ UNCHANGED pending

Park(t, k) == /\ Idle(t) /\ ~CanEnter(k)
              /\ pending' = Append(pending, [t |-> t, k |-> k])
              /\ UNCHANGED <<active, returned>>

Return(t) == /\ active[t] # "-" /\ t \notin returned
             /\ returned' = returned \cup {t}
             /\ UNCHANGED <<active, pending>>

\* length of the maximal admissible prefix: one writer, or a run of readers
RunLen(q) == IF q = <<>> THEN 0
             ELSE IF q[1].k = "Write" THEN 1
             ELSE LET n == Len(q) IN
                  IF \A i \in 1..n : q[i].k = "Read" THEN n
                  ELSE (CHOOSE j \in 1..n : q[j].k = "Write" /\ \A i \in 1..(j-1) : q[i].k = "Read") - 1

Release(t) ==
    /\ t \in returned
    /\ returned' = returned \ {t}
    /\ LET a1 == [active EXCEPT ![t] = "-"] IN
       IF {u \in Threads : a1[u] # "-"} = {} /\ pending # <<>>
       THEN LET n == RunLen(pending) IN
            /\ active' = [u \in Threads |->
                            IF \E i \in 1..n : pending[i].t = u
                            THEN (CHOOSE kk \in Kinds : \E i \in 1..n : pending[i].t = u /\ pending[i].k = kk)
                            ELSE a1[u]]
            /\ pending' = SubSeq(pending, n + 1, Len(pending))
       ELSE active' = a1 /\ UNCHANGED pending

PNext == \E t \in Threads : \/ \E k \in Kinds : AcquireNow(t, k) \/ Park(t, k)
                           \/ Return(t) \/ Release(t)
PSpec == PInit /\ [][PNext]_pvars
PFairSpec == PSpec /\ \A t \in Threads : WF_pvars(Return(t)) /\ WF_pvars(Release(t))


(***************************************************************************)
(* Weaker contracts.  They are used by the trace specification to          *)
(* attribute a rejected execution to one property: `lazy` keeps mutual     *)
(* exclusion and FIFO order but lets admission be delayed arbitrarily      *)
(* (C01 + C03, nothing of C12); the eager contract above adds C12.         *)
(***************************************************************************)
LazyPark(t, k) == /\ Idle(t)
                  /\ pending' = Append(pending, [t |-> t, k |-> k])
                  /\ UNCHANGED <<active, returned>>
LazyRelease(t) == /\ t \in returned
                  /\ returned' = returned \ {t}
                  /\ active' = [active EXCEPT ![t] = "-"]
                  /\ UNCHANGED pending
CanAdmitHead == /\ pending # <<>>
                /\ \/ Act = {}
                   \/ pending[1].k = "Read" /\ \A t \in Act : active[t] = "Read"
Admit == /\ CanAdmitHead
         /\ active' = [active EXCEPT ![pending[1].t] = pending[1].k]
         /\ pending' = Tail(pending)
         /\ UNCHANGED returned
LazyNext == \/ \E t \in Threads : \/ \E k \in Kinds : AcquireNow(t, k) \/ LazyPark(t, k)
                                   \/ Return(t) \/ LazyRelease(t)
            \/ Admit
LazySpec == PInit /\ [][LazyNext]_pvars

(* ---- the listed properties, stated on P ---- *)
\* C01: a writer never shares the lock (on holders, and on admitted requests)
C01 == \A t \in returned : active[t] = "Write" => returned = {t}
C01a == \A t \in Act : active[t] = "Write" => Act = {t}
\* C12: nobody is parked unless a writer is active or parked
C12inv == pending # <<>> =>
            \/ \E t \in Act : active[t] = "Write"
            \/ \E i \in 1..Len(pending) : pending[i].k = "Write"
\* C12: consecutive parked readers are admitted together: a parked reader directly behind
\* an admitted-or-active reader batch cannot exist (it would have been admitted with it)
C12batch == pending # <<>> /\ pending[1].k = "Read" => \E t \in Act : active[t] = "Write"
\* C02: the lock is never wedged: some admitted request exists whenever someone is parked
C02inv == pending # <<>> => Act # {}
\* C02 liveness (under PFairSpec, holders release): every parked request is eventually admitted
Parked(t) == \E i \in 1..Len(pending) : pending[i].t = t
C02live == \A t \in Threads : Parked(t) ~> (t \in returned)
\* C03: the order of `pending` only ever changes by appending and by removing a prefix
C03step == [][\/ \E n \in 0..Len(pending) : pending' = SubSeq(pending, n + 1, Len(pending))
              \/ \E r \in [t : Threads, k : Kinds] : pending' = Append(pending, r)]_pending
=============================================================================
