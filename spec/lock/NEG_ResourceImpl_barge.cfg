SPECIFICATION SpecD
CONSTANTS t1 = t1  t2 = t2  t3 = t3
CONSTANT Threads <- DevThreads
CONSTANT MaxOps = 2
CONSTANT CountAtWake = FALSE
CONSTANT AllowSpurious = TRUE
CONSTANT Deviation = "barge"
INVARIANTS TypeOK C01 C02Quiescent NoDeadlockD
PROPERTY Refines
CHECK_DEADLOCK FALSE
