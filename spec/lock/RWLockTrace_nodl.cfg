SPECIFICATION TSpec
CONSTANT Threads <- TraceThreads
CONSTANT Mode = "nodl"
INVARIANTS Accepted Progress
CHECK_DEADLOCK FALSE
