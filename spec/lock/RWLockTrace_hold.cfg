SPECIFICATION TSpec
CONSTANT Threads <- TraceThreads
CONSTANT Mode = "hold"
INVARIANTS Accepted Progress
CHECK_DEADLOCK FALSE
