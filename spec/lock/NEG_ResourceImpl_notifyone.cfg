SPECIFICATION SpecD
CONSTANTS t1 = t1  t2 = t2  t3 = t3
CONSTANT Threads <- DevThreads
CONSTANT MaxOps = 2
CONSTANT CountAtWake = FALSE
CONSTANT AllowSpurious = FALSE
CONSTANT Deviation = "notifyone"
INVARIANTS TypeOK C01 C01P C12P NoDeadlockD
CHECK_DEADLOCK FALSE
