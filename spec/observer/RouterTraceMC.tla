---- MODULE RouterTraceMC ----
EXTENDS RouterTrace
NamesABC == {"a", "b", "c", "ab"}
====
