------------------------------- MODULE Router -------------------------------
(***************************************************************************)
(* tulz::SubjectRouter (C06, C13; the sequential meaning used by C11).     *)
(*                                                                         *)
(*  nodes     stored keys (sequences of level names); the root <<>> is     *)
(*            always there and is not listed                               *)
(*  subj      keys whose node holds a Subject (created by the first        *)
(*            subscribe under that key, gone when the node is erased)      *)
(*  obs       live subscriptions in subscription order: [id, key, valid]   *)
(*            (an invalidated observer stays until it is lazily removed    *)
(*            by a notify that reaches its subject)                        *)
(*  ex, dp    exists() of every probe pattern and depth() in the current   *)
(*            state (derived, compared after every step)                   *)
(*  nf        for every notify pattern: <<observers a notify would reach   *)
(*            now, its return value>> (derived; the expectation for the    *)
(*            Notify edges leaving this state)                             *)
(* A pattern is a sequence of levels; a level is a name (string level) or  *)
(* "r:<regex>" (regex level); LevelMatch is the match table (the harness   *)
(* checks once that std::regex_match agrees with it).                      *)
(***************************************************************************)
EXTENDS RouterOps      \* Names (level names used in subscription keys) and MaxDepth (longest key) are declared there
CONSTANTS MaxSubs,
          NotifyPats, ShrinkPats, Probes
VARIABLES nodes, subj, obs, nid, ex, dp, nf,
          shrinkOK     \* ghost: the last step, if it was a shrink, met the C13 obligations (evaluated once per Shrink step)
vars == <<nodes, subj, obs, nid, ex, dp, nf, shrinkOK>>

Derived(S, sj, o) == /\ ex' = [q \in Probes |-> Exists(S, q)]
                     /\ dp' = Depth(S)
                     /\ nf' = [q \in NotifyPats |-> <<Deliver(S, sj, o, q), Cardinality(Matched(S, sj, q))>>]
NotShrink == shrinkOK' = TRUE

Init == /\ nodes = {} /\ subj = {} /\ obs = <<>> /\ nid = 1
        /\ ex = [q \in Probes |-> Exists({}, q)] /\ dp = 1 /\ shrinkOK = TRUE
        /\ nf = [q \in NotifyPats |-> <<{}, 0>>]

Subscribe(k) == /\ nid <= MaxSubs /\ k \in Keys \cup {<<>>}
                /\ nodes' = nodes \cup Prefixes(k) /\ subj' = subj \cup {k}
                /\ obs' = Append(obs, [id |-> nid, key |-> k, valid |-> TRUE]) /\ nid' = nid + 1
                /\ Derived(nodes', subj', obs') /\ NotShrink
Unsubscribe(id) == /\ id \in Ids(obs)
                   /\ obs' = SelectSeq(obs, LAMBDA e : e.id # id)
                   /\ UNCHANGED <<nodes, subj, nid>> /\ Derived(nodes, subj, obs') /\ NotShrink
Invalidate(id) == /\ \E i \in 1..Len(obs) : obs[i].id = id /\ obs[i].valid
                  /\ obs' = [i \in 1..Len(obs) |-> IF obs[i].id = id THEN [obs[i] EXCEPT !.valid = FALSE] ELSE obs[i]]
                  /\ UNCHANGED <<nodes, subj, nid>> /\ Derived(nodes, subj, obs') /\ NotShrink
Notify(p) == /\ p \in NotifyPats
             /\ LET M == Matched(nodes, subj, p) IN
                \* observers found invalid by the subjects that were notified are removed
                /\ obs' = SelectSeq(obs, LAMBDA e : e.valid \/ e.key \notin M)
             /\ UNCHANGED <<nodes, subj, nid>> /\ Derived(nodes, subj, obs') /\ NotShrink

LiveBelow(o, k) == \E i \in 1..Len(o) : IsPrefix(k, o[i].key)
FullWildcard(p) == Len(p) >= MaxDepth /\ \A j \in 1..Len(p) : p[j] = "r:.*"
\* C13: shrink never changes what any later notify delivers, never removes a key with a subscription at or
\* below it, only removes children of nodes that lie on the pattern's path, and a full-depth wildcard
\* shrink removes every dead branch
ShrinkObligations(p, S2, sj2) ==
    /\ \A q \in Probes : Deliver(S2, sj2, obs, q) = Deliver(nodes, subj, obs, q)
    /\ \A k \in nodes \ S2 : ~LiveBelow(obs, k)
    /\ \A k \in nodes \ S2 :
          LET par == SubSeq(k, 1, Len(k) - 1) IN
          Len(par) <= Len(p) /\ \A j \in 1..Len(par) : LevelMatch(p[j], par[j])
    /\ FullWildcard(p) => \A k \in S2 : LiveBelow(obs, k)
Shrink(p) == /\ p \in ShrinkPats
             /\ nodes' = Visit(nodes, obs, p, <<>>, 0)
             /\ subj' = subj \cap AllNodes(nodes')
             /\ shrinkOK' = ShrinkObligations(p, nodes', subj')
             /\ UNCHANGED <<obs, nid>> /\ Derived(nodes', subj', obs)

Next == \/ \E k \in Keys \cup {<<>>} : Subscribe(k)
        \/ \E id \in 1..MaxSubs : Unsubscribe(id) \/ Invalidate(id)
        \/ \E p \in NotifyPats : Notify(p)
        \/ \E p \in ShrinkPats : Shrink(p)
Spec == Init /\ [][Next]_vars

(* ---- C06 / C13 on the model ---- *)
PrefixClosed == \A k \in nodes : Prefixes(k) \subseteq nodes
SubjOnNodes == subj \subseteq AllNodes(nodes) /\ \A i \in 1..Len(obs) : obs[i].key \in subj
ShrinkOK == shrinkOK
DepthOK == dp = 1 + MaxLen(nodes)
ExistsOK == \A q \in Probes : ex[q] <=> (\E k \in AllNodes(nodes) : Matches(k, q))
=============================================================================
