SPECIFICATION Spec
CONSTANT Names <- NamesS
CONSTANT Regexes <- RegexesS
CONSTANT Probes <- ProbesS
CONSTANT MaxDepth = 3
INVARIANTS TypeOK RootIsEmptyName LeafUnique ConcreteSelfMatch
CHECK_DEADLOCK FALSE
