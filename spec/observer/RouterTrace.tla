----------------------------- MODULE RouterTrace -----------------------------
(* T layer for SubjectRouter / ConcurrentSubjectRouter used from one thread (C06, C13): random histories
   over deeper trees than the exhaustive graphs reach, validated against the operators of RouterOps.
   Event fields: op, p (key or pattern as a sequence of levels), id, dl (observers reached, sorted),
   ret (notify's return value), dp (depth() after the call), ex (exists() of the execution's probe
   patterns after the call, as a sequence of 0/1), probes (only on the first event: the probe patterns). *)
EXTENDS RouterOps, TLC, Json, IOUtils
VARIABLES x, l, nodes, subj, obs, nid
vars == <<x, l, nodes, subj, obs, nid>>
Ev == ndJsonDeserialize(IOEnv.TRACE_EVENTS)
Ix == ndJsonDeserialize(IOEnv.TRACE_INDEX)
Diag == "TRACE_DIAG" \in DOMAIN IOEnv /\ IOEnv.TRACE_DIAG = "1"
E == Ev[l]
Probes == Ev[Ix[x].s].probes

TInit == x \in 1..Len(Ix) /\ l = Ix[x].s + 1 /\ nodes = {} /\ subj = {} /\ obs = <<>> /\ nid = 1

SetOf(s) == {s[i] : i \in 1..Len(s)}
\* what the router reports after the call must be what the tree says
PostOK == /\ E.dp = Depth(nodes')
          /\ \A i \in 1..Len(Probes) : (E.ex[i] = 1) <=> Exists(nodes', Probes[i])
Op(name, A) == l <= Ix[x].e /\ E.op = name /\ A /\ PostOK /\ l' = l + 1 /\ UNCHANGED x

Subscribe == /\ E.id = nid
             /\ nodes' = nodes \cup Prefixes(E.p) /\ subj' = subj \cup {E.p}
             /\ obs' = Append(obs, [id |-> nid, key |-> E.p, valid |-> TRUE, thr |-> (E.thr = 1)]) /\ nid' = nid + 1
Unsubscribe == /\ E.id \in Ids(obs) /\ obs' = SelectSeq(obs, LAMBDA e : e.id # E.id) /\ UNCHANGED <<nodes, subj, nid>>
Invalidate == /\ \E i \in 1..Len(obs) : obs[i].id = E.id /\ obs[i].valid
              /\ obs' = [i \in 1..Len(obs) |-> IF obs[i].id = E.id THEN [obs[i] EXCEPT !.valid = FALSE] ELSE obs[i]]
              /\ UNCHANGED <<nodes, subj, nid>>
\* observers whose callback throws (Subscribe with thr = 1): a notify that reaches one is aborted by the exception
Throwers(D) == {obs[i].id : i \in {j \in 1..Len(obs) : obs[j].thr /\ obs[j].id \in D}}
Notify == /\ LET M == Matched(nodes, subj, E.p) IN
             /\ Throwers(Deliver(nodes, subj, obs, E.p)) = {}
             /\ SetOf(E.dl) = Deliver(nodes, subj, obs, E.p) /\ Len(E.dl) = Cardinality(SetOf(E.dl))
             /\ E.ret = Cardinality(M)
             /\ obs' = SelectSeq(obs, LAMBDA e : e.valid \/ e.key \notin M)
          /\ UNCHANGED <<nodes, subj, nid>>
\* the exception left notify(): some of the matched observers were reached, each at most once, a thrower among them (which ones
\* depends on the order in which the tree is walked, which the property does not fix); the router is what it was -- these
\* histories contain no invalidated observers, so there is nothing a notify would have removed on the way
NotifyThrew == /\ LET D == Deliver(nodes, subj, obs, E.p) IN
                  /\ SetOf(E.dl) \subseteq D /\ Len(E.dl) = Cardinality(SetOf(E.dl))
                  /\ Throwers(SetOf(E.dl)) # {}
               /\ \A i \in 1..Len(obs) : obs[i].valid
               /\ UNCHANGED <<nodes, subj, obs, nid>>
Shrink == /\ nodes' = Visit(nodes, obs, E.p, <<>>, 0) /\ subj' = subj \cap AllNodes(nodes') /\ UNCHANGED <<obs, nid>>

TNext == Op("Subscribe", Subscribe) \/ Op("Unsubscribe", Unsubscribe) \/ Op("Invalidate", Invalidate)
         \/ Op("Notify", Notify) \/ Op("NotifyThrew", NotifyThrew) \/ Op("Shrink", Shrink)
TSpec == TInit /\ [][TNext]_vars
Accepted == (l = Ix[x].e + 1) => PrintT(<<"ACCEPTED", x>>)
Progress == Diag => PrintT(<<"AT", x, l>>)
=============================================================================
