---- MODULE ConcRouterTraceMC ----
EXTENDS ConcRouterTrace
NamesABC == {"a", "b", "c", "ab"}
====
