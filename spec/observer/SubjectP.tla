------------------------------ MODULE SubjectP ------------------------------
(***************************************************************************)
(* P layer for tulz::Subject (C05, C10).                                   *)
(*                                                                         *)
(*  subs      subscribed observers in subscription order:                  *)
(*            [id, valid, muted, script]; `script` is what the observer's  *)
(*            callback does when it is invoked (C10), a sequence of        *)
(*            [k, t] with k in unsub/mute/unmute/inval/sub/notify and t a  *)
(*            target id (0 = the observer itself)                          *)
(*  handle    named subscription handles -> id (0 = default/cleared;       *)
(*            an id that is no longer in subs = stale; Foreign = a handle  *)
(*            of another Subject)                                          *)
(*  nid       next subscription id                                         *)
(*  log       deliveries of the last notify, in order: [id, a, d, opt,     *)
(*            present]; d = nesting depth; opt = the statement leaves it   *)
(*            open whether this delivery happens (the observer was muted / *)
(*            unmuted by an earlier callback of the same round); present = *)
(*            whether the implementation-faithful reading delivers it      *)
(*  res       result of the last operation: "ok" | "rejected"              *)
(***************************************************************************)
EXTENDS Naturals, Sequences, FiniteSets, TLC
CONSTANTS MaxSubs, Handles, Extra, Scripts, MaxDepth, Args, Foreign, AllowOps,
          HOrder,       \* if non-empty: named handles subscribe in this order (symmetry breaking for C10 configs)
          CountNotifies
VARIABLES subs, handle, nid, log, res,
          nn          \* number of notify calls so far (model bound only)
vars == <<subs, handle, nid, log, res, nn>>

AllHandles == Handles \cup Extra \cup {"hf"}
Ids(s) == {s[i].id : i \in 1..Len(s)}
Active(s, id) == id \in Ids(s)
Entry(s, id) == s[CHOOSE i \in 1..Len(s) : s[i].id = id]
Remove(s, id) == SelectSeq(s, LAMBDA e : e.id # id)
Upd(s, id, f, v) == [i \in 1..Len(s) |-> IF s[i].id = id THEN [s[i] EXCEPT ![f] = v] ELSE s[i]]

Init == /\ subs = <<>> /\ nid = 1 /\ log = <<>> /\ res = "ok" /\ nn = 0
        /\ handle = [h \in AllHandles |-> IF h = "hf" THEN Foreign ELSE 0]

(* ------------------------------------------------------------------ *)
(* one notification round, with callbacks that act on the subject      *)
(* R = [subs, handle, nid, log, rc]   (rc numbers the rounds)           *)
(* ------------------------------------------------------------------ *)
HandleOf(R, id) == CHOOSE h \in AllHandles : R.handle[h] = id
HasHandle(R, id) == \E h \in AllHandles : R.handle[h] = id
FreeExtra(R) == {h \in Extra : R.handle[h] = 0}
MuteChanged(s1, s2) == {id \in Ids(s1) \cap Ids(s2) : Entry(s1, id).muted # Entry(s2, id).muted}

RECURSIVE Round(_, _, _), Iter(_, _, _, _, _, _, _), RunScript(_, _, _, _, _, _)

\* a callback only uses a handle after checking isValid(): acting on a missing target is a no-op
ApplyOp(R, op, self, a, d) ==
    LET t == IF op.t = 0 THEN self ELSE op.t IN
    IF op.k = "throw" THEN [R EXCEPT !.abort = TRUE]     \* the callback throws: the exception leaves every notify() on the stack
    ELSE IF op.k = "notify" THEN (IF d < MaxDepth THEN Round(R, a, d + 1) ELSE R)
    ELSE IF op.k = "sub"
         THEN IF R.nid <= MaxSubs /\ FreeExtra(R) # {}
              THEN LET h == CHOOSE x \in FreeExtra(R) : TRUE IN
                   [R EXCEPT !.subs = Append(@, [id |-> R.nid, valid |-> TRUE, muted |-> FALSE, script |-> <<>>]),
                             !.handle[h] = R.nid, !.nid = @ + 1]
              ELSE R
    ELSE IF ~(Active(R.subs, t) /\ HasHandle(R, t)) THEN R
    ELSE IF op.k = "unsub" THEN [R EXCEPT !.subs = Remove(@, t), !.handle[HandleOf(R, t)] = 0]
    ELSE IF op.k = "mute" THEN [R EXCEPT !.subs = Upd(@, t, "muted", TRUE)]
    ELSE IF op.k = "unmute" THEN [R EXCEPT !.subs = Upd(@, t, "muted", FALSE)]
    ELSE [R EXCEPT !.subs = Upd(@, t, "valid", FALSE)]       \* "inval"

RunScript(R, sc, i, self, a, d) ==
    IF i > Len(sc) \/ R.abort THEN R ELSE RunScript(ApplyOp(R, sc[i], self, a, d), sc, i + 1, self, a, d)

Iter(R, snap, i, a, d, touched, rn) ==
    IF i > Len(snap) \/ R.abort THEN R
    ELSE LET id == snap[i] IN
         IF ~Active(R.subs, id) THEN Iter(R, snap, i + 1, a, d, touched, rn)     \* removed before its turn: skipped
         ELSE LET e == Entry(R.subs, id)
                  called == e.valid /\ ~e.muted
                  opt == id \in touched /\ e.valid
                  R1 == IF called \/ opt
                        THEN [R EXCEPT !.log = Append(@, [id |-> id, a |-> a, d |-> d, r |-> rn, opt |-> opt, present |-> called])]
                        ELSE R
                  R2 == IF called THEN RunScript(R1, e.script, 1, id, a, d) ELSE R1
                  \* an observer found invalid is unsubscribed right after its turn
                  \* (not reached when the callback threw: the round ends there, the observer stays as it is)
                  R3 == IF ~R2.abort /\ Active(R2.subs, id) /\ ~Entry(R2.subs, id).valid
                        THEN [R2 EXCEPT !.subs = Remove(@, id)] ELSE R2
              IN Iter(R3, snap, i + 1, a, d, touched \cup MuteChanged(R1.subs, R2.subs), rn)

\* round membership is fixed at entry: observers added during the round are first invoked next round
Round(R, a, d) == Iter([R EXCEPT !.rc = @ + 1], [i \in 1..Len(R.subs) |-> R.subs[i].id], 1, a, d, {}, R.rc + 1)

(* ------------------------------------------------------------------ *)
(* operations                                                          *)
(* ------------------------------------------------------------------ *)
Can(op) == op \in AllowOps
InOrder(h) == HOrder = <<>> \/ \E i \in 1..Len(HOrder) : HOrder[i] = h /\ \A j \in 1..(i - 1) : handle[HOrder[j]] # 0
Subscribe(h, sc) == /\ Can("Subscribe") /\ h \in Handles /\ handle[h] = 0 /\ nid <= MaxSubs /\ sc \in Scripts /\ InOrder(h)
                    /\ subs' = Append(subs, [id |-> nid, valid |-> TRUE, muted |-> FALSE, script |-> sc])
                    /\ handle' = [handle EXCEPT ![h] = nid] /\ nid' = nid + 1
                    /\ res' = "ok" /\ log' = <<>> /\ UNCHANGED nn
\* an observer built with Params{.mute = true} (unique_ptr / raw pointer construction paths): subscribed, but muted from the start
SubscribeMuted(h, sc) == /\ Can("SubscribeMuted") /\ h \in Handles /\ handle[h] = 0 /\ nid <= MaxSubs /\ sc \in Scripts /\ InOrder(h)
                         /\ subs' = Append(subs, [id |-> nid, valid |-> TRUE, muted |-> TRUE, script |-> sc])
                         /\ handle' = [handle EXCEPT ![h] = nid] /\ nid' = nid + 1
                         /\ res' = "ok" /\ log' = <<>> /\ UNCHANGED nn
\* one of OUR handles handed to ANOTHER subject's unsubscribe(): rejected, and nothing changes -- in particular not the handle
UnsubF(h) == /\ Can("UnsubF") /\ h \in Handles /\ handle[h] # 0
             /\ res' = "rejected" /\ log' = <<>> /\ UNCHANGED <<subs, handle, nid, nn>>
\* via the handle: needs a handle that still points at a subject (cleared / default handles have none)
UnsubH(h) == /\ Can("UnsubH") /\ h \in Handles /\ handle[h] # 0
             /\ IF Active(subs, handle[h])
                THEN subs' = Remove(subs, handle[h]) /\ handle' = [handle EXCEPT ![h] = 0] /\ res' = "ok"
                ELSE UNCHANGED <<subs, handle>> /\ res' = "rejected"
             /\ log' = <<>> /\ UNCHANGED nid /\ UNCHANGED nn
\* via the subject: any handle, including default, stale and foreign ones
UnsubS(h) == /\ Can("UnsubS") /\ h \in Handles \cup {"hf"}
             /\ IF handle[h] # Foreign /\ Active(subs, handle[h])
                THEN subs' = Remove(subs, handle[h]) /\ handle' = [handle EXCEPT ![h] = 0] /\ res' = "ok"
                ELSE UNCHANGED <<subs, handle>> /\ res' = "rejected"
             /\ log' = <<>> /\ UNCHANGED nid /\ UNCHANGED nn
OnLive(h, f, v, name) == /\ Can(name) /\ h \in Handles /\ Active(subs, handle[h])
                         /\ Entry(subs, handle[h])[f] # v
                         /\ subs' = Upd(subs, handle[h], f, v)
                         /\ res' = "ok" /\ log' = <<>> /\ UNCHANGED <<handle, nid>> /\ UNCHANGED nn
Mute(h) == OnLive(h, "muted", TRUE, "Mute")
Unmute(h) == OnLive(h, "muted", FALSE, "Unmute")
\* mute() on an observer that is muted already, unmute() on one that is not: nothing changes -- in particular mute() does not
\* nest, one unmute() undoes any number of mute() calls.  Not part of Next (the graphs that are replayed edge by edge would
\* only gain self-loops); the trace specification accepts them in recorded histories
Again(h, f, v, name) == /\ Can(name) /\ h \in Handles /\ Active(subs, handle[h])
                        /\ Entry(subs, handle[h])[f] = v
                        /\ res' = "ok" /\ log' = <<>> /\ UNCHANGED <<subs, handle, nid, nn>>
MuteAgain(h) == Again(h, "muted", TRUE, "Mute")
UnmuteAgain(h) == Again(h, "muted", FALSE, "Unmute")
Invalidate(h) == OnLive(h, "valid", FALSE, "Invalidate")
\* h1 = std::move(h2) is a swap
Swap(h1, h2) == /\ Can("Swap") /\ h1 \in Handles /\ h2 \in Handles /\ h1 # h2 /\ handle[h1] # handle[h2]
                /\ handle' = [handle EXCEPT ![h1] = handle[h2], ![h2] = handle[h1]]
                /\ res' = "ok" /\ log' = <<>> /\ UNCHANGED <<subs, nid>> /\ UNCHANGED nn
\* a handle is given up (a default handle is move-assigned over it and the old one goes out of scope): Subscription has no
\* destructor, the observer stays subscribed and is from now on reachable through the Subject only.  Like the *Again actions
\* not part of Next; recorded histories use it to gather more observers than there are named handles
Drop(h) == /\ Can("Drop") /\ h \in Handles /\ handle[h] # 0
           /\ handle' = [handle EXCEPT ![h] = 0]
           /\ res' = "ok" /\ log' = <<>> /\ UNCHANGED <<subs, nid, nn>>
Notify(a) == /\ Can("Notify") /\ a \in Args
             /\ LET R == Round([subs |-> subs, handle |-> handle, nid |-> nid, log |-> <<>>, rc |-> 0, abort |-> FALSE], a, 1) IN
                /\ subs' = R.subs /\ handle' = R.handle /\ nid' = R.nid /\ log' = R.log
                /\ res' = IF R.abort THEN "threw" ELSE "ok"     \* a callback threw: the caller of notify() gets the exception; later rounds are ordinary rounds
             /\ nn' = IF CountNotifies THEN nn + 1 ELSE nn

Next == \/ \E h \in AllHandles : \/ \E sc \in Scripts : Subscribe(h, sc) \/ SubscribeMuted(h, sc)
                                  \/ UnsubF(h)
                                  \/ UnsubH(h) \/ UnsubS(h) \/ Mute(h) \/ Unmute(h) \/ Invalidate(h)
                                  \/ \E h2 \in AllHandles : Swap(h, h2)
        \/ \E a \in Args : Notify(a)
Spec == Init /\ [][Next]_vars

(* ---- C05 / C10 on the model ---- *)
Required(lg) == SelectSeq(lg, LAMBDA e : e.present /\ ~e.opt)
\* exactly once per round and depth, in subscription order
OncePerRound == \A i, j \in 1..Len(log) : i < j /\ log[i].r = log[j].r /\ log[i].id = log[j].id => FALSE
\* without callbacks a notify delivers to exactly the valid unmuted observers, in subscription order
PlainNotify == [][\A a \in Args : (Notify(a) /\ \A i \in 1..Len(subs) : subs[i].script = <<>>) =>
                     LET want == SelectSeq(subs, LAMBDA e : e.valid /\ ~e.muted) IN
                     /\ Len(log') = Len(want)
                     /\ \A i \in 1..Len(want) : log'[i].id = want[i].id /\ log'[i].a = a /\ ~log'[i].opt
                     /\ subs' = SelectSeq(subs, LAMBDA e : e.valid)]_vars
\* an observer that is not subscribed, or invalid, is never delivered to
OnlyLive == [][\A a \in Args : Notify(a) => \A i \in 1..Len(log') :
                 log'[i].present => \/ log'[i].id \in Ids(subs) /\ Entry(subs, log'[i].id).valid
                                    \/ log'[i].id >= nid]_vars
HandlesDistinct == \A h1, h2 \in Handles \cup Extra : h1 # h2 /\ handle[h1] # 0 => handle[h1] # handle[h2]
=============================================================================
