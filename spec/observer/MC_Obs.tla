---- MODULE MC_Obs ----
EXTENDS ObservableP
DomInt == -2..6
DomUns == 0..6
DomFlt == -8..8
DeltasInt == {-1, 0, 1, 3}
DeltasUns == {0, 1, 3}
DeltasFlt == {-2, -1, 0, 1, 2, 4}
FactorsS == {-1, 0, 1, 2}
FactorsU == {0, 1, 2}
DivInt == {-2, -1, 1, 2, 3}
DivUns == {1, 2, 3}
DivFlt == {-1, 1, 2}
Empty == {}
DomIntT == -4..10
DomUnsT == 0..10
DomFltT == -12..12
HalvesInt == {-1, 1, 3}
HalvesUns == {1, 3}
====
