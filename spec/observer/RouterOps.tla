------------------------------ MODULE RouterOps ------------------------------
(***************************************************************************)
(* Pure operators of the SubjectRouter model (no variables): keys, the     *)
(* level match table, matching, deliveries, exists/depth, and shrink()     *)
(* transcribed from SubjectRouter.cpp.  Shared by Router.tla (C06, C13)    *)
(* and ConcRouterTrace.tla (C11).                                          *)
(***************************************************************************)
EXTENDS Naturals, Sequences, FiniteSets
CONSTANTS Names, MaxDepth

Keys == UNION {[1..n -> Names] : n \in 1..MaxDepth}
\* the match table: full match of the level name (std::regex_match), for the names a, b, c, ab
LevelMatch(l, name) ==
    CASE l = "r:.*" -> TRUE
      [] l = "r:a" -> name = "a"
      [] l = "r:a|b" -> name \in {"a", "b"}
      [] l = "r:[^a]" -> name \in {"b", "c"}
      [] l = "r:c" -> name = "c"
      [] l = "r:a|ab" -> name \in {"a", "ab"}      \* ordered alternation whose first branch is a prefix of the second
      [] l = "r:a.*?" -> name \in {"a", "ab"}      \* lazy quantifier: still a full match
      [] l = "r:.+" -> name # ""                  \* the empty string is a legal level name; .+ does not match it, .* does
      [] OTHER -> l = name
IsRegex(l) == l \in {"r:.*", "r:a", "r:a|b", "r:[^a]", "r:c", "r:a|ab", "r:a.*?", "r:.+"}
\* a key matches a pattern iff it has as many levels and matches level by level
Matches(k, p) == Len(k) = Len(p) /\ \A i \in 1..Len(k) : LevelMatch(p[i], k[i])
IsPrefix(a, b) == Len(a) <= Len(b) /\ \A i \in 1..Len(a) : a[i] = b[i]
Prefixes(k) == {SubSeq(k, 1, n) : n \in 1..Len(k)}
Children(S, n) == {c \in S : Len(c) = Len(n) + 1 /\ IsPrefix(n, c)}
ObsAt(o, k) == SelectSeq(o, LAMBDA e : e.key = k)
Ids(o) == {o[i].id : i \in 1..Len(o)}

(* ---- queries ---- *)
AllNodes(S) == S \cup {<<>>}
Exists(S, p) == \E k \in AllNodes(S) : Matches(k, p)
MaxLen(S) == IF S = {} THEN 0 ELSE CHOOSE n \in 0..MaxDepth : (\E k \in S : Len(k) = n) /\ \A k \in S : Len(k) <= n
Depth(S) == 1 + MaxLen(S)
Matched(S, sj, p) == {k \in AllNodes(S) : Matches(k, p) /\ k \in sj}
Deliver(S, sj, o, p) == {o[i].id : i \in {j \in 1..Len(o) : o[j].valid /\ o[j].key \in Matched(S, sj, p)}}
(* ---- shrink(), transcribed from SubjectRouter.cpp: recurse along the pattern, then erase empty children ---- *)
NodeEmpty(S, o, c) == ObsAt(o, c) = <<>> /\ Children(S, c) = {}
RECURSIVE Visit(_, _, _, _, _)
\* S: current node set; n: node being visited; i: its level in the pattern (0 = root)
Visit(S, o, p, n, i) ==
    IF i > 0 /\ ~LevelMatch(p[i], n[Len(n)]) THEN S
    ELSE LET cand == IF i >= Len(p) THEN {}
                     ELSE IF IsRegex(p[i + 1]) THEN Children(S, n)
                     ELSE {c \in Children(S, n) : c[Len(c)] = p[i + 1]}
             \* the visits below different children touch disjoint subtrees
             vis == [c \in cand |-> Visit(S, o, p, c, i + 1)]          \* one recursive visit per child
             S1 == {k \in S : \A c \in cand : IsPrefix(c, k) => k \in vis[c]}
         IN S1 \ {c \in Children(S1, n) : NodeEmpty(S1, o, c)}
=============================================================================
