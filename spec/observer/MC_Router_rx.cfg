SPECIFICATION Spec
CONSTANT Names <- NamesRx
CONSTANT MaxDepth = 2
CONSTANT MaxSubs = 2
CONSTANT NotifyPats <- PatsRx
CONSTANT ShrinkPats <- ShrinkRx
CONSTANT Probes <- PatsRx
INVARIANTS PrefixClosed SubjOnNodes DepthOK ExistsOK ShrinkOK
CHECK_DEADLOCK FALSE
