---- MODULE SubjectTraceMC ----
EXTENDS SubjectTrace
AnyScript == Seq([k : {"unsub", "mute", "unmute", "inval", "sub", "notify", "throw"}, t : 0..120])   \* only ever tested for membership
NoOrder == <<>>
AllOps == {"Subscribe", "SubscribeMuted", "UnsubF", "UnsubH", "UnsubS", "Mute", "Unmute", "Invalidate", "Swap", "Drop", "Notify"}
====
