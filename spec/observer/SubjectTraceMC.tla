---- MODULE SubjectTraceMC ----
EXTENDS SubjectTrace
AnyScript == UNION {[1..n -> [k : {"unsub", "mute", "unmute", "inval", "sub", "notify"}, t : 0..40]] : n \in 0..2}
NoOrder == <<>>
AllOps == {"Subscribe", "SubscribeMuted", "UnsubF", "UnsubH", "UnsubS", "Mute", "Unmute", "Invalidate", "Swap", "Notify"}
====
