SPECIFICATION Spec
CONSTANT Names <- NamesAB
CONSTANT MaxDepth = 2
CONSTANT MaxSubs = 2
CONSTANT NotifyPats <- Pats2
CONSTANT ShrinkPats <- ShrinkSmall
CONSTANT Probes <- Pats2All
INVARIANTS PrefixClosed SubjOnNodes DepthOK ExistsOK ShrinkOK
CHECK_DEADLOCK FALSE
