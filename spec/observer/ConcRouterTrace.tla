-------------------------- MODULE ConcRouterTrace --------------------------
(***************************************************************************)
(* T layer for C11: executions of the real ConcurrentSubjectRouter under   *)
(* vsched (several threads, callbacks with scheduling points) validated    *)
(* against the ATOMIC router: every operation takes effect at one silent   *)
(* Lin step that TLC places between its OpCall and OpRet events.  The      *)
(* lock is not part of this specification: any locking scheme that makes   *)
(* the operations atomic is accepted.                                      *)
(*   - a notify reaches exactly the observers subscribed at its Lin        *)
(*     (CbEnter/CbExit events of that thread), each once, with its value,  *)
(*     and returns the number of matched keys holding a subject            *)
(*   - subscribe / unsubscribe / shrink cannot take effect while another   *)
(*     thread's delivery is in progress                                    *)
(*   - exists() / depth() return what the tree says at their Lin           *)
(*   - unsubscribe() through a stale handle (the one-shot observer it      *)
(*     belonged to has fired and is gone) changes nothing and throws       *)
(*     (res = -1); otherwise it returns normally (res = 0)                 *)
(* Events: OpCall(t, op, p, id, v), OpRet(t, res), CbEnter(t, id, v),      *)
(* CbExit(t, id); Deadlock / Crash are never enabled.                      *)
(***************************************************************************)
EXTENDS RouterOps, Integers, TLC, Json, IOUtils
VARIABLES x, l, nodes, subj, obs, phase, cop, D, cur, expRes
vars == <<x, l, nodes, subj, obs, phase, cop, D, cur, expRes>>
Ev == ndJsonDeserialize(IOEnv.TRACE_EVENTS)
Ix == ndJsonDeserialize(IOEnv.TRACE_INDEX)
Diag == "TRACE_DIAG" \in DOMAIN IOEnv /\ IOEnv.TRACE_DIAG = "1"
TThreads == 0..6
E == Ev[l]
NoOp == [op |-> "none", p |-> <<>>, id |-> 0, v |-> 0]

TInit == /\ x \in 1..Len(Ix) /\ l = Ix[x].s
         /\ nodes = {} /\ subj = {} /\ obs = <<>>
         /\ phase = [t \in TThreads |-> "idle"] /\ cop = [t \in TThreads |-> NoOp]
         /\ D = [t \in TThreads |-> {}] /\ cur = [t \in TThreads |-> 0] /\ expRes = [t \in TThreads |-> 0]

Is(name) == l <= Ix[x].e /\ E.e = name
Adv == l' = l + 1 /\ UNCHANGED x
InDelivery(u) == phase[u] = "linned" /\ cop[u].op = "notify" /\ (D[u] # {} \/ cur[u] # 0)
Quiet(t) == \A u \in TThreads : u # t => ~InDelivery(u)

TOpCall == /\ Is("OpCall") /\ phase[E.t] = "idle"
           /\ phase' = [phase EXCEPT ![E.t] = "called"]
           /\ cop' = [cop EXCEPT ![E.t] = [op |-> E.op, p |-> E.p, id |-> E.id, v |-> E.v]]
           /\ Adv /\ UNCHANGED <<nodes, subj, obs, D, cur, expRes>>

Lin(t) ==
    /\ phase[t] = "called"
    /\ LET o == cop[t] IN
       CASE o.op \in {"subscribe", "subscribe1"} ->
              /\ Quiet(t)
              /\ nodes' = nodes \cup Prefixes(o.p) /\ subj' = subj \cup {o.p}
              /\ obs' = Append(obs, [id |-> o.id, key |-> o.p, valid |-> TRUE, once |-> (o.op = "subscribe1")])
              /\ UNCHANGED <<D, expRes>>
         [] o.op = "unsubscribe" /\ o.id \in Ids(obs) ->
              /\ Quiet(t)
              /\ obs' = SelectSeq(obs, LAMBDA e : e.id # o.id)
              /\ expRes' = [expRes EXCEPT ![t] = 0]
              /\ UNCHANGED <<nodes, subj, D>>
         [] o.op = "unsubscribe" /\ o.id \notin Ids(obs) ->
              \* a stale handle (its one-shot observer has fired and is gone): nothing changes, the call throws
              /\ expRes' = [expRes EXCEPT ![t] = -1]
              /\ UNCHANGED <<nodes, subj, obs, D>>
         [] o.op = "shrink" ->
              /\ Quiet(t)
              /\ nodes' = Visit(nodes, obs, o.p, <<>>, 0)
              /\ subj' = subj \cap AllNodes(nodes')
              /\ UNCHANGED <<obs, D, expRes>>
         [] o.op = "notify" ->
              /\ D' = [D EXCEPT ![t] = Deliver(nodes, subj, obs, o.p)]
              /\ expRes' = [expRes EXCEPT ![t] = Cardinality(Matched(nodes, subj, o.p))]
              /\ UNCHANGED <<nodes, subj, obs>>
         [] o.op = "exists" ->
              /\ expRes' = [expRes EXCEPT ![t] = IF Exists(nodes, o.p) THEN 1 ELSE 0]
              /\ UNCHANGED <<nodes, subj, obs, D>>
         [] o.op = "depth" ->
              /\ expRes' = [expRes EXCEPT ![t] = Depth(nodes)]
              /\ UNCHANGED <<nodes, subj, obs, D>>
    /\ phase' = [phase EXCEPT ![t] = "linned"]
    /\ UNCHANGED <<x, l, cop, cur>>

TCbEnter == /\ Is("CbEnter") /\ phase[E.t] = "linned" /\ cop[E.t].op = "notify"
            /\ cur[E.t] = 0 /\ E.id \in D[E.t] /\ E.v = cop[E.t].v
            /\ cur' = [cur EXCEPT ![E.t] = E.id] /\ D' = [D EXCEPT ![E.t] = @ \ {E.id}]
            /\ Adv /\ UNCHANGED <<nodes, subj, obs, phase, cop, expRes>>
\* a one-shot observer (subscribe1) invalidates itself in its first delivery and is removed when that callback returns
OneShot(id) == \E i \in 1..Len(obs) : obs[i].id = id /\ obs[i].once
TCbExit == /\ Is("CbExit") /\ cur[E.t] = E.id /\ E.id # 0
           /\ cur' = [cur EXCEPT ![E.t] = 0]
           /\ obs' = IF OneShot(E.id) THEN SelectSeq(obs, LAMBDA e : e.id # E.id) ELSE obs
           /\ Adv /\ UNCHANGED <<nodes, subj, phase, cop, D, expRes>>
TOpRet == /\ Is("OpRet") /\ phase[E.t] = "linned" /\ D[E.t] = {} /\ cur[E.t] = 0
          /\ cop[E.t].op \in {"notify", "exists", "depth", "unsubscribe"} => E.res = expRes[E.t]
          /\ phase' = [phase EXCEPT ![E.t] = "idle"]
          /\ Adv /\ UNCHANGED <<nodes, subj, obs, cop, D, cur, expRes>>

TNext == TOpCall \/ TCbEnter \/ TCbExit \/ TOpRet \/ \E t \in TThreads : Lin(t)
TSpec == TInit /\ [][TNext]_vars
Accepted == (l = Ix[x].e + 1) => PrintT(<<"ACCEPTED", x>>)
Progress == Diag => PrintT(<<"AT", x, l>>)
=============================================================================
