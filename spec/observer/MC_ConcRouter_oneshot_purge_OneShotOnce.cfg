SPECIFICATION Spec
CONSTANTS t1 = t1 t2 = t2 t3 = t3
CONSTANT Threads <- TH
CONSTANT Obs = {1, 2}
CONSTANT MaxOps = 2
CONSTANT Weak = "none"
CONSTANT OneShots = {1}
CONSTANT NotifyLock = "Read"
CONSTANT Removal = "purge"
INVARIANTS OneShotOnce
PROPERTY NoWriteDuringDelivery
CHECK_DEADLOCK FALSE
