SPECIFICATION Spec
CONSTANT Kind = "str"
CONSTANT Dom <- Empty
CONSTANT Tol = 0
CONSTANT One = 1
CONSTANT Deltas <- Empty
CONSTANT Factors <- Empty
CONSTANT Divisors <- Empty
CONSTANT Halves <- Empty
CONSTANT Thrower = FALSE
CONSTANT MaxLen = 4
INVARIANTS TypeOK ExactlyOnce NewValue
PROPERTY ChangeNotifies
CHECK_DEADLOCK FALSE
