---- MODULE MC_ConcRouter_TTrace_1791027582 ----
EXTENDS Sequences, TLCExt, MC_ConcRouter, Toolbox, Naturals, TLC

_expression ==
    LET MC_ConcRouter_TEExpression == INSTANCE MC_ConcRouter_TEExpression
    IN MC_ConcRouter_TEExpression!expression
----

_trace ==
    LET MC_ConcRouter_TETrace == INSTANCE MC_ConcRouter_TETrace
    IN MC_ConcRouter_TETrace!trace
----

_inv ==
    ~(
        TLCGet("level") = Len(_TETrace)
        /\
        op = ((t1 :> "notify" @@ t2 :> "notify" @@ t3 :> "exists"))
        /\
        subs = ({1})
        /\
        pending = (<<>>)
        /\
        active = ((t1 :> "Read" @@ t2 :> "Read" @@ t3 :> "-"))
        /\
        freed = ({})
        /\
        todo = ((t1 :> {} @@ t2 :> {} @@ t3 :> {}))
        /\
        opsLeft = ((t1 :> 0 @@ t2 :> 1 @@ t3 :> 2))
        /\
        pc = ((t1 :> "deliver" @@ t2 :> "deliver" @@ t3 :> "idle"))
        /\
        calls = (<<2>>)
        /\
        inCb = ((t1 :> 1 @@ t2 :> 1 @@ t3 :> 0))
        /\
        arg = ((t1 :> 0 @@ t2 :> 0 @@ t3 :> 0))
        /\
        invalid = ({})
        /\
        listW = ({})
        /\
        retired = ({})
        /\
        returned = ({t1, t2})
    )
----

_init ==
    /\ active = _TETrace[1].active
    /\ op = _TETrace[1].op
    /\ pc = _TETrace[1].pc
    /\ pending = _TETrace[1].pending
    /\ opsLeft = _TETrace[1].opsLeft
    /\ todo = _TETrace[1].todo
    /\ returned = _TETrace[1].returned
    /\ listW = _TETrace[1].listW
    /\ subs = _TETrace[1].subs
    /\ arg = _TETrace[1].arg
    /\ freed = _TETrace[1].freed
    /\ calls = _TETrace[1].calls
    /\ inCb = _TETrace[1].inCb
    /\ retired = _TETrace[1].retired
    /\ invalid = _TETrace[1].invalid
----

_next ==
    /\ \E i,j \in DOMAIN _TETrace:
        /\ \/ /\ j = i + 1
              /\ i = TLCGet("level")
        /\ active  = _TETrace[i].active
        /\ active' = _TETrace[j].active
        /\ op  = _TETrace[i].op
        /\ op' = _TETrace[j].op
        /\ pc  = _TETrace[i].pc
        /\ pc' = _TETrace[j].pc
        /\ pending  = _TETrace[i].pending
        /\ pending' = _TETrace[j].pending
        /\ opsLeft  = _TETrace[i].opsLeft
        /\ opsLeft' = _TETrace[j].opsLeft
        /\ todo  = _TETrace[i].todo
        /\ todo' = _TETrace[j].todo
        /\ returned  = _TETrace[i].returned
        /\ returned' = _TETrace[j].returned
        /\ listW  = _TETrace[i].listW
        /\ listW' = _TETrace[j].listW
        /\ subs  = _TETrace[i].subs
        /\ subs' = _TETrace[j].subs
        /\ arg  = _TETrace[i].arg
        /\ arg' = _TETrace[j].arg
        /\ freed  = _TETrace[i].freed
        /\ freed' = _TETrace[j].freed
        /\ calls  = _TETrace[i].calls
        /\ calls' = _TETrace[j].calls
        /\ inCb  = _TETrace[i].inCb
        /\ inCb' = _TETrace[j].inCb
        /\ retired  = _TETrace[i].retired
        /\ retired' = _TETrace[j].retired
        /\ invalid  = _TETrace[i].invalid
        /\ invalid' = _TETrace[j].invalid

\* Uncomment the ASSUME below to write the states of the error trace
\* to the given file in Json format. Note that you can pass any tuple
\* to `JsonSerialize`. For example, a sub-sequence of _TETrace.
    \* ASSUME
    \*     LET J == INSTANCE Json
    \*         IN J!JsonSerialize("MC_ConcRouter_TTrace_1791027582.json", _TETrace)

=============================================================================

 Note that you can extract this module `MC_ConcRouter_TEExpression`
  to a dedicated file to reuse `expression` (the module in the 
  dedicated `MC_ConcRouter_TEExpression.tla` file takes precedence 
  over the module `MC_ConcRouter_TEExpression` below).

---- MODULE MC_ConcRouter_TEExpression ----
EXTENDS Sequences, TLCExt, MC_ConcRouter, Toolbox, Naturals, TLC

expression == 
    [
        \* To hide variables of the `MC_ConcRouter` spec from the error trace,
        \* remove the variables below.  The trace will be written in the order
        \* of the fields of this record.
        active |-> active
        ,op |-> op
        ,pc |-> pc
        ,pending |-> pending
        ,opsLeft |-> opsLeft
        ,todo |-> todo
        ,returned |-> returned
        ,listW |-> listW
        ,subs |-> subs
        ,arg |-> arg
        ,freed |-> freed
        ,calls |-> calls
        ,inCb |-> inCb
        ,retired |-> retired
        ,invalid |-> invalid
        
        \* Put additional constant-, state-, and action-level expressions here:
        \* ,_stateNumber |-> _TEPosition
        \* ,_activeUnchanged |-> active = active'
        
        \* Format the `active` variable as Json value.
        \* ,_activeJson |->
        \*     LET J == INSTANCE Json
        \*     IN J!ToJson(active)
        
        \* Lastly, you may build expressions over arbitrary sets of states by
        \* leveraging the _TETrace operator.  For example, this is how to
        \* count the number of times a spec variable changed up to the current
        \* state in the trace.
        \* ,_activeModCount |->
        \*     LET F[s \in DOMAIN _TETrace] ==
        \*         IF s = 1 THEN 0
        \*         ELSE IF _TETrace[s].active # _TETrace[s-1].active
        \*             THEN 1 + F[s-1] ELSE F[s-1]
        \*     IN F[_TEPosition - 1]
    ]

=============================================================================



Parsing and semantic processing can take forever if the trace below is long.
 In this case, it is advised to uncomment the module below to deserialize the
 trace from a generated binary file.

\*
\*---- MODULE MC_ConcRouter_TETrace ----
\*EXTENDS IOUtils, MC_ConcRouter, TLC
\*
\*trace == IODeserialize("MC_ConcRouter_TTrace_1791027582.bin", TRUE)
\*
\*=============================================================================
\*

---- MODULE MC_ConcRouter_TETrace ----
EXTENDS MC_ConcRouter, TLC

trace == 
    <<
    ([op |-> (t1 :> "exists" @@ t2 :> "exists" @@ t3 :> "exists"),subs |-> {},pending |-> <<>>,active |-> (t1 :> "-" @@ t2 :> "-" @@ t3 :> "-"),freed |-> {},todo |-> (t1 :> {} @@ t2 :> {} @@ t3 :> {}),opsLeft |-> (t1 :> 2 @@ t2 :> 2 @@ t3 :> 2),pc |-> (t1 :> "idle" @@ t2 :> "idle" @@ t3 :> "idle"),calls |-> <<0>>,inCb |-> (t1 :> 0 @@ t2 :> 0 @@ t3 :> 0),arg |-> (t1 :> 0 @@ t2 :> 0 @@ t3 :> 0),invalid |-> {},listW |-> {},retired |-> {},returned |-> {}]),
    ([op |-> (t1 :> "subscribe" @@ t2 :> "exists" @@ t3 :> "exists"),subs |-> {},pending |-> <<>>,active |-> (t1 :> "-" @@ t2 :> "-" @@ t3 :> "-"),freed |-> {},todo |-> (t1 :> {} @@ t2 :> {} @@ t3 :> {}),opsLeft |-> (t1 :> 1 @@ t2 :> 2 @@ t3 :> 2),pc |-> (t1 :> "acquire" @@ t2 :> "idle" @@ t3 :> "idle"),calls |-> <<0>>,inCb |-> (t1 :> 0 @@ t2 :> 0 @@ t3 :> 0),arg |-> (t1 :> 1 @@ t2 :> 0 @@ t3 :> 0),invalid |-> {},listW |-> {},retired |-> {},returned |-> {}]),
    ([op |-> (t1 :> "subscribe" @@ t2 :> "exists" @@ t3 :> "exists"),subs |-> {},pending |-> <<>>,active |-> (t1 :> "Write" @@ t2 :> "-" @@ t3 :> "-"),freed |-> {},todo |-> (t1 :> {} @@ t2 :> {} @@ t3 :> {}),opsLeft |-> (t1 :> 1 @@ t2 :> 2 @@ t3 :> 2),pc |-> (t1 :> "lin" @@ t2 :> "idle" @@ t3 :> "idle"),calls |-> <<0>>,inCb |-> (t1 :> 0 @@ t2 :> 0 @@ t3 :> 0),arg |-> (t1 :> 1 @@ t2 :> 0 @@ t3 :> 0),invalid |-> {},listW |-> {},retired |-> {},returned |-> {t1}]),
    ([op |-> (t1 :> "subscribe" @@ t2 :> "exists" @@ t3 :> "exists"),subs |-> {1},pending |-> <<>>,active |-> (t1 :> "Write" @@ t2 :> "-" @@ t3 :> "-"),freed |-> {},todo |-> (t1 :> {} @@ t2 :> {} @@ t3 :> {}),opsLeft |-> (t1 :> 1 @@ t2 :> 2 @@ t3 :> 2),pc |-> (t1 :> "deliver" @@ t2 :> "idle" @@ t3 :> "idle"),calls |-> <<0>>,inCb |-> (t1 :> 0 @@ t2 :> 0 @@ t3 :> 0),arg |-> (t1 :> 1 @@ t2 :> 0 @@ t3 :> 0),invalid |-> {},listW |-> {},retired |-> {},returned |-> {t1}]),
    ([op |-> (t1 :> "subscribe" @@ t2 :> "exists" @@ t3 :> "exists"),subs |-> {1},pending |-> <<>>,active |-> (t1 :> "-" @@ t2 :> "-" @@ t3 :> "-"),freed |-> {},todo |-> (t1 :> {} @@ t2 :> {} @@ t3 :> {}),opsLeft |-> (t1 :> 1 @@ t2 :> 2 @@ t3 :> 2),pc |-> (t1 :> "idle" @@ t2 :> "idle" @@ t3 :> "idle"),calls |-> <<0>>,inCb |-> (t1 :> 0 @@ t2 :> 0 @@ t3 :> 0),arg |-> (t1 :> 1 @@ t2 :> 0 @@ t3 :> 0),invalid |-> {},listW |-> {},retired |-> {},returned |-> {}]),
    ([op |-> (t1 :> "notify" @@ t2 :> "exists" @@ t3 :> "exists"),subs |-> {1},pending |-> <<>>,active |-> (t1 :> "-" @@ t2 :> "-" @@ t3 :> "-"),freed |-> {},todo |-> (t1 :> {} @@ t2 :> {} @@ t3 :> {}),opsLeft |-> (t1 :> 0 @@ t2 :> 2 @@ t3 :> 2),pc |-> (t1 :> "acquire" @@ t2 :> "idle" @@ t3 :> "idle"),calls |-> <<0>>,inCb |-> (t1 :> 0 @@ t2 :> 0 @@ t3 :> 0),arg |-> (t1 :> 0 @@ t2 :> 0 @@ t3 :> 0),invalid |-> {},listW |-> {},retired |-> {},returned |-> {}]),
    ([op |-> (t1 :> "notify" @@ t2 :> "exists" @@ t3 :> "exists"),subs |-> {1},pending |-> <<>>,active |-> (t1 :> "Read" @@ t2 :> "-" @@ t3 :> "-"),freed |-> {},todo |-> (t1 :> {} @@ t2 :> {} @@ t3 :> {}),opsLeft |-> (t1 :> 0 @@ t2 :> 2 @@ t3 :> 2),pc |-> (t1 :> "lin" @@ t2 :> "idle" @@ t3 :> "idle"),calls |-> <<0>>,inCb |-> (t1 :> 0 @@ t2 :> 0 @@ t3 :> 0),arg |-> (t1 :> 0 @@ t2 :> 0 @@ t3 :> 0),invalid |-> {},listW |-> {},retired |-> {},returned |-> {t1}]),
    ([op |-> (t1 :> "notify" @@ t2 :> "notify" @@ t3 :> "exists"),subs |-> {1},pending |-> <<>>,active |-> (t1 :> "Read" @@ t2 :> "-" @@ t3 :> "-"),freed |-> {},todo |-> (t1 :> {} @@ t2 :> {} @@ t3 :> {}),opsLeft |-> (t1 :> 0 @@ t2 :> 1 @@ t3 :> 2),pc |-> (t1 :> "lin" @@ t2 :> "acquire" @@ t3 :> "idle"),calls |-> <<0>>,inCb |-> (t1 :> 0 @@ t2 :> 0 @@ t3 :> 0),arg |-> (t1 :> 0 @@ t2 :> 0 @@ t3 :> 0),invalid |-> {},listW |-> {},retired |-> {},returned |-> {t1}]),
    ([op |-> (t1 :> "notify" @@ t2 :> "notify" @@ t3 :> "exists"),subs |-> {1},pending |-> <<>>,active |-> (t1 :> "Read" @@ t2 :> "Read" @@ t3 :> "-"),freed |-> {},todo |-> (t1 :> {} @@ t2 :> {} @@ t3 :> {}),opsLeft |-> (t1 :> 0 @@ t2 :> 1 @@ t3 :> 2),pc |-> (t1 :> "lin" @@ t2 :> "lin" @@ t3 :> "idle"),calls |-> <<0>>,inCb |-> (t1 :> 0 @@ t2 :> 0 @@ t3 :> 0),arg |-> (t1 :> 0 @@ t2 :> 0 @@ t3 :> 0),invalid |-> {},listW |-> {},retired |-> {},returned |-> {t1, t2}]),
    ([op |-> (t1 :> "notify" @@ t2 :> "notify" @@ t3 :> "exists"),subs |-> {1},pending |-> <<>>,active |-> (t1 :> "Read" @@ t2 :> "Read" @@ t3 :> "-"),freed |-> {},todo |-> (t1 :> {1} @@ t2 :> {} @@ t3 :> {}),opsLeft |-> (t1 :> 0 @@ t2 :> 1 @@ t3 :> 2),pc |-> (t1 :> "deliver" @@ t2 :> "lin" @@ t3 :> "idle"),calls |-> <<0>>,inCb |-> (t1 :> 0 @@ t2 :> 0 @@ t3 :> 0),arg |-> (t1 :> 0 @@ t2 :> 0 @@ t3 :> 0),invalid |-> {},listW |-> {},retired |-> {},returned |-> {t1, t2}]),
    ([op |-> (t1 :> "notify" @@ t2 :> "notify" @@ t3 :> "exists"),subs |-> {1},pending |-> <<>>,active |-> (t1 :> "Read" @@ t2 :> "Read" @@ t3 :> "-"),freed |-> {},todo |-> (t1 :> {} @@ t2 :> {} @@ t3 :> {}),opsLeft |-> (t1 :> 0 @@ t2 :> 1 @@ t3 :> 2),pc |-> (t1 :> "deliver" @@ t2 :> "lin" @@ t3 :> "idle"),calls |-> <<1>>,inCb |-> (t1 :> 1 @@ t2 :> 0 @@ t3 :> 0),arg |-> (t1 :> 0 @@ t2 :> 0 @@ t3 :> 0),invalid |-> {},listW |-> {},retired |-> {},returned |-> {t1, t2}]),
    ([op |-> (t1 :> "notify" @@ t2 :> "notify" @@ t3 :> "exists"),subs |-> {1},pending |-> <<>>,active |-> (t1 :> "Read" @@ t2 :> "Read" @@ t3 :> "-"),freed |-> {},todo |-> (t1 :> {} @@ t2 :> {1} @@ t3 :> {}),opsLeft |-> (t1 :> 0 @@ t2 :> 1 @@ t3 :> 2),pc |-> (t1 :> "deliver" @@ t2 :> "deliver" @@ t3 :> "idle"),calls |-> <<1>>,inCb |-> (t1 :> 1 @@ t2 :> 0 @@ t3 :> 0),arg |-> (t1 :> 0 @@ t2 :> 0 @@ t3 :> 0),invalid |-> {},listW |-> {},retired |-> {},returned |-> {t1, t2}]),
    ([op |-> (t1 :> "notify" @@ t2 :> "notify" @@ t3 :> "exists"),subs |-> {1},pending |-> <<>>,active |-> (t1 :> "Read" @@ t2 :> "Read" @@ t3 :> "-"),freed |-> {},todo |-> (t1 :> {} @@ t2 :> {} @@ t3 :> {}),opsLeft |-> (t1 :> 0 @@ t2 :> 1 @@ t3 :> 2),pc |-> (t1 :> "deliver" @@ t2 :> "deliver" @@ t3 :> "idle"),calls |-> <<2>>,inCb |-> (t1 :> 1 @@ t2 :> 1 @@ t3 :> 0),arg |-> (t1 :> 0 @@ t2 :> 0 @@ t3 :> 0),invalid |-> {},listW |-> {},retired |-> {},returned |-> {t1, t2}])
    >>
----


=============================================================================

---- CONFIG MC_ConcRouter_TTrace_1791027582 ----
CONSTANTS
    t1 = t1
    t2 = t2
    t3 = t3
    Threads <- TH
    Obs = { 1 , 2 }
    MaxOps = 2
    Weak = "none"
    OneShots = { 1 }
    NotifyLock = "Read"
    Removal = "purge"
    t1 = t1
    t2 = t2
    t3 = t3

INVARIANT
    _inv

CHECK_DEADLOCK
    \* CHECK_DEADLOCK off because of PROPERTY or INVARIANT above.
    FALSE

INIT
    _init

NEXT
    _next

CONSTANT
    _TETrace <- _trace

ALIAS
    _expression
=============================================================================
\* Generated on Sat Oct 03 11:39:45 UTC 2026