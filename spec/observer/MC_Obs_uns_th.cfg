SPECIFICATION Spec
CONSTANT Kind = "int"
CONSTANT Dom <- DomUnsT
CONSTANT Tol = 0
CONSTANT One = 1
CONSTANT Deltas <- DeltasUns
CONSTANT Factors <- FactorsU
CONSTANT Divisors <- DivUns
CONSTANT Halves <- HalvesUns
CONSTANT Thrower = FALSE
CONSTANT MaxLen = 0
INVARIANTS TypeOK ExactlyOnce NewValue
PROPERTY ChangeNotifies
CHECK_DEADLOCK FALSE
