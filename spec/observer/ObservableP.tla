---------------------------- MODULE ObservableP ----------------------------
(***************************************************************************)
(* P layer for tulz::Observable<T, Eq> (C16).                              *)
(*  val     the held value      subs   current subscribers (subset of 1..2)*)
(*  notes   notifications caused by the last operation: a set of           *)
(*          <<subscriber, value>> (each subscriber at most once per        *)
(*          operation, with the post-operation value)                      *)
(*  ret     value returned by the last operation (++/-- : the operator's   *)
(*          result; otherwise value() afterwards)                          *)
(* Kind = "int": integers, C++ truncating division, exact equality.        *)
(* Kind = "flt": values are multiples of 1/4 stored as integers (quarters),*)
(*               Eq = |a - b| <= Tol quarters (tolerance comparator);      *)
(*               ++/-- move by One = 4 quarters; division only when exact. *)
(* Kind = "str": sequences over {1,2} ("a","b"), only =, +=, apply.        *)
(***************************************************************************)
EXTENDS Integers, Sequences, FiniteSets
CONSTANTS Kind, Dom, Tol, One, Deltas, Factors, Divisors, MaxLen,
          Halves,  \* integer kinds only: operands h/2 of another arithmetic type (double) handed to += -= *= /=
          Thrower  \* TRUE: the callback of subscriber 2 throws (after recording its notification). The exception leaves the operator:
                   \* subscribers that come after it in subscription order miss THIS notification; the value has changed all the same,
                   \* and the next operation is an ordinary one
VARIABLES val, subs, notes, ret,
          first    \* which of two current subscribers subscribed first (0: fewer than two)
vars == <<val, subs, notes, ret, first>>

Abs(x) == IF x < 0 THEN -x ELSE x
\* floating point only: three distinguished values outside Dom (written as integers the harness maps to real values)
\*   Big   2^24 (float) / 2^53 (double): adding a quarter or a half to it is absorbed by rounding
\*   PInf / NInf   what a finite non-zero value divided by zero becomes
Big == 1000000
PInf == 2000000
NInf == -2000000
\* unsigned kinds (an integer kind whose domain has no negative value): Big stands for 2^(n-1), the value whose multiples wrap
\* around: Big * 3 = Big and Big * 2 = 0 in arithmetic modulo 2^n
IsUns == Kind = "int" /\ Dom # {} /\ \A v \in Dom : v >= 0
Specials == IF Kind = "flt" THEN {Big, PInf, NInf} ELSE IF IsUns THEN {Big} ELSE {}
\* |a - b| <= Tol; an infinity is not within tolerance of anything (inf - inf is NaN), Big only of itself
Eq(a, b) == IF Kind = "str" THEN a = b
            ELSE IF a \in {PInf, NInf} \/ b \in {PInf, NInf} THEN FALSE
            ELSE IF a = Big \/ b = Big THEN a = b
            ELSE Abs(a - b) <= Tol
InDom(v) == IF Kind = "str" THEN Len(v) <= MaxLen ELSE v \in Dom
TruncDiv(a, b) == IF (a >= 0) = (b > 0) THEN Abs(a) \div Abs(b) ELSE -(Abs(a) \div Abs(b))
Strs == UNION {[1..n -> {1, 2}] : n \in 0..MaxLen}
Values == IF Kind = "str" THEN Strs ELSE Dom

Init == /\ val \in Values /\ subs = {} /\ notes = {} /\ ret = val /\ first = 0

NotifyAll(v) == IF Thrower /\ subs = {1, 2} /\ first = 2 THEN {<<2, v>>}      \* 2 is notified first and throws: 1 is never reached
                ELSE {<<s, v>> : s \in subs}
\* operator= : compare, store, notify; an Eq-equal assignment leaves the stored value untouched
Assign(v) == /\ v \in Values
             /\ IF Eq(val, v) THEN UNCHANGED val /\ notes' = {}
                              ELSE val' = v /\ notes' = NotifyAll(v)
             /\ ret' = val' /\ UNCHANGED <<subs, first>>
\* apply() and the compound operators: mutate, then notify iff the value changed according to Eq
Mutate(nv) == /\ InDom(nv) /\ val' = nv
              /\ notes' = IF Eq(val, nv) THEN {} ELSE NotifyAll(nv)
              /\ ret' = nv /\ UNCHANGED <<subs, first>>
Ord == val \notin Specials      \* the arithmetic of the model is defined on ordinary values only
Add(d) == Kind # "str" /\ Ord /\ d \in Deltas /\ Mutate(val + d)
Sub(d) == Kind # "str" /\ Ord /\ d \in Deltas /\ Mutate(val - d)
Mul(f) == Kind # "str" /\ Ord /\ f \in Factors /\ Mutate(IF Kind = "flt" THEN val * f ELSE val * f)
Div(f) == /\ Kind # "str" /\ Ord /\ f \in Divisors
          /\ IF Kind = "flt" THEN val % Abs(f) = 0 /\ Mutate(TruncDiv(val, f)) ELSE Mutate(TruncDiv(val, f))
\* T op= double for an integer T: computed in double, truncated towards zero on the way back (the operand is NOT narrowed first)
AddF(h) == Kind = "int" /\ h \in Halves /\ Mutate(TruncDiv(2 * val + h, 2))
SubF(h) == Kind = "int" /\ h \in Halves /\ Mutate(TruncDiv(2 * val - h, 2))
MulF(h) == Kind = "int" /\ h \in Halves /\ Mutate(TruncDiv(val * h, 2))
DivF(h) == Kind = "int" /\ h \in Halves /\ h # 0 /\ Mutate(TruncDiv(2 * val, h))
\* T = double for an integer T: what is compared and stored is the operand converted to T (5 = 5.5 changes nothing)
AssignF(h) == /\ Kind = "int" /\ h \in Halves /\ InDom(TruncDiv(h, 2))
              /\ LET nv == TruncDiv(h, 2) IN
                 IF Eq(val, nv) THEN UNCHANGED val /\ notes' = {} ELSE val' = nv /\ notes' = NotifyAll(nv)
              /\ ret' = val' /\ UNCHANGED <<subs, first>>
\* operator=(2^24): an ordinary assignment of a value outside Dom
AssignBig == /\ (Kind = "flt" \/ IsUns)
             /\ IF Eq(val, Big) THEN UNCHANGED val /\ notes' = {} ELSE val' = Big /\ notes' = NotifyAll(Big)
             /\ ret' = val' /\ UNCHANGED <<subs, first>>
\* 2^24 += 0.25 (or 0.5): the sum rounds back to 2^24 -- the value did not change, nobody is notified
AddAbsorbed(d) == /\ Kind = "flt" /\ val = Big /\ d \in {1, 2}
                  /\ UNCHANGED <<val, subs, first>> /\ notes' = {} /\ ret' = Big
\* unsigned: 2^(n-1) *= 3 wraps around to 2^(n-1) -- the value did not change, nobody is notified; 2^(n-1) *= 2 is 0, a change
MulWrap(f) == /\ IsUns /\ val = Big /\ f \in {2, 3}
              /\ IF f = 3 THEN UNCHANGED val /\ notes' = {} /\ ret' = Big
                          ELSE val' = 0 /\ notes' = NotifyAll(0) /\ ret' = 0
              /\ UNCHANGED <<subs, first>>
\* a finite non-zero value divided by zero becomes an infinity: a change like any other
DivZero == /\ Kind = "flt" /\ Ord /\ val # 0
           /\ val' = (IF val > 0 THEN PInf ELSE NInf) /\ notes' = NotifyAll(val') /\ ret' = val' /\ UNCHANGED <<subs, first>>
Concat(s) == Kind = "str" /\ s \in Strs /\ Len(s) >= 1 /\ Mutate(val \o s)
Apply(f) == /\ f \in {"id", "inc", "zero"} /\ (Ord \/ f = "zero")
            /\ Mutate(CASE f = "id" -> val
                        [] f = "inc" -> IF Kind = "str" THEN val \o <<1>> ELSE val + One
                        [] f = "zero" -> IF Kind = "str" THEN <<>> ELSE 0)
\* increment and decrement always notify
Step(nv, r) == /\ Kind # "str" /\ Ord /\ InDom(nv) /\ val' = nv /\ notes' = NotifyAll(nv) /\ ret' = r /\ UNCHANGED <<subs, first>>
PreInc == Step(val + One, val + One)
PostInc == Step(val + One, val)
PreDec == Step(val - One, val - One)
PostDec == Step(val - One, val)
\* Observable b(std::move(a)) / b = std::move(a): value and comparator move along, nobody is notified. Only without
\* subscribers: a Subscription handle keeps pointing at the Subject inside the OLD object, so handles do not survive a
\* move (spec note N8) and a history that moves a subscribed Observable and then uses a handle is not a valid one
MoveConstruct == subs = {} /\ notes' = {} /\ ret' = val /\ UNCHANGED <<val, subs, first>>
MoveAssign == subs = {} /\ notes' = {} /\ ret' = val /\ UNCHANGED <<val, subs, first>>
Subscribe(s) == /\ s \in {1, 2} \ subs /\ subs' = subs \cup {s} /\ notes' = {} /\ ret' = val /\ UNCHANGED val
                /\ first' = IF subs = {} THEN 0 ELSE CHOOSE o \in subs : TRUE
Unsubscribe(s) == s \in subs /\ subs' = subs \ {s} /\ notes' = {} /\ ret' = val /\ first' = 0 /\ UNCHANGED val

Next == \/ \E v \in Values : Assign(v)
        \/ \E d \in Deltas : Add(d) \/ Sub(d)
        \/ \E f \in Factors : Mul(f)
        \/ \E f \in Divisors : Div(f)
        \/ \E h \in Halves : AddF(h) \/ SubF(h) \/ MulF(h) \/ DivF(h) \/ AssignF(h)
        \/ AssignBig \/ DivZero \/ \E d \in {1, 2} : AddAbsorbed(d)
        \/ \E f \in {2, 3} : MulWrap(f)
        \/ \E s \in Strs : Concat(s)
        \/ \E f \in {"id", "inc", "zero"} : Apply(f)
        \/ PreInc \/ PostInc \/ PreDec \/ PostDec \/ MoveConstruct \/ MoveAssign
        \/ \E s \in {1, 2} : Subscribe(s) \/ Unsubscribe(s)
Spec == Init /\ [][Next]_vars

\* C16: with exact equality a subscriber that records notifications always holds the current value
TypeOK == (InDom(val) \/ val \in Specials) /\ subs \subseteq {1, 2}
ExactlyOnce == \A n1, n2 \in notes : n1[1] = n2[1] => n1 = n2
NewValue == \A n \in notes : n[2] = val /\ n[1] \in subs
\* every change (according to Eq) notifies everybody, no change notifies nobody  (++/-- excepted: they always notify)
ChangeNotifies == [][(val' # val /\ ~Eq(val, val')) =>
                        (notes' = {<<s, val'>> : s \in subs'} \/ (Thrower /\ subs' = {1, 2} /\ first' = 2 /\ notes' = {<<2, val'>>}))]_vars
=============================================================================
