---- MODULE MC_ConcRouter ----
EXTENDS ConcRouter
CONSTANTS t1, t2, t3
TH == {t1, t2, t3}
TH2 == {t1, t2}
====
