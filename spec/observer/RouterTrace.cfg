SPECIFICATION TSpec
CONSTANT Names <- NamesABC
CONSTANT MaxDepth = 4
INVARIANTS Accepted Progress
CHECK_DEADLOCK FALSE
