SPECIFICATION Spec
CONSTANT MaxSubs = 5
CONSTANT Handles = {"h1", "h2", "h3"}
CONSTANT Extra = {"x1", "x2"}
CONSTANT Scripts <- Scripts2
CONSTANT MaxDepth = 2
CONSTANT Args = {1}
CONSTANT Foreign = 99
CONSTANT HOrder <- Order123
CONSTANT CountNotifies = TRUE
CONSTANT AllowOps <- ReOps
INVARIANTS OncePerRound HandlesDistinct
PROPERTIES OnlyLive
CONSTRAINT C10Bound
CONSTRAINT OneDouble
ACTION_CONSTRAINT NoLateSubscribe
CHECK_DEADLOCK FALSE
