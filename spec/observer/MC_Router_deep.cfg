SPECIFICATION Spec
CONSTANT Names <- NamesAB
CONSTANT MaxDepth = 3
CONSTANT MaxSubs = 2
CONSTANT NotifyPats <- ShrinkSmall3
CONSTANT ShrinkPats <- ShrinkSmall3
CONSTANT Probes <- Pats3
INVARIANTS PrefixClosed SubjOnNodes DepthOK ExistsOK ShrinkOK
CHECK_DEADLOCK FALSE
