---------------------------- MODULE RoutingKeyP ----------------------------
(***************************************************************************)
(* RoutingKeyBuilder / RoutingKey / RoutingLevelView: the input language   *)
(* of the routers (not one of the listed properties; the router specs take *)
(* keys as given sequences, this module says how the code builds and walks *)
(* them).                                                                  *)
(*  bl     levels handed to the builder so far (without the implicit root) *)
(*  phase  "building" | "built"                                            *)
(*  key    levels of the built key (without the root)                      *)
(*  cur    index of the level the view stands on: 0 = root                 *)
(* A level is a name or "r:<regex>".  What the code can observe of a view  *)
(* (count, index, isRoot, isLeaf, isRegex, asString, matches(n) for every  *)
(* probe name) is the derived record Ob.                                   *)
(***************************************************************************)
EXTENDS Naturals, Sequences, FiniteSets
CONSTANTS Names,       \* level names a key can be built from
          Regexes,     \* "r:..." levels
          Probes,      \* names handed to matches()
          MaxDepth
VARIABLES bl, phase, key, cur, ob
vars == <<bl, phase, key, cur, ob>>

Levels == Names \cup Regexes
IsRegex(l) == l \in Regexes
\* full match (std::regex_match), not search: "ab" matches neither a nor a|b nor [^a]
Match(l, n) ==
    CASE l = "r:.*" -> TRUE
      [] l = "r:a" -> n = "a"
      [] l = "r:a|b" -> n \in {"a", "b"}
      [] l = "r:[^a]" -> n \in {"b", "c"}
      [] OTHER -> l = n

LevelAt(k, c) == IF c = 0 THEN "" ELSE k[c]
ObOf(k, c) == [count |-> Len(k) + 1, index |-> c, root |-> c = 0, leaf |-> c = Len(k),
               regex |-> IsRegex(LevelAt(k, c)), str |-> IF IsRegex(LevelAt(k, c)) THEN "-" ELSE LevelAt(k, c),
               m |-> {n \in Probes : Match(LevelAt(k, c), n)}]
\* ob is a function of (key, cur): it is a variable only so that TLC's state dump carries it
Obs == ob' = ObOf(key', cur')

Init == bl = <<>> /\ phase = "building" /\ key = <<>> /\ cur = 0 /\ ob = ObOf(<<>>, 0)

\* RoutingKeyBuilder::level(std::string) / level(std::regex) / all()
AddName(n) == /\ phase = "building" /\ Len(bl) < MaxDepth /\ n \in Names
              /\ bl' = Append(bl, n) /\ UNCHANGED <<phase, key, cur, ob>>
AddRegex(r) == /\ phase = "building" /\ Len(bl) < MaxDepth /\ r \in Regexes \ {"r:.*"}
               /\ bl' = Append(bl, r) /\ UNCHANGED <<phase, key, cur, ob>>
AddAll == /\ phase = "building" /\ Len(bl) < MaxDepth
          /\ bl' = Append(bl, "r:.*") /\ UNCHANGED <<phase, key, cur, ob>>
\* build(): the key owns a root level "" followed by the levels in call order; the view starts at the root.
\* how = "chain": default constructor + level()/all() calls; "ctor": the variadic constructor with the same arguments
Build(how) == /\ phase = "building" /\ how \in {"chain", "ctor"}
              /\ how = "ctor" => Len(bl) \in 1..2
              /\ key' = bl /\ phase' = "built" /\ cur' = 0 /\ UNCHANGED bl /\ Obs
\* RoutingLevelView::up() goes away from the root, down() towards it
Up == phase = "built" /\ cur < Len(key) /\ cur' = cur + 1 /\ UNCHANGED <<bl, phase, key>> /\ Obs
Down == phase = "built" /\ cur > 0 /\ cur' = cur - 1 /\ UNCHANGED <<bl, phase, key>> /\ Obs
\* a RoutingKey is a value: a copy (or a moved-to key) has the same levels, the original can go away
CopyKey == phase = "built" /\ UNCHANGED vars
MoveKey == phase = "built" /\ UNCHANGED vars

Next == \/ \E n \in Names : AddName(n)
        \/ \E r \in Regexes : AddRegex(r)
        \/ AddAll
        \/ Build("chain") \/ Build("ctor")
        \/ Up \/ Down \/ CopyKey \/ MoveKey
Spec == Init /\ [][Next]_vars

CurLevel == LevelAt(key, cur)
Ob == ob

TypeOK == /\ bl \in UNION {[1..n -> Levels] : n \in 0..MaxDepth}
          /\ phase \in {"building", "built"}
          /\ cur \in 0..Len(key)
          /\ ob = ObOf(key, cur)
\* the root level is the empty name and never a regex; exactly one position is the leaf
RootIsEmptyName == phase = "built" /\ cur = 0 => Ob.m = Probes \cap {""} /\ ~Ob.regex
LeafUnique == phase = "built" => (Ob.leaf <=> ~ENABLED Up) /\ (Ob.root <=> ~ENABLED Down)
\* a key matches itself level by level when it is concrete (what subscribe() relies on)
ConcreteSelfMatch == phase = "built" /\ cur > 0 /\ ~Ob.regex /\ CurLevel \in Probes => CurLevel \in Ob.m
=============================================================================
