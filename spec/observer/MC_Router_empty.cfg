SPECIFICATION Spec
CONSTANT Names <- NamesE
CONSTANT MaxDepth = 2
CONSTANT MaxSubs = 2
CONSTANT NotifyPats <- PatsE
CONSTANT ShrinkPats <- ShrinkE
CONSTANT Probes <- PatsE
INVARIANTS PrefixClosed SubjOnNodes DepthOK ExistsOK ShrinkOK
CHECK_DEADLOCK FALSE
