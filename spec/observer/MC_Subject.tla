---- MODULE MC_Subject ----
EXTENDS SubjectP
Ops == {"unsub", "mute", "unmute", "inval"}
Scripts0 == {<<>>}
Single == {<<[k |-> k, t |-> t]>> : k \in Ops, t \in 0..3} \cup {<<[k |-> "sub", t |-> 0]>>, <<[k |-> "notify", t |-> 0]>>}
Scripts1 == Scripts0 \cup Single
Double == {s1 \o s2 : s1 \in Single, s2 \in Single}
Scripts2 == Scripts0 \cup Double
\* at most one observer carries a two-step script (bounds the product)
OneDouble == Cardinality({i \in 1..Len(subs) : Len(subs[i].script) = 2}) <= 1
\* C10 configs: all subscribing by the test happens before the first notify
NoLateSubscribe == nn > 0 => \A h \in Handles : handle'[h] = handle[h] \/ handle'[h] = 0
NoOrder == <<>>
Order123 == <<"h1", "h2", "h3">>
AllOps == {"Subscribe", "SubscribeMuted", "UnsubF", "UnsubH", "UnsubS", "Mute", "Unmute", "Invalidate", "Swap", "Notify"}
ReOps == {"Subscribe", "Notify"}
\* C10 exploration bound: the three named observers are subscribed first, then at most two notifies
C10Bound == nn <= 2 /\ (nn > 0 => \A h \in Handles : handle[h] # 0 \/ nid > 3)
====
