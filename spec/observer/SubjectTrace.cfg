SPECIFICATION TSpec
CONSTANT MaxSubs = 120
CONSTANT Handles = {"h1", "h2", "h3", "h4"}
CONSTANT Extra = {"x1", "x2"}
CONSTANT Scripts <- AnyScript
CONSTANT MaxDepth = 2
CONSTANT Args = {1, 2, 3}
CONSTANT Foreign = 99
CONSTANT HOrder <- NoOrder
CONSTANT CountNotifies = FALSE
CONSTANT AllowOps <- AllOps
INVARIANTS Accepted Progress
CHECK_DEADLOCK FALSE
