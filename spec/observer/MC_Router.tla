---- MODULE MC_Router ----
EXTENDS Router
Lv == {"a", "b", "c", "r:.*", "r:a|b", "r:[^a]"}
LvAll == Lv \cup {"r:a", "r:c"}
Pats(L, n) == UNION {[1..k -> L] : k \in 1..n}
\* the empty pattern addresses the root key itself (RoutingKeyBuilder{}.build())
Pats2 == Pats(Lv, 2) \cup {<<>>}
Pats3 == Pats(Lv, 3)
Pats2All == Pats(LvAll, 2) \cup {<<>>}
ShrinkSmall == Pats({"a", "b", "r:.*", "r:[^a]"}, 2)
ShrinkSmall3 == Pats({"a", "b", "r:.*", "r:[^a]"}, 3)
NamesAB == {"a", "b"}
\* regex semantics beyond the wildcard: names a / ab against alternations and lazy quantifiers
NamesRx == {"a", "ab"}
LvRx == {"ab", "r:a|ab", "r:a.*?", "r:a", "r:.*"}
PatsRx == Pats(LvRx, 2) \cup {<<>>}
ShrinkRx == Pats({"r:.*", "r:a"}, 2)
\* a level may be the empty string (the root node is nameless too, but it is not a level)
NamesE == {"", "a"}
LvE == {"", "a", "r:.*", "r:.+"}
PatsE == Pats(LvE, 2) \cup {<<>>}
ShrinkE == Pats({"", "r:.*", "r:.+"}, 2)
====
