----------------------------- MODULE ConcRouter -----------------------------
(***************************************************************************)
(* C11, design level: ConcurrentSubjectRouter = the sequential router      *)
(* guarded by an rwp::Resource.  The lock is the property layer RWLock     *)
(* (assumed via C01-C03, C12); the router is abstracted to the set of      *)
(* subscribed observers.  Every operation is                               *)
(*   Call -> acquire (Read for notify/exists/depth, Write for subscribe /  *)
(*   unsubscribe / shrink) -> Lin (the effect; a notify fixes its delivery *)
(*   set) -> callbacks one by one (each a scheduling point) -> release     *)
(* TLC checks that exclusion gives atomicity.  Weak = "subscribe" or       *)
(* "unsubscribe" models that operation taking only a READ lock / no lock   *)
(* (named deviations used to show the properties are not vacuous).         *)
(***************************************************************************)
EXTENDS Naturals, Sequences, FiniteSets
CONSTANTS Threads, Obs, MaxOps, Weak
VARIABLES active, returned, pending,        \* the lock (RWLock)
          subs,                             \* subscribed observers
          pc, op, arg, todo, inCb, opsLeft, \* per thread
          retired                           \* observers whose unsubscribe() has returned
lockvars == <<active, returned, pending>>
vars == <<active, returned, pending, subs, pc, op, arg, todo, inCb, opsLeft, retired>>

L == INSTANCE RWLock

OpNames == {"notify", "subscribe", "unsubscribe", "shrink", "exists"}
LockKind(o) == IF o \in {"notify", "exists"} \/ o = Weak THEN "Read" ELSE "Write"

Init == /\ L!PInit /\ subs = {} /\ retired = {}
        /\ pc = [t \in Threads |-> "idle"] /\ op = [t \in Threads |-> "exists"] /\ arg = [t \in Threads |-> 0]
        /\ todo = [t \in Threads |-> {}] /\ inCb = [t \in Threads |-> 0] /\ opsLeft = [t \in Threads |-> MaxOps]

Call(t, o, a) == /\ pc[t] = "idle" /\ opsLeft[t] > 0 /\ o \in OpNames
                 /\ a \in (IF o = "subscribe" THEN Obs \ (subs \cup retired) ELSE IF o = "unsubscribe" THEN subs ELSE {0})
                 /\ \A u \in Threads : u # t => ~(pc[u] # "idle" /\ op[u] \in {"subscribe", "unsubscribe"} /\ arg[u] = a /\ a # 0)
                 /\ op' = [op EXCEPT ![t] = o] /\ arg' = [arg EXCEPT ![t] = a] /\ pc' = [pc EXCEPT ![t] = "acquire"]
                 /\ opsLeft' = [opsLeft EXCEPT ![t] = @ - 1]
                 /\ UNCHANGED <<lockvars, subs, todo, inCb, retired>>
\* lock acquisition through the property layer (a parked request returns later)
Acquire(t) == /\ pc[t] = "acquire"
              /\ \/ L!AcquireNow(t, LockKind(op[t])) /\ pc' = [pc EXCEPT ![t] = "lin"]
                 \/ L!Park(t, LockKind(op[t])) /\ pc' = [pc EXCEPT ![t] = "parked"]
              /\ UNCHANGED <<subs, op, arg, todo, inCb, opsLeft, retired>>
Wake(t) == /\ pc[t] = "parked" /\ L!Return(t) /\ pc' = [pc EXCEPT ![t] = "lin"]
           /\ UNCHANGED <<subs, op, arg, todo, inCb, opsLeft, retired>>
Lin(t) == /\ pc[t] = "lin"
          /\ CASE op[t] = "subscribe" -> subs' = subs \cup {arg[t]} /\ UNCHANGED todo
               [] op[t] = "unsubscribe" -> subs' = subs \ {arg[t]} /\ UNCHANGED todo
               [] op[t] = "notify" -> todo' = [todo EXCEPT ![t] = subs] /\ UNCHANGED subs
               [] OTHER -> UNCHANGED <<subs, todo>>
          /\ pc' = [pc EXCEPT ![t] = "deliver"]
          /\ UNCHANGED <<lockvars, op, arg, inCb, opsLeft, retired>>
CbEnter(t, o) == /\ pc[t] = "deliver" /\ inCb[t] = 0 /\ o \in todo[t]
                 /\ inCb' = [inCb EXCEPT ![t] = o] /\ todo' = [todo EXCEPT ![t] = @ \ {o}]
                 /\ UNCHANGED <<lockvars, subs, pc, op, arg, opsLeft, retired>>
CbExit(t) == /\ pc[t] = "deliver" /\ inCb[t] # 0 /\ inCb' = [inCb EXCEPT ![t] = 0]
             /\ UNCHANGED <<lockvars, subs, pc, op, arg, todo, opsLeft, retired>>
Finish(t) == /\ pc[t] = "deliver" /\ inCb[t] = 0 /\ todo[t] = {}
             /\ L!Release(t) /\ pc' = [pc EXCEPT ![t] = "idle"]
             /\ retired' = IF op[t] = "unsubscribe" THEN retired \cup {arg[t]} ELSE retired
             /\ UNCHANGED <<subs, op, arg, todo, inCb, opsLeft>>

Next == \E t \in Threads : \/ \E o \in OpNames, a \in Obs \cup {0} : Call(t, o, a)
                           \/ Acquire(t) \/ Wake(t) \/ Lin(t) \/ Finish(t) \/ CbExit(t)
                           \/ \E o \in Obs : CbEnter(t, o)
Spec == Init /\ [][Next]_vars

(* ---- C11 ---- *)
InDelivery(t) == pc[t] = "deliver" /\ op[t] = "notify" /\ (todo[t] # {} \/ inCb[t] # 0)
\* no subscribe / unsubscribe / shrink takes effect while a delivery is in progress
NoWriteDuringDelivery == [][\A t \in Threads : (pc[t] = "lin" /\ pc'[t] = "deliver" /\ op[t] \in {"subscribe", "unsubscribe", "shrink"})
                               => \A u \in Threads : u # t => ~InDelivery(u)]_vars
\* once unsubscribe() has returned, that observer is never invoked again
NoCallAfterUnsubscribe == \A t \in Threads : inCb[t] # 0 => inCb[t] \notin retired
NoDeadlock == (ENABLED Next) \/ \A t \in Threads : pc[t] = "idle" /\ opsLeft[t] = 0
=============================================================================
