----------------------------- MODULE ConcRouter -----------------------------
(***************************************************************************)
(* C11, design level: ConcurrentSubjectRouter = the sequential router      *)
(* guarded by an rwp::Resource.  The lock is the property layer RWLock     *)
(* (assumed via C01-C03, C12); the router is abstracted to the set of      *)
(* subscribed observers.  Every operation is                               *)
(*   Call -> acquire (Read for notify/exists/depth, Write for subscribe /  *)
(*   unsubscribe / shrink) -> Lin (the effect; a notify fixes its delivery *)
(*   set) -> callbacks one by one (each a scheduling point) -> release     *)
(* TLC checks that exclusion gives atomicity.  Weak = "subscribe" or       *)
(* "unsubscribe" models that operation taking only a READ lock / no lock   *)
(* (named deviations used to show the properties are not vacuous).         *)
(*                                                                         *)
(* One-shot observers (OneShots): the callback invalidates its own         *)
(* observer (Observer::SelfView::invalidate).  Subject::notify removes an  *)
(* invalidated observer lazily, right after its callback returned, INSIDE  *)
(* the delivery loop: it erases it from the observer list and destroys it  *)
(* (PostCb -> RemoveBegin ... RemoveEnd, two steps because the erase is    *)
(* not atomic).  Removal / NotifyLock name the design alternatives:        *)
(*   Removal = "inline", NotifyLock = "Read"   the code as it stands (F12) *)
(*   Removal = "purge"    deliver under the read lock, then purge the      *)
(*                        invalidated observers under the write lock       *)
(*   NotifyLock = "Write" notify takes the write lock                      *)
(***************************************************************************)
EXTENDS Naturals, Sequences, FiniteSets
CONSTANTS Threads, Obs, MaxOps, Weak,
          OneShots,      \* observers that invalidate themselves in their first delivery
          NotifyLock,    \* "Read" (the code) or "Write"
          Removal        \* "inline" (the code) or "purge"
VARIABLES active, returned, pending,        \* the lock (RWLock)
          subs,                             \* subscribed observers (the observer list / id set of the subject)
          pc, op, arg, todo, inCb, opsLeft, \* per thread
          retired,                          \* observers whose unsubscribe() has returned
          invalid,                          \* observers that invalidated themselves and are still listed
          freed,                            \* observers that have been destroyed
          listW,                            \* threads in the middle of a mutation of the observer list
          calls                             \* deliveries per one-shot observer (capped at 2)
lockvars == <<active, returned, pending>>
osvars == <<invalid, freed, listW, calls>>
vars == <<active, returned, pending, subs, pc, op, arg, todo, inCb, opsLeft, retired, invalid, freed, listW, calls>>

L == INSTANCE RWLock

OpNames == {"notify", "subscribe", "unsubscribe", "shrink", "exists"}
LockKind(o) == IF o = "notify" THEN NotifyLock
               ELSE IF o = "exists" \/ o = Weak THEN "Read" ELSE "Write"

Init == /\ L!PInit /\ subs = {} /\ retired = {}
        /\ pc = [t \in Threads |-> "idle"] /\ op = [t \in Threads |-> "exists"] /\ arg = [t \in Threads |-> 0]
        /\ todo = [t \in Threads |-> {}] /\ inCb = [t \in Threads |-> 0] /\ opsLeft = [t \in Threads |-> MaxOps]
        /\ invalid = {} /\ freed = {} /\ listW = {} /\ calls = [o \in OneShots |-> 0]

Call(t, o, a) == /\ pc[t] = "idle" /\ opsLeft[t] > 0 /\ o \in OpNames
                 /\ a \in (IF o = "subscribe" THEN Obs \ (subs \cup retired \cup freed) ELSE IF o = "unsubscribe" THEN subs ELSE {0})
                 /\ \A u \in Threads : u # t => ~(pc[u] # "idle" /\ op[u] \in {"subscribe", "unsubscribe"} /\ arg[u] = a /\ a # 0)
                 /\ op' = [op EXCEPT ![t] = o] /\ arg' = [arg EXCEPT ![t] = a] /\ pc' = [pc EXCEPT ![t] = "acquire"]
                 /\ opsLeft' = [opsLeft EXCEPT ![t] = @ - 1]
                 /\ UNCHANGED <<lockvars, subs, todo, inCb, retired, osvars>>
\* lock acquisition through the property layer (a parked request returns later)
Acquire(t) == /\ pc[t] = "acquire"
              /\ \/ L!AcquireNow(t, LockKind(op[t])) /\ pc' = [pc EXCEPT ![t] = "lin"]
                 \/ L!Park(t, LockKind(op[t])) /\ pc' = [pc EXCEPT ![t] = "parked"]
              /\ UNCHANGED <<subs, op, arg, todo, inCb, opsLeft, retired, osvars>>
Wake(t) == /\ pc[t] = "parked" /\ L!Return(t) /\ pc' = [pc EXCEPT ![t] = "lin"]
           /\ UNCHANGED <<subs, op, arg, todo, inCb, opsLeft, retired, osvars>>
Lin(t) == /\ pc[t] = "lin"
          /\ CASE op[t] = "subscribe" -> subs' = subs \cup {arg[t]} /\ UNCHANGED <<todo, invalid, freed>>
               \* through a stale handle (the observer was removed lazily in the meantime) nothing happens: the call throws
               [] op[t] = "unsubscribe" -> /\ subs' = subs \ {arg[t]} /\ invalid' = invalid \ {arg[t]}
                                           /\ freed' = IF arg[t] \in subs THEN freed \cup {arg[t]} ELSE freed
                                           /\ UNCHANGED todo
               [] op[t] = "notify" -> todo' = [todo EXCEPT ![t] = subs] /\ UNCHANGED <<subs, invalid, freed>>
               [] op[t] = "purge" -> subs' = subs \ invalid /\ freed' = freed \cup invalid /\ invalid' = {} /\ UNCHANGED todo
               [] OTHER -> UNCHANGED <<subs, todo, invalid, freed>>
          /\ pc' = [pc EXCEPT ![t] = "deliver"]
          /\ UNCHANGED <<lockvars, op, arg, inCb, opsLeft, retired, listW, calls>>
\* `if (isSubscriptionIdValid(id)) (*observer)(args...)`: an observer that left the list since the snapshot is skipped,
\* Observer::operator() itself does not call an invalidated observer
CbEnter(t, o) == /\ pc[t] = "deliver" /\ inCb[t] = 0 /\ o \in todo[t] /\ o \in subs /\ o \notin invalid
                 /\ inCb' = [inCb EXCEPT ![t] = o] /\ todo' = [todo EXCEPT ![t] = @ \ {o}]
                 /\ calls' = IF o \in OneShots THEN [calls EXCEPT ![o] = IF @ < 2 THEN @ + 1 ELSE @] ELSE calls
                 /\ UNCHANGED <<lockvars, subs, pc, op, arg, opsLeft, retired, invalid, freed, listW>>
CbSkip(t, o) == /\ pc[t] = "deliver" /\ inCb[t] = 0 /\ o \in todo[t] /\ o \notin subs
                /\ todo' = [todo EXCEPT ![t] = @ \ {o}]
                /\ UNCHANGED <<lockvars, subs, pc, op, arg, inCb, opsLeft, retired, osvars>>
\* an invalidated observer that is still listed: not called, but the same lazy-removal test follows
CbInvalid(t, o) == /\ pc[t] = "deliver" /\ inCb[t] = 0 /\ o \in todo[t] /\ o \in subs /\ o \in invalid
                   /\ todo' = [todo EXCEPT ![t] = @ \ {o}]
                   /\ arg' = [arg EXCEPT ![t] = o] /\ pc' = [pc EXCEPT ![t] = "postcb"]
                   /\ UNCHANGED <<lockvars, subs, op, inCb, opsLeft, retired, osvars>>
CbExit(t) == /\ pc[t] = "deliver" /\ inCb[t] # 0 /\ inCb' = [inCb EXCEPT ![t] = 0]
             /\ invalid' = IF inCb[t] \in OneShots THEN invalid \cup {inCb[t]} ELSE invalid
             /\ arg' = [arg EXCEPT ![t] = inCb[t]] /\ pc' = [pc EXCEPT ![t] = "postcb"]
             /\ UNCHANGED <<lockvars, subs, op, todo, opsLeft, retired, freed, listW, calls>>
\* `if (isSubscriptionIdValid(id) && !observer->isValid()) unsubscribeById(id)`
PostCb(t) == /\ pc[t] = "postcb"
             /\ IF Removal = "inline" /\ arg[t] \in subs /\ arg[t] \in invalid
                THEN pc' = [pc EXCEPT ![t] = "removing"] /\ listW' = listW \cup {t}
                ELSE pc' = [pc EXCEPT ![t] = "deliver"] /\ UNCHANGED listW
             /\ UNCHANGED <<lockvars, subs, op, arg, todo, inCb, opsLeft, retired, invalid, freed, calls>>
RemoveEnd(t) == /\ pc[t] = "removing"
                /\ subs' = subs \ {arg[t]} /\ invalid' = invalid \ {arg[t]} /\ freed' = freed \cup {arg[t]}
                /\ listW' = listW \ {t} /\ pc' = [pc EXCEPT ![t] = "deliver"]
                /\ UNCHANGED <<lockvars, op, arg, todo, inCb, opsLeft, retired, calls>>
Finish(t) == /\ pc[t] = "deliver" /\ inCb[t] = 0 /\ todo[t] = {}
             /\ L!Release(t)
             /\ retired' = IF op[t] = "unsubscribe" THEN retired \cup {arg[t]} ELSE retired
             \* the alternative design: whoever saw invalidated observers comes back for them with the write lock
             /\ IF Removal = "purge" /\ op[t] = "notify" /\ invalid # {}
                THEN pc' = [pc EXCEPT ![t] = "acquire"] /\ op' = [op EXCEPT ![t] = "purge"]
                ELSE pc' = [pc EXCEPT ![t] = "idle"] /\ UNCHANGED op
             /\ UNCHANGED <<subs, arg, todo, inCb, opsLeft, osvars>>

Next == \E t \in Threads : \/ \E o \in OpNames, a \in Obs \cup {0} : Call(t, o, a)
                           \/ Acquire(t) \/ Wake(t) \/ Lin(t) \/ Finish(t) \/ CbExit(t) \/ PostCb(t) \/ RemoveEnd(t)
                           \/ \E o \in Obs : CbEnter(t, o) \/ CbSkip(t, o) \/ CbInvalid(t, o)
Spec == Init /\ [][Next]_vars

(* ---- C11 ---- *)
InDelivery(t) == pc[t] \in {"deliver", "postcb", "removing"} /\ op[t] = "notify" /\ (todo[t] # {} \/ inCb[t] # 0 \/ pc[t] # "deliver")
\* no subscribe / unsubscribe / shrink takes effect while a delivery is in progress
NoWriteDuringDelivery == [][\A t \in Threads : (pc[t] = "lin" /\ pc'[t] = "deliver" /\ op[t] \in {"subscribe", "unsubscribe", "shrink", "purge"})
                               => \A u \in Threads : u # t => ~InDelivery(u)]_vars
\* once unsubscribe() has returned, that observer is never invoked again
NoCallAfterUnsubscribe == \A t \in Threads : inCb[t] # 0 => inCb[t] \notin retired
NoDeadlock == (ENABLED Next) \/ \A t \in Threads : pc[t] = "idle" /\ opsLeft[t] = 0

(* ---- one-shot observers (F12) ---- *)
Inside(u) == pc[u] \in {"lin", "deliver", "postcb", "removing"}
\* whoever mutates the observer list is alone inside the router (C15 at the design level)
ListWriteExclusive == \A t \in listW : \A u \in Threads \ {t} : ~Inside(u)
\* nobody is inside the callback of an observer that has been destroyed
NoUseAfterFree == \A t \in Threads : inCb[t] # 0 => inCb[t] \notin freed
\* "as if executed one at a time": a one-shot observer is delivered to at most once
OneShotOnce == \A o \in OneShots : calls[o] <= 1
=============================================================================
