---- MODULE MC_RoutingKey ----
EXTENDS RoutingKeyP
NamesS == {"a", "b", "ab"}
RegexesS == {"r:.*", "r:a", "r:a|b", "r:[^a]"}
ProbesS == {"", "a", "b", "c", "ab"}
====
