SPECIFICATION TSpec
CONSTANT Names <- NamesABC
CONSTANT MaxDepth = 3
INVARIANTS Accepted Progress
CHECK_DEADLOCK FALSE
