SPECIFICATION Spec
CONSTANT Kind = "flt"
CONSTANT Dom <- DomFltT
CONSTANT Tol = 1
CONSTANT One = 4
CONSTANT Deltas <- DeltasFlt
CONSTANT Factors <- FactorsS
CONSTANT Divisors <- DivFlt
CONSTANT Halves <- Empty
CONSTANT Thrower = FALSE
CONSTANT MaxLen = 0
INVARIANTS TypeOK ExactlyOnce NewValue
PROPERTY ChangeNotifies
CHECK_DEADLOCK FALSE
