SPECIFICATION Spec
CONSTANT MaxSubs = 3
CONSTANT Handles = {"h1", "h2", "h3"}
CONSTANT Extra = {}
CONSTANT Scripts <- Scripts0
CONSTANT MaxDepth = 1
CONSTANT Args = {1}
CONSTANT Foreign = 99
CONSTANT HOrder <- NoOrder
CONSTANT CountNotifies = FALSE
CONSTANT AllowOps <- AllOps
INVARIANTS OncePerRound HandlesDistinct
PROPERTIES PlainNotify OnlyLive
CHECK_DEADLOCK FALSE
