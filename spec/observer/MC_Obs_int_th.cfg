SPECIFICATION Spec
CONSTANT Kind = "int"
CONSTANT Dom <- DomIntT
CONSTANT Tol = 0
CONSTANT One = 1
CONSTANT Deltas <- DeltasInt
CONSTANT Factors <- FactorsS
CONSTANT Divisors <- DivInt
CONSTANT Halves <- HalvesInt
CONSTANT Thrower = FALSE
CONSTANT MaxLen = 0
INVARIANTS TypeOK ExactlyOnce NewValue
PROPERTY ChangeNotifies
CHECK_DEADLOCK FALSE
