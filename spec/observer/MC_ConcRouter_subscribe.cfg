SPECIFICATION Spec
CONSTANTS t1 = t1 t2 = t2 t3 = t3
CONSTANT Threads <- TH
CONSTANT Obs = {1, 2}
CONSTANT MaxOps = 2
CONSTANT Weak = "subscribe"
CONSTANT OneShots = {}
CONSTANT NotifyLock = "Read"
CONSTANT Removal = "inline"
INVARIANTS NoCallAfterUnsubscribe NoDeadlock ListWriteExclusive NoUseAfterFree OneShotOnce
PROPERTY NoWriteDuringDelivery
CHECK_DEADLOCK FALSE
