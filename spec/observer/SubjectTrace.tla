---------------------------- MODULE SubjectTrace ----------------------------
(* T layer for tulz::Subject: recorded random histories (operation, what the callbacks logged,
   handle validity / mute state, observer destructions) validated against SubjectP.
   Event fields: op, h, h2, a, sc (script as a sequence of [k, t]), res, log (sequence of
   <<id, a, depth>>), valid / muted (records over the named handles), destroyed (sequence of ids). *)
EXTENDS SubjectP, Json, IOUtils
VARIABLES x, l
Ev == ndJsonDeserialize(IOEnv.TRACE_EVENTS)
Ix == ndJsonDeserialize(IOEnv.TRACE_INDEX)
Diag == "TRACE_DIAG" \in DOMAIN IOEnv /\ IOEnv.TRACE_DIAG = "1"
E == Ev[l]

\* expected deliveries (with optional ones) against the observed sequence
RECURSIVE Match(_, _, _, _)
Match(ex, i, ob, j) ==
    IF i > Len(ex) THEN j > Len(ob)
    ELSE LET e == ex[i]
             same == j <= Len(ob) /\ ob[j][1] = e.id /\ ob[j][2] = e.a /\ ob[j][3] = e.d
         IN IF e.opt THEN (same /\ Match(ex, i + 1, ob, j + 1)) \/ Match(ex, i + 1, ob, j)
            ELSE IF e.present THEN same /\ Match(ex, i + 1, ob, j + 1)
            ELSE Match(ex, i + 1, ob, j)

SeqToBag(s) == [v \in {s[i] : i \in 1..Len(s)} |-> Cardinality({i \in 1..Len(s) : s[i] = v})]
PostOK == /\ res' = E.res
          /\ Match(log', 1, E.log, 1)
          \* C05: validity and mute state reported by the handles
          /\ \A h \in Handles :
                /\ (handle'[h] = 0 \/ ~Active(subs', handle'[h])) => E.valid[h] = FALSE
                /\ (Active(subs', handle'[h]) /\ Entry(subs', handle'[h]).valid) => E.valid[h] = TRUE
                /\ (Active(subs', handle'[h]) /\ E.valid[h]) => E.muted[h] = Entry(subs', handle'[h]).muted
          \* every observer that left the subject has been destroyed exactly once, the others not at all
          /\ LET gone == (1..(nid' - 1)) \ Ids(subs') IN
             /\ \A i \in 1..Len(E.destroyed) : E.destroyed[i] \in gone
             /\ \A g \in gone : Cardinality({i \in 1..Len(E.destroyed) : E.destroyed[i] = g}) = 1

TInit == x \in 1..Len(Ix) /\ l = Ix[x].s /\ Init
Op(name, A) == l <= Ix[x].e /\ E.op = name /\ A /\ PostOK /\ l' = l + 1 /\ UNCHANGED x
TNext == \/ Op("Subscribe", Subscribe(E.h, E.sc)) \/ Op("UnsubH", UnsubH(E.h)) \/ Op("UnsubS", UnsubS(E.h))
         \/ Op("SubscribeMuted", SubscribeMuted(E.h, E.sc)) \/ Op("UnsubF", UnsubF(E.h))
         \/ Op("Mute", Mute(E.h) \/ MuteAgain(E.h)) \/ Op("Unmute", Unmute(E.h) \/ UnmuteAgain(E.h)) \/ Op("Invalidate", Invalidate(E.h))
         \/ Op("Drop", Drop(E.h)) \/ Op("Swap", Swap(E.h, E.h2)) \/ Op("Notify", Notify(E.a))
TSpec == TInit /\ [][TNext]_<<vars, x, l>>
Accepted == (l = Ix[x].e + 1) => PrintT(<<"ACCEPTED", x>>)
Progress == Diag => PrintT(<<"AT", x, l>>)
=============================================================================
