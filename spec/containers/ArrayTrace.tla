----------------------------- MODULE ArrayTrace -----------------------------
(* T layer for tulz::Array: recorded random histories validated against ArrayP.
   Event fields: e (operation), o, s (sequence argument), n, i, v, and the reported
   state sa/ia, sb/ib of both arrays after the call ("live" contents, "moved", "none").
   A reported 0 where the model holds 0 is "default/unspecified"; for arithmetic element
   types the recorder rewrites unspecified cells to 0 before validation. *)
EXTENDS ArrayP, TLC, Json, IOUtils
VARIABLES x, l
Ev == ndJsonDeserialize(IOEnv.TRACE_EVENTS)
Ix == ndJsonDeserialize(IOEnv.TRACE_INDEX)
Diag == "TRACE_DIAG" \in DOMAIN IOEnv /\ IOEnv.TRACE_DIAG = "1"
E == Ev[l]
Matches(o, s, items) == st'[o] = s /\ (s = "live" => arr'[o] = items)
PostOK == Matches("A", E.sa, E.ia) /\ Matches("B", E.sb, E.ib)
TInit == x \in 1..Len(Ix) /\ l = Ix[x].s /\ AInit
Op(name, A) == l <= Ix[x].e /\ E.e = name /\ A /\ PostOK /\ l' = l + 1 /\ UNCHANGED x
TNext == \/ Op("CtorPtr", CtorPtr(E.o, E.s)) \/ Op("CtorAdopt", CtorAdopt(E.o, E.s)) \/ Op("CtorList", CtorList(E.o, E.s))
         \/ Op("CtorSized", CtorSized(E.o, E.n)) \/ Op("CtorFilled", CtorFilled(E.o, E.n, E.v)) \/ Op("CtorDefault", CtorDefault(E.o))
         \/ Op("Resize", Resize(E.o, E.n)) \/ Op("ResizeFill", ResizeFill(E.o, E.n, E.v)) \/ Op("Write", Write(E.o, E.i, E.v))
         \/ Op("ResizeFillFrom", ResizeFillFrom(E.o, E.n, E.i))
         \/ Op("CopyConstruct", CopyConstruct(E.o)) \/ Op("CopyAssign", CopyAssign(E.o))
         \/ Op("SelfCopyAssign", SelfCopyAssign(E.o)) \/ Op("SelfMoveAssign", SelfMoveAssign(E.o))
         \/ Op("MoveConstruct", MoveConstruct(E.o)) \/ Op("MoveAssign", MoveAssign(E.o))
         \/ Op("Swap", Swap(E.o)) \/ Op("Destroy", Destroy(E.o))
TSpec == TInit /\ [][TNext]_<<avars, x, l>>
Accepted == (l = Ix[x].e + 1) => PrintT(<<"ACCEPTED", x>>)
Progress == Diag => PrintT(<<"AT", x, l>>)
=============================================================================
