------------------------------- MODULE ArrayP -------------------------------
(***************************************************************************)
(* P layer for tulz::Array (C14): value semantics of up to two arrays.     *)
(* The class has no hidden layout, so there is no separate I layer: every  *)
(* edge of this module's state graph is executed on the real class.        *)
(*                                                                         *)
(*  arr[o]   contents; 0 stands for "default constructed" (class types) /  *)
(*           "unspecified" (arithmetic types, Array<int>(n) and resize(n)) *)
(*  st[o]    "none" | "live" | "moved"                                     *)
(*  limbo[o] values a moved-from array may still own (swap-based moves)    *)
(***************************************************************************)
EXTENDS Naturals, Sequences, FiniteSets
CONSTANTS MaxLen, Vals, MutObjs, MaxBOps
VARIABLES arr, st, limbo, bops
avars == <<arr, st, limbo, bops>>

Objs == {"A", "B"}
Other(o) == IF o = "A" THEN "B" ELSE "A"
Min(a, b) == IF a < b THEN a ELSE b
SeqsUpTo(n) == UNION {[1..k -> Vals] : k \in 0..n}
IsVals(s) == s \in Seq(Vals) /\ Len(s) <= MaxLen
Fill(n, v) == [i \in 1..n |-> v]
Elems(s) == [v \in Vals \cup {0} |-> Cardinality({i \in 1..Len(s) : s[i] = v})]   \* multiset view

ATypeOK == /\ \A o \in Objs : arr[o] \in Seq(Vals \cup {0}) /\ Len(arr[o]) <= MaxLen
           /\ st \in [Objs -> {"none", "live", "moved"}]

AInit == /\ arr = [o \in Objs |-> <<>>] /\ st = [o \in Objs |-> "none"]
         /\ limbo = [o \in Objs |-> <<>>] /\ bops = 0

Live(o) == st[o] = "live"
Fresh(o) == st[o] = "none" /\ (o = "B" => Live("A"))
Set(o, s) == arr' = [arr EXCEPT ![o] = s] /\ st' = [st EXCEPT ![o] = "live"]
Keep == UNCHANGED <<limbo, bops>>
Two == bops < MaxBOps /\ bops' = bops + 1

\* ---- construction paths (A only: B is produced by copy / move) ----
CtorPtr(o, s) == o = "A" /\ Fresh(o) /\ IsVals(s) /\ Set(o, s) /\ Keep      \* Array(ptr, n, copy = true)
CtorAdopt(o, s) == o = "A" /\ Fresh(o) /\ IsVals(s) /\ Set(o, s) /\ Keep    \* Array(ptr, n, copy = false)
CtorList(o, s) == o = "A" /\ Fresh(o) /\ IsVals(s) /\ Set(o, s) /\ Keep     \* Array{..}
CtorSized(o, n) == o = "A" /\ Fresh(o) /\ n \in 0..MaxLen /\ Set(o, Fill(n, 0)) /\ Keep  \* Array(n)
CtorFilled(o, n, v) == o = "A" /\ Fresh(o) /\ n \in 0..MaxLen /\ v \in Vals /\ Set(o, Fill(n, v)) /\ Keep
CtorDefault(o) == o = "A" /\ Fresh(o) /\ Set(o, <<>>) /\ Keep

\* ---- single-object operations ----
Resize(o, n) == /\ o \in MutObjs /\ Live(o) /\ n \in 0..MaxLen
                /\ Set(o, [i \in 1..n |-> IF i <= Len(arr[o]) THEN arr[o][i] ELSE 0]) /\ Keep
ResizeFill(o, n, v) == /\ o \in MutObjs /\ Live(o) /\ n \in 0..MaxLen /\ v \in Vals
                       /\ Set(o, [i \in 1..n |-> IF i <= Len(arr[o]) THEN arr[o][i] ELSE v]) /\ Keep
\* resize(n, a[i]): the fill value is an element of the array itself (as std::vector allows); a
\* default-constructed / unspecified cell (0) copies as such
ResizeFillFrom(o, n, i) == /\ o \in MutObjs /\ Live(o) /\ n \in 0..MaxLen /\ i \in 1..Len(arr[o])
                           /\ Set(o, [j \in 1..n |-> IF j <= Len(arr[o]) THEN arr[o][j] ELSE arr[o][i]]) /\ Keep
\* a = a and a = std::move(a): nothing changes
SelfCopyAssign(o) == o \in MutObjs /\ Live(o) /\ UNCHANGED avars
SelfMoveAssign(o) == o \in MutObjs /\ Live(o) /\ UNCHANGED avars
Write(o, i, v) == /\ o \in MutObjs /\ Live(o) /\ i \in 1..Len(arr[o]) /\ v \in Vals
                  /\ Set(o, [arr[o] EXCEPT ![i] = v]) /\ Keep

\* ---- two-object operations ----
CopyConstruct(o) == /\ Two /\ st[o] = "none" /\ Live(Other(o))
                    /\ Set(o, arr[Other(o)]) /\ UNCHANGED limbo
CopyAssign(o) == /\ Two /\ st[o] # "none" /\ Live(Other(o))
                 /\ Set(o, arr[Other(o)]) /\ limbo' = [limbo EXCEPT ![o] = <<>>]
\* B(std::move(A)): the contents move; nothing of the new object existed before, so the source is left EMPTY and remains
\* an ordinary, usable array (after a move ASSIGNMENT it may instead still own what the target held: "moved" + limbo)
MoveConstruct(o) == /\ Two /\ st[o] = "none" /\ Live(Other(o))
                    /\ arr' = [arr EXCEPT ![o] = arr[Other(o)], ![Other(o)] = <<>>]
                    /\ st' = [st EXCEPT ![o] = "live"]
                    /\ UNCHANGED limbo
MoveAssign(o) == /\ Two /\ st[o] # "none" /\ Live(Other(o))
                 /\ arr' = [arr EXCEPT ![o] = arr[Other(o)], ![Other(o)] = <<>>]
                 /\ st' = [st EXCEPT ![o] = "live", ![Other(o)] = "moved"]
                 /\ limbo' = [limbo EXCEPT ![Other(o)] = arr[o] \o limbo[o], ![o] = <<>>]
Swap(o) == /\ Two /\ o = "A" /\ Live("A") /\ Live("B")
           /\ arr' = [arr EXCEPT !["A"] = arr["B"], !["B"] = arr["A"]]
           /\ UNCHANGED <<st, limbo>>
Destroy(o) == /\ Two /\ o = "B" /\ st[o] # "none"
              /\ arr' = [arr EXCEPT ![o] = <<>>] /\ st' = [st EXCEPT ![o] = "none"]
              /\ limbo' = [limbo EXCEPT ![o] = <<>>]

ANext == \E o \in Objs :
           \/ \E s \in SeqsUpTo(MaxLen) : CtorPtr(o, s) \/ CtorAdopt(o, s) \/ CtorList(o, s)
           \/ \E n \in 0..MaxLen : CtorSized(o, n) \/ Resize(o, n) \/ \E v \in Vals : CtorFilled(o, n, v) \/ ResizeFill(o, n, v)
           \/ CtorDefault(o)
           \/ \E i \in 1..MaxLen, v \in Vals : Write(o, i, v)
           \/ \E n \in 0..MaxLen, i \in 1..MaxLen : ResizeFillFrom(o, n, i)
           \/ CopyConstruct(o) \/ CopyAssign(o) \/ MoveConstruct(o) \/ MoveAssign(o) \/ Swap(o) \/ Destroy(o)
           \/ SelfCopyAssign(o) \/ SelfMoveAssign(o)
ASpec == AInit /\ [][ANext]_avars

\* C14 on the model: copies are independent (a Write to one object never changes the other) --
\* an action property over every step
Independent == [][\A o \in Objs : (\E i \in 1..MaxLen, v \in Vals : Write(o, i, v)) => arr'[Other(o)] = arr[Other(o)]]_avars
\* resize keeps the first min(old, new) elements
ResizeKeeps == [][\A o \in Objs, n \in 0..MaxLen : Resize(o, n) =>
                    SubSeq(arr'[o], 1, Min(Len(arr[o]), n)) = SubSeq(arr[o], 1, Min(Len(arr[o]), n))]_avars
=============================================================================
