SPECIFICATION Spec
CONSTANT N = 4
CONSTANT Steps = {0, 1, 2, 3}
INVARIANTS TypeOK DiffAntisym OrderTotal
CHECK_DEADLOCK FALSE
