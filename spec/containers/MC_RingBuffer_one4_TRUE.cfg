SPECIFICATION Spec
CONSTANT MaxCap = 4
CONSTANT Overwrite = TRUE
CONSTANT TwoObjects = FALSE
CONSTANT PhysicalDestroy = FALSE
CONSTANT AssignLeaks = FALSE
CONSTANT MutObjs = {"A"}
CONSTANT MaxBOps = 3
INVARIANTS PTypeOK NoDup LayoutMatches OnlyLogicalLive VictimsAreElements
PROPERTY Refines
CHECK_DEADLOCK FALSE
