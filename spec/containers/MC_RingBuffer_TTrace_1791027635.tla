---- MODULE MC_RingBuffer_TTrace_1791027635 ----
EXTENDS Sequences, TLCExt, Toolbox, MC_RingBuffer, Naturals, TLC

_expression ==
    LET MC_RingBuffer_TEExpression == INSTANCE MC_RingBuffer_TEExpression
    IN MC_RingBuffer_TEExpression!expression
----

_trace ==
    LET MC_RingBuffer_TETrace == INSTANCE MC_RingBuffer_TETrace
    IN MC_RingBuffer_TETrace!trace
----

_inv ==
    ~(
        TLCGet("level") = Len(_TETrace)
        /\
        ret = (0)
        /\
        st = ([A |-> "live", B |-> "none"])
        /\
        slots = ([A |-> <<2>>, B |-> <<>>])
        /\
        buf = ([A |-> <<2>>, B |-> <<>>])
        /\
        cap = ([A |-> 1, B |-> 0])
        /\
        size = ([A |-> 1, B |-> 0])
        /\
        pos = ([A |-> 0, B |-> 0])
        /\
        icap = ([A |-> 1, B |-> 0])
        /\
        limbo = ([A |-> {}, B |-> {}])
        /\
        bops = (0)
        /\
        victims = ({0})
    )
----

_init ==
    /\ slots = _TETrace[1].slots
    /\ pos = _TETrace[1].pos
    /\ limbo = _TETrace[1].limbo
    /\ ret = _TETrace[1].ret
    /\ cap = _TETrace[1].cap
    /\ st = _TETrace[1].st
    /\ buf = _TETrace[1].buf
    /\ bops = _TETrace[1].bops
    /\ size = _TETrace[1].size
    /\ icap = _TETrace[1].icap
    /\ victims = _TETrace[1].victims
----

_next ==
    /\ \E i,j \in DOMAIN _TETrace:
        /\ \/ /\ j = i + 1
              /\ i = TLCGet("level")
        /\ slots  = _TETrace[i].slots
        /\ slots' = _TETrace[j].slots
        /\ pos  = _TETrace[i].pos
        /\ pos' = _TETrace[j].pos
        /\ limbo  = _TETrace[i].limbo
        /\ limbo' = _TETrace[j].limbo
        /\ ret  = _TETrace[i].ret
        /\ ret' = _TETrace[j].ret
        /\ cap  = _TETrace[i].cap
        /\ cap' = _TETrace[j].cap
        /\ st  = _TETrace[i].st
        /\ st' = _TETrace[j].st
        /\ buf  = _TETrace[i].buf
        /\ buf' = _TETrace[j].buf
        /\ bops  = _TETrace[i].bops
        /\ bops' = _TETrace[j].bops
        /\ size  = _TETrace[i].size
        /\ size' = _TETrace[j].size
        /\ icap  = _TETrace[i].icap
        /\ icap' = _TETrace[j].icap
        /\ victims  = _TETrace[i].victims
        /\ victims' = _TETrace[j].victims

\* Uncomment the ASSUME below to write the states of the error trace
\* to the given file in Json format. Note that you can pass any tuple
\* to `JsonSerialize`. For example, a sub-sequence of _TETrace.
    \* ASSUME
    \*     LET J == INSTANCE Json
    \*         IN J!JsonSerialize("MC_RingBuffer_TTrace_1791027635.json", _TETrace)

=============================================================================

 Note that you can extract this module `MC_RingBuffer_TEExpression`
  to a dedicated file to reuse `expression` (the module in the 
  dedicated `MC_RingBuffer_TEExpression.tla` file takes precedence 
  over the module `MC_RingBuffer_TEExpression` below).

---- MODULE MC_RingBuffer_TEExpression ----
EXTENDS Sequences, TLCExt, Toolbox, MC_RingBuffer, Naturals, TLC

expression == 
    [
        \* To hide variables of the `MC_RingBuffer` spec from the error trace,
        \* remove the variables below.  The trace will be written in the order
        \* of the fields of this record.
        slots |-> slots
        ,pos |-> pos
        ,limbo |-> limbo
        ,ret |-> ret
        ,cap |-> cap
        ,st |-> st
        ,buf |-> buf
        ,bops |-> bops
        ,size |-> size
        ,icap |-> icap
        ,victims |-> victims
        
        \* Put additional constant-, state-, and action-level expressions here:
        \* ,_stateNumber |-> _TEPosition
        \* ,_slotsUnchanged |-> slots = slots'
        
        \* Format the `slots` variable as Json value.
        \* ,_slotsJson |->
        \*     LET J == INSTANCE Json
        \*     IN J!ToJson(slots)
        
        \* Lastly, you may build expressions over arbitrary sets of states by
        \* leveraging the _TETrace operator.  For example, this is how to
        \* count the number of times a spec variable changed up to the current
        \* state in the trace.
        \* ,_slotsModCount |->
        \*     LET F[s \in DOMAIN _TETrace] ==
        \*         IF s = 1 THEN 0
        \*         ELSE IF _TETrace[s].slots # _TETrace[s-1].slots
        \*             THEN 1 + F[s-1] ELSE F[s-1]
        \*     IN F[_TEPosition - 1]
    ]

=============================================================================



Parsing and semantic processing can take forever if the trace below is long.
 In this case, it is advised to uncomment the module below to deserialize the
 trace from a generated binary file.

\*
\*---- MODULE MC_RingBuffer_TETrace ----
\*EXTENDS IOUtils, MC_RingBuffer, TLC
\*
\*trace == IODeserialize("MC_RingBuffer_TTrace_1791027635.bin", TRUE)
\*
\*=============================================================================
\*

---- MODULE MC_RingBuffer_TETrace ----
EXTENDS MC_RingBuffer, TLC

trace == 
    <<
    ([ret |-> 0,st |-> [A |-> "live", B |-> "none"],slots |-> [A |-> <<1, 0, 0>>, B |-> <<>>],buf |-> [A |-> <<1>>, B |-> <<>>],cap |-> [A |-> 3, B |-> 0],size |-> [A |-> 1, B |-> 0],pos |-> [A |-> 0, B |-> 0],icap |-> [A |-> 3, B |-> 0],limbo |-> [A |-> {}, B |-> {}],bops |-> 0,victims |-> {}]),
    ([ret |-> 0,st |-> [A |-> "live", B |-> "none"],slots |-> [A |-> <<1, 0, 2>>, B |-> <<>>],buf |-> [A |-> <<2, 1>>, B |-> <<>>],cap |-> [A |-> 3, B |-> 0],size |-> [A |-> 2, B |-> 0],pos |-> [A |-> 2, B |-> 0],icap |-> [A |-> 3, B |-> 0],limbo |-> [A |-> {}, B |-> {}],bops |-> 0,victims |-> {}]),
    ([ret |-> 0,st |-> [A |-> "live", B |-> "none"],slots |-> [A |-> <<2>>, B |-> <<>>],buf |-> [A |-> <<2>>, B |-> <<>>],cap |-> [A |-> 1, B |-> 0],size |-> [A |-> 1, B |-> 0],pos |-> [A |-> 0, B |-> 0],icap |-> [A |-> 1, B |-> 0],limbo |-> [A |-> {}, B |-> {}],bops |-> 0,victims |-> {0}])
    >>
----


=============================================================================

---- CONFIG MC_RingBuffer_TTrace_1791027635 ----
CONSTANTS
    MaxCap = 3
    Overwrite = TRUE
    TwoObjects = FALSE
    PhysicalDestroy = TRUE
    AssignLeaks = FALSE
    MutObjs = { "A" }
    MaxBOps = 3

INVARIANT
    _inv

CHECK_DEADLOCK
    \* CHECK_DEADLOCK off because of PROPERTY or INVARIANT above.
    FALSE

INIT
    _init

NEXT
    _next

CONSTANT
    _TETrace <- _trace

ALIAS
    _expression
=============================================================================
\* Generated on Sat Oct 03 11:40:36 UTC 2026