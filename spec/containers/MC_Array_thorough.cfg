SPECIFICATION ASpec
CONSTANT MaxLen = 3
CONSTANT Vals = {1, 2}
CONSTANT MutObjs = {"A"}
CONSTANT MaxBOps = 3
INVARIANT ATypeOK
PROPERTIES Independent ResizeKeeps
CHECK_DEADLOCK FALSE
