SPECIFICATION TSpec
CONSTANT MaxCap = 16
CONSTANT Overwrite = TRUE
CONSTANT TwoObjects = TRUE
INVARIANTS Accepted Progress
CHECK_DEADLOCK FALSE
