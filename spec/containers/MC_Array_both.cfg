SPECIFICATION ASpec
CONSTANT MaxLen = 2
CONSTANT Vals = {1, 2}
CONSTANT MutObjs = {"A", "B"}
CONSTANT MaxBOps = 4
INVARIANT ATypeOK
PROPERTIES Independent ResizeKeeps
CHECK_DEADLOCK FALSE
