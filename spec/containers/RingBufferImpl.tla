--------------------------- MODULE RingBufferImpl ---------------------------
(***************************************************************************)
(* I layer: include/tulz/container/RingBuffer.h transcribed.               *)
(*   pos[o], size[o], icap[o]   m_pos, m_size, m_capacity (= cap[o] while live) *)
(*   slots[o]             m_data: 0 = raw storage, -1 = moved-from shell,  *)
(*                        v > 0 = constructed element holding value v      *)
(*   victims              values whose destructor ran (or that were        *)
(*                        assigned over) in the last operation             *)
(* Every action is the P action of BDeque conjoined with the layout        *)
(* computation of the code; TLC checks LayoutMatches (the index arithmetic *)
(* yields the deque contents) and VictimsOk (C09).                         *)
(* PhysicalDestroy / AssignLeaks = TRUE model the code before the fixes    *)
(* (named deviations, kept for the record).                                *)
(***************************************************************************)
EXTENDS BDeque, Integers
CONSTANTS PhysicalDestroy, AssignLeaks,
          MaxBOps,     \* model bound: at most this many copy/move/assign/destroy operations per behaviour
          MutObjs      \* objects that are pushed / popped / resized (the other one is a copy / assignment partner)
VARIABLES pos, size, icap, slots, victims,
          bops         \* number of two-object operations so far (model bound only)
ivars == <<pos, size, icap, slots, victims, bops>>
vars == <<pvars, ivars>>

Crem(a, b) == IF a >= 0 THEN a % b ELSE -((-a) % b)          \* C++ operator% (truncating)
ModCapN(i, c) == (Crem(i, c) + c) % c                          \* modCap() for capacity c
ModCap(o, i) == ModCapN(i, icap[o])
Raw(n) == [i \in 1..n |-> 0]
\* logical contents derived from the layout
Logical(p, s, c, sl) == [i \in 1..s |-> sl[ModCapN(p + i - 1, c) + 1]]
LogicalOf(o) == Logical(pos[o], size[o], icap[o], slots[o])

Init == /\ PInit
        /\ pos = [o \in Objs |-> 0]
        /\ size = [o \in Objs |-> Len(buf[o])]
        /\ icap = cap
        /\ slots = [o \in Objs |-> buf[o] \o Raw(cap[o] - Len(buf[o]))]
        /\ victims = {} /\ bops = 0

IPushBack(o) ==
    /\ PushBack(o) /\ UNCHANGED icap
    /\ IF size[o] = icap[o]
       THEN /\ slots' = [slots EXCEPT ![o][pos[o] + 1] = Fresh]       \* m_data[m_pos] = T(...)
            /\ victims' = {slots[o][pos[o] + 1]}
            /\ pos' = [pos EXCEPT ![o] = ModCap(o, pos[o] + 1)]
            /\ UNCHANGED size
       ELSE /\ slots' = [slots EXCEPT ![o][ModCap(o, pos[o] + size[o]) + 1] = Fresh]
            /\ size' = [size EXCEPT ![o] = @ + 1]
            /\ victims' = {}
            /\ UNCHANGED pos
IPushFront(o) ==
    /\ PushFront(o) /\ UNCHANGED icap
    /\ LET p1 == ModCap(o, pos[o] - 1) IN
       /\ pos' = [pos EXCEPT ![o] = p1]
       /\ slots' = [slots EXCEPT ![o][p1 + 1] = Fresh]
       /\ IF size[o] = icap[o] THEN victims' = {slots[o][p1 + 1]} /\ UNCHANGED size
                              ELSE victims' = {} /\ size' = [size EXCEPT ![o] = @ + 1]
IPopBack(o) ==
    /\ PopBack(o) /\ UNCHANGED icap
    /\ LET idx == ModCap(o, pos[o] + size[o] - 1) IN
       /\ slots' = [slots EXCEPT ![o][idx + 1] = -1]
       /\ size' = [size EXCEPT ![o] = @ - 1]
       /\ victims' = {} /\ UNCHANGED pos
IPopFront(o) ==
    /\ PopFront(o) /\ UNCHANGED icap
    /\ slots' = [slots EXCEPT ![o][pos[o] + 1] = -1]
    /\ pos' = [pos EXCEPT ![o] = ModCap(o, pos[o] + 1)]
    /\ size' = [size EXCEPT ![o] = @ - 1]
    /\ victims' = {}

IResize(o, n) ==
    /\ Resize(o, n) /\ icap' = [icap EXCEPT ![o] = n]
    /\ IF n = icap[o] THEN UNCHANGED <<pos, size, slots>> /\ victims' = {}
       ELSE LET last == ModCap(o, pos[o] + size[o] - 1)
                lin == LogicalOf(o)
            IN IF pos[o] <= last /\ last < n
               THEN \* realloc in place
                    /\ slots' = [slots EXCEPT ![o] = IF n < icap[o] THEN SubSeq(@, 1, n) ELSE @ \o Raw(n - icap[o])]
                    /\ victims' = {} /\ UNCHANGED <<pos, size>>
               ELSE IF n < icap[o]
               THEN \* shrink with linearisation
                    LET copyCount == Min(size[o], n)
                        deleteCount == size[o] - copyCount
                    IN /\ slots' = [slots EXCEPT ![o] = SubSeq(lin, 1, copyCount) \o Raw(n - copyCount)]
                       /\ victims' = IF PhysicalDestroy
                                     THEN {slots[o][copyCount + i + 1] : i \in 0..(deleteCount - 1)}
                                     ELSE {lin[copyCount + i + 1] : i \in 0..(deleteCount - 1)}
                       /\ size' = [size EXCEPT ![o] = copyCount]
                       /\ pos' = [pos EXCEPT ![o] = 0]
               ELSE \* grow with linearisation
                    /\ slots' = [slots EXCEPT ![o] = lin \o Raw(n - size[o])]
                    /\ pos' = [pos EXCEPT ![o] = 0]
                    /\ victims' = {} /\ UNCHANGED size

CopyLayout(o) == /\ pos' = [pos EXCEPT ![o] = 0]
                 /\ size' = [size EXCEPT ![o] = size[Other(o)]]
                 /\ icap' = [icap EXCEPT ![o] = icap[Other(o)]]
                 /\ slots' = [slots EXCEPT ![o] = LogicalOf(Other(o)) \o Raw(icap[Other(o)] - size[Other(o)])]
ICopyConstruct(o) == CopyConstruct(o) /\ CopyLayout(o) /\ victims' = {}
ICopyAssign(o) == /\ CopyAssign(o) /\ CopyLayout(o)
                  /\ victims' = IF AssignLeaks \/ icap[o] = 0 THEN {} ELSE Range(LogicalOf(o))
SwapLayout(o) == LET p == Other(o) IN
                 /\ pos' = [pos EXCEPT ![o] = pos[p], ![p] = pos[o]]
                 /\ size' = [size EXCEPT ![o] = size[p], ![p] = size[o]]
                 /\ icap' = [icap EXCEPT ![o] = icap[p], ![p] = icap[o]]
                 /\ slots' = [slots EXCEPT ![o] = slots[p], ![p] = slots[o]]
IMoveConstruct(o) == MoveConstruct(o) /\ SwapLayout(o) /\ victims' = {}
\* swap-based: the old contents of o now sit in the moved-from object (limbo), layout and all;
\* P says cap/buf of the moved-from object are 0/<<>>, so the layout of limbo elements is kept
\* only in slots (the object is not observable until it is assigned to or destroyed)
IMoveAssign(o) == MoveAssign(o) /\ SwapLayout(o) /\ victims' = {}
IDestroy(o) == /\ Destroy(o)
               /\ victims' = IF icap[o] = 0 THEN {} ELSE Range(LogicalOf(o))
               /\ pos' = [pos EXCEPT ![o] = 0] /\ size' = [size EXCEPT ![o] = 0] /\ slots' = [slots EXCEPT ![o] = <<>>]
               /\ icap' = [icap EXCEPT ![o] = 0]

Mut(o) == o \in MutObjs /\ UNCHANGED bops
Two == bops < MaxBOps /\ bops' = bops + 1
\* flat disjunction of named actions, so that TLC's state-graph dump labels every edge
PushBackA(o) == Mut(o) /\ IPushBack(o)
PushFrontA(o) == Mut(o) /\ IPushFront(o)
PopBackA(o) == Mut(o) /\ IPopBack(o)
PopFrontA(o) == Mut(o) /\ IPopFront(o)
ResizeA(o, n) == Mut(o) /\ IResize(o, n)
CopyConstructA(o) == Two /\ ICopyConstruct(o)
CopyAssignA(o) == Two /\ ICopyAssign(o)
MoveConstructA(o) == Two /\ IMoveConstruct(o)
MoveAssignA(o) == Two /\ IMoveAssign(o)
DestroyA(o) == Two /\ IDestroy(o)
\* overwrite with a copy of the element that is being overwritten: the slot keeps its value, the head moves
PushBackOfFrontA(o) == /\ Mut(o) /\ PushBackOfFront(o) /\ UNCHANGED <<icap, size, slots>> /\ victims' = {}
                       /\ pos' = [pos EXCEPT ![o] = ModCap(o, pos[o] + 1)]
PushFrontOfBackA(o) == /\ Mut(o) /\ PushFrontOfBack(o) /\ UNCHANGED <<icap, size, slots>> /\ victims' = {}
                       /\ pos' = [pos EXCEPT ![o] = ModCap(o, pos[o] - 1)]
\* self-assignment is guarded: nothing is touched, nothing is destroyed
ILayoutKept == UNCHANGED <<pos, size, icap, slots>> /\ victims' = {}
SelfCopyAssignA(o) == Mut(o) /\ SelfCopyAssign(o) /\ ILayoutKept
SelfMoveAssignA(o) == Mut(o) /\ SelfMoveAssign(o) /\ ILayoutKept
Next == \E o \in Objs : \/ PushBackA(o) \/ PushFrontA(o) \/ PopBackA(o) \/ PopFrontA(o)
                        \/ \E n \in 1..MaxCap : ResizeA(o, n)
                        \/ CopyConstructA(o) \/ CopyAssignA(o) \/ MoveConstructA(o) \/ MoveAssignA(o) \/ DestroyA(o)
                        \/ SelfCopyAssignA(o) \/ SelfMoveAssignA(o) \/ PushBackOfFrontA(o) \/ PushFrontOfBackA(o)
Spec == Init /\ [][Next]_vars

(* ---- what TLC checks ---- *)
\* the transcribed index arithmetic implements the deque (C04)
LayoutMatches == \A o \in Objs : Live(o) => /\ size[o] = Len(buf[o])
                                            /\ icap[o] = cap[o] /\ Len(slots[o]) = cap[o]
                                            /\ LogicalOf(o) = buf[o]
                                            /\ pos[o] \in 0..(cap[o] - 1)
\* slots outside the logical range never hold a value (they are raw or shells): C09 "exactly these slots"
OnlyLogicalLive == \A o \in Objs : Live(o) =>
                     \A i \in 1..icap[o] : slots[o][i] > 0 => \E j \in 1..size[o] : ModCap(o, pos[o] + j - 1) + 1 = i
\* every destructor ran on an element, never on raw storage or a shell (C09)
VictimsAreElements == \A v \in victims : v > 0
Refines == PSpec
=============================================================================
