---- MODULE MC_RingBuffer ----
EXTENDS RingBufferImpl
\* bound the second object: B is a snapshot / assignment partner, it is not pushed or popped itself
OnlyA == TRUE
====
