SPECIFICATION Spec
CONSTANT MaxCap = 2
CONSTANT Overwrite = FALSE
CONSTANT TwoObjects = TRUE
CONSTANT PhysicalDestroy = FALSE
CONSTANT AssignLeaks = FALSE
CONSTANT MutObjs = {"A"}
CONSTANT MaxBOps = 2
INVARIANTS PTypeOK NoDup LayoutMatches OnlyLogicalLive VictimsAreElements
CHECK_DEADLOCK FALSE
