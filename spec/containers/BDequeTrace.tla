---------------------------- MODULE BDequeTrace ----------------------------
(***************************************************************************)
(* T layer for RingBuffer: validates operation histories recorded from the *)
(* real container (public API observations after every call) against the  *)
(* bounded deque BDeque.  One initial state per recorded history; an       *)
(* accepted history prints ACCEPTED.  Event fields:                        *)
(*   e   operation ("Create", "PushBack", ..)      o   object "A" | "B"    *)
(*   v   pushed value   n  resize argument   ret  value returned by a pop  *)
(*   sa, ia, ca / sb, ib, cb   state ("live" "moved" "none"), contents and *)
(*   capacity reported by object A / B after the call                      *)
(***************************************************************************)
EXTENDS BDeque, TLC, Json, IOUtils
VARIABLES x, l
Ev == ndJsonDeserialize(IOEnv.TRACE_EVENTS)
Ix == ndJsonDeserialize(IOEnv.TRACE_INDEX)
Diag == "TRACE_DIAG" \in DOMAIN IOEnv /\ IOEnv.TRACE_DIAG = "1"

E == Ev[l]
\* what the object reported must be what the deque holds
Matches(o, s, items, c) == /\ st'[o] = s
                           /\ s = "live" => buf'[o] = items /\ cap'[o] = c
PostOK == Matches("A", E.sa, E.ia, E.ca) /\ Matches("B", E.sb, E.ib, E.cb) /\ ret' = E.ret

TInit == /\ x \in 1..Len(Ix) /\ l = Ix[x].s + 1
         /\ LET c == Ev[Ix[x].s] IN
            /\ c.e = "Create"
            /\ buf = [o \in Objs |-> IF o = "A" THEN c.ia ELSE <<>>]
            /\ cap = [o \in Objs |-> IF o = "A" THEN c.ca ELSE 0]
         /\ st = [o \in Objs |-> IF o = "A" THEN "live" ELSE "none"]
         /\ limbo = [o \in Objs |-> {}]
         /\ ret = 0

Op(name, A) == l <= Ix[x].e /\ E.e = name /\ A /\ PostOK /\ l' = l + 1 /\ UNCHANGED x

TNext == \/ Op("PushBack", PushBackV(E.o, E.v))
         \/ Op("PushFront", PushFrontV(E.o, E.v))
         \/ Op("PopBack", PopBack(E.o))
         \/ Op("PopFront", PopFront(E.o))
         \/ Op("Resize", Resize(E.o, E.n))
         \/ Op("CopyConstruct", CopyConstruct(E.o))
         \/ Op("CopyAssign", CopyAssign(E.o))
         \/ Op("SelfCopyAssign", SelfCopyAssign(E.o)) \/ Op("SelfMoveAssign", SelfMoveAssign(E.o))
         \/ Op("PushBackOfFront", PushBackOfFront(E.o)) \/ Op("PushFrontOfBack", PushFrontOfBack(E.o))
         \/ Op("MoveConstruct", MoveConstruct(E.o))
         \/ Op("MoveAssign", MoveAssign(E.o))
         \/ Op("Destroy", Destroy(E.o))
TSpec == TInit /\ [][TNext]_<<pvars, x, l>>

Accepted == (l = Ix[x].e + 1) => PrintT(<<"ACCEPTED", x>>)
Progress == Diag => PrintT(<<"AT", x, l>>)
=============================================================================
