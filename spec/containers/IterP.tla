------------------------------- MODULE IterP -------------------------------
(***************************************************************************)
(* RandomAccessIndexIterator over tulz::Array and tulz::RingBuffer (not    *)
(* one of the listed properties): an iterator is an index into a container *)
(* of N elements; the container is not modified while iterators are alive. *)
(*  it[1], it[2]   positions of two iterators, 0..N (N = end())            *)
(*  ret            what the last operation returned, as a position         *)
(*                 (-1: the operation returns no iterator)                 *)
(* What the code can observe after every step is derived: *it for every    *)
(* dereferenceable iterator, it[1] - it[2], the six comparisons, and       *)
(* std::distance(begin, it).                                               *)
(***************************************************************************)
EXTENDS Integers, Sequences
CONSTANTS N,        \* number of elements
          Steps     \* offsets used by += -= + -
VARIABLES it, ret
vars == <<it, ret>>
Its == {1, 2}
Other(a) == 3 - a
InRange(p) == p \in 0..N

Init == it = [a \in Its |-> 0] /\ ret = -1

\* ++it / --it return the iterator itself; it++ / it-- return the old position
PreInc(a) == InRange(it[a] + 1) /\ it' = [it EXCEPT ![a] = @ + 1] /\ ret' = it[a] + 1
PreDec(a) == InRange(it[a] - 1) /\ it' = [it EXCEPT ![a] = @ - 1] /\ ret' = it[a] - 1
PostInc(a) == InRange(it[a] + 1) /\ it' = [it EXCEPT ![a] = @ + 1] /\ ret' = it[a]
PostDec(a) == InRange(it[a] - 1) /\ it' = [it EXCEPT ![a] = @ - 1] /\ ret' = it[a]
AddAssign(a, k) == k \in Steps /\ InRange(it[a] + k) /\ it' = [it EXCEPT ![a] = @ + k] /\ ret' = it[a] + k
SubAssign(a, k) == k \in Steps /\ InRange(it[a] - k) /\ it' = [it EXCEPT ![a] = @ - k] /\ ret' = it[a] - k
\* it + k / it - k build a new iterator and leave the operand alone; the harness stores the result in the other iterator
Plus(a, k) == k \in Steps /\ InRange(it[a] + k) /\ it' = [it EXCEPT ![Other(a)] = it[a] + k] /\ ret' = it[a] + k
Minus(a, k) == k \in Steps /\ InRange(it[a] - k) /\ it' = [it EXCEPT ![Other(a)] = it[a] - k] /\ ret' = it[a] - k
\* begin() / end() of the container
ToBegin(a) == it' = [it EXCEPT ![a] = 0] /\ ret' = 0
ToEnd(a) == it' = [it EXCEPT ![a] = N] /\ ret' = N

Next == \E a \in Its :
          \/ PreInc(a) \/ PreDec(a) \/ PostInc(a) \/ PostDec(a) \/ ToBegin(a) \/ ToEnd(a)
          \/ \E k \in Steps : AddAssign(a, k) \/ SubAssign(a, k) \/ Plus(a, k) \/ Minus(a, k)
Spec == Init /\ [][Next]_vars

TypeOK == it \in [Its -> 0..N] /\ ret \in -1..N
\* the algebra the standard library relies on
DiffAntisym == (it[1] - it[2]) = -(it[2] - it[1])
OrderTotal == (it[1] < it[2]) \/ (it[1] = it[2]) \/ (it[1] > it[2])
=============================================================================
