SPECIFICATION TSpec
CONSTANT MaxLen = 64
CONSTANT Vals = {1, 2, 3, 4, 5, 6, 7, 8, 9}
CONSTANT MutObjs = {"A", "B"}
CONSTANT MaxBOps = 100000
INVARIANTS Accepted Progress
CHECK_DEADLOCK FALSE
