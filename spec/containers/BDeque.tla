------------------------------- MODULE BDeque -------------------------------
(***************************************************************************)
(* P layer for tulz::RingBuffer (C04, C09): a bounded double-ended queue,  *)
(* as the property statement describes it.  Up to two objects "A" and "B"  *)
(* so that copy / move / assignment / comparison are operations.           *)
(*                                                                         *)
(*  buf[o]   logical contents (front first)     cap[o]  capacity           *)
(*  st[o]    "none" (not constructed) | "live" | "moved" (moved-from:      *)
(*           only assignment-to and destruction are valid)                 *)
(*  limbo[o] element values that a moved-from object may still own         *)
(*           (a swap-based move assignment may defer their destruction)    *)
(*  ret      value returned by the last pop (0 otherwise)                  *)
(* Element values are positive integers; a value is in at most one place   *)
(* per object, so values identify elements (C09).                          *)
(***************************************************************************)
EXTENDS Naturals, Sequences, FiniteSets
CONSTANTS MaxCap, Overwrite, TwoObjects
VARIABLES buf, cap, st, limbo, ret
pvars == <<buf, cap, st, limbo, ret>>

Objs == {"A", "B"}
Other(o) == IF o = "A" THEN "B" ELSE "A"
Min(a, b) == IF a < b THEN a ELSE b
Range(s) == {s[i] : i \in 1..Len(s)}
Vals == 1..(4 * MaxCap + 1)
\* the value a push inserts: the smallest one not present anywhere
Used == Range(buf["A"]) \cup Range(buf["B"]) \cup limbo["A"] \cup limbo["B"]
Fresh == CHOOSE v \in Vals : v \notin Used /\ \A w \in Vals : w \notin Used => v <= w

PTypeOK == /\ \A o \in Objs : buf[o] \in Seq(Vals) /\ Len(buf[o]) <= cap[o] /\ cap[o] \in 0..MaxCap
           /\ st \in [Objs -> {"none", "live", "moved"}]
           /\ ret \in Vals \cup {0}

PInit == /\ \E c \in 1..MaxCap : \E k \in 0..c :
              /\ cap = [o \in Objs |-> IF o = "A" THEN c ELSE 0]
              /\ buf = [o \in Objs |-> IF o = "A" THEN [i \in 1..k |-> i] ELSE <<>>]
         /\ st = [o \in Objs |-> IF o = "A" THEN "live" ELSE "none"]
         /\ limbo = [o \in Objs |-> {}]
         /\ ret = 0

Live(o) == st[o] = "live"
Full(o) == Len(buf[o]) = cap[o]

\* insertion into a full overwriting buffer discards the element at the opposite end
PushBackV(o, v) == /\ Live(o) /\ (Full(o) => Overwrite) /\ v \notin Used
                   /\ buf' = [buf EXCEPT ![o] = IF Full(o) THEN Append(Tail(@), v) ELSE Append(@, v)]
                   /\ ret' = 0 /\ UNCHANGED <<cap, st, limbo>>
PushFrontV(o, v) == /\ Live(o) /\ (Full(o) => Overwrite) /\ v \notin Used
                    /\ buf' = [buf EXCEPT ![o] = IF Full(o) THEN <<v>> \o SubSeq(@, 1, Len(@) - 1) ELSE <<v>> \o @]
                    /\ ret' = 0 /\ UNCHANGED <<cap, st, limbo>>
\* the argument is the element at the opposite end of a full overwriting buffer (rb.push_back(rb.front())): that element
\* is the one discarded, and a copy of it arrives at the other end (the value stays unique in the buffer)
PushBackOfFront(o) == /\ Live(o) /\ Full(o) /\ Overwrite /\ buf[o] # <<>>
                      /\ buf' = [buf EXCEPT ![o] = Append(Tail(@), @[1])]
                      /\ ret' = 0 /\ UNCHANGED <<cap, st, limbo>>
PushFrontOfBack(o) == /\ Live(o) /\ Full(o) /\ Overwrite /\ buf[o] # <<>>
                      /\ buf' = [buf EXCEPT ![o] = <<@[Len(@)]>> \o SubSeq(@, 1, Len(@) - 1)]
                      /\ ret' = 0 /\ UNCHANGED <<cap, st, limbo>>
PushBack(o) == PushBackV(o, Fresh)
PushFront(o) == PushFrontV(o, Fresh)
PopBack(o) == /\ Live(o) /\ buf[o] # <<>>
              /\ ret' = buf[o][Len(buf[o])]
              /\ buf' = [buf EXCEPT ![o] = SubSeq(@, 1, Len(@) - 1)]
              /\ UNCHANGED <<cap, st, limbo>>
PopFront(o) == /\ Live(o) /\ buf[o] # <<>>
               /\ ret' = buf[o][1]
               /\ buf' = [buf EXCEPT ![o] = Tail(@)]
               /\ UNCHANGED <<cap, st, limbo>>
Resize(o, n) == /\ Live(o) /\ n >= 1
                /\ buf' = [buf EXCEPT ![o] = SubSeq(@, 1, Min(Len(@), n))]
                /\ cap' = [cap EXCEPT ![o] = n]
                /\ ret' = 0 /\ UNCHANGED <<st, limbo>>
\* B(A) copy constructor / A = B copy assignment: deep copy of contents and capacity
CopyConstruct(o) == /\ TwoObjects /\ st[o] = "none" /\ Live(Other(o))
                    /\ buf' = [buf EXCEPT ![o] = buf[Other(o)]] /\ cap' = [cap EXCEPT ![o] = cap[Other(o)]]
                    /\ st' = [st EXCEPT ![o] = "live"]
                    /\ ret' = 0 /\ UNCHANGED limbo
CopyAssign(o) == /\ TwoObjects /\ st[o] # "none" /\ Live(Other(o))
                 /\ buf' = [buf EXCEPT ![o] = buf[Other(o)]] /\ cap' = [cap EXCEPT ![o] = cap[Other(o)]]
                 /\ st' = [st EXCEPT ![o] = "live"]
                 /\ limbo' = [limbo EXCEPT ![o] = {}]
                 /\ ret' = 0
\* o(std::move(other)) : o takes the contents, `other` is moved-from and owns nothing
MoveConstruct(o) == /\ TwoObjects /\ st[o] = "none" /\ Live(Other(o))
                    /\ buf' = [buf EXCEPT ![o] = buf[Other(o)], ![Other(o)] = <<>>]
                    /\ cap' = [cap EXCEPT ![o] = cap[Other(o)], ![Other(o)] = 0]
                    /\ st' = [st EXCEPT ![o] = "live", ![Other(o)] = "moved"]
                    /\ ret' = 0 /\ UNCHANGED limbo
\* o = std::move(other): o takes the contents; what o held before is destroyed now or at the
\* latest when `other` is assigned to or destroyed (limbo)
MoveAssign(o) == /\ TwoObjects /\ st[o] # "none" /\ Live(Other(o))
                 /\ buf' = [buf EXCEPT ![o] = buf[Other(o)], ![Other(o)] = <<>>]
                 /\ cap' = [cap EXCEPT ![o] = cap[Other(o)], ![Other(o)] = 0]
                 /\ st' = [st EXCEPT ![o] = "live", ![Other(o)] = "moved"]
                 /\ limbo' = [limbo EXCEPT ![Other(o)] = Range(buf[o]) \cup limbo[o], ![o] = {}]
                 /\ ret' = 0
\* a = a and a = std::move(a): the object keeps its contents and its capacity
SelfCopyAssign(o) == Live(o) /\ ret' = 0 /\ UNCHANGED <<buf, cap, st, limbo>>
SelfMoveAssign(o) == Live(o) /\ ret' = 0 /\ UNCHANGED <<buf, cap, st, limbo>>
Destroy(o) == /\ TwoObjects /\ o = "B" /\ st[o] # "none"
              /\ buf' = [buf EXCEPT ![o] = <<>>] /\ cap' = [cap EXCEPT ![o] = 0]
              /\ st' = [st EXCEPT ![o] = "none"] /\ limbo' = [limbo EXCEPT ![o] = {}]
              /\ ret' = 0

PNext == \E o \in Objs : \/ PushBack(o) \/ PushFront(o) \/ PopBack(o) \/ PopFront(o)
                         \/ \E n \in 1..MaxCap : Resize(o, n)
                         \/ CopyConstruct(o) \/ CopyAssign(o) \/ MoveConstruct(o) \/ MoveAssign(o) \/ Destroy(o)
                         \/ SelfCopyAssign(o) \/ SelfMoveAssign(o) \/ PushBackOfFront(o) \/ PushFrontOfBack(o)
PSpec == PInit /\ [][PNext]_pvars

\* C04/C09 on P: no value twice in one object; nothing lost or invented by an operation
NoDup == \A o \in Objs : \A i, j \in 1..Len(buf[o]) : i # j => buf[o][i] # buf[o][j]
=============================================================================
