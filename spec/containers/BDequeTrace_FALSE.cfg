SPECIFICATION TSpec
CONSTANT MaxCap = 16
CONSTANT Overwrite = FALSE
CONSTANT TwoObjects = TRUE
INVARIANTS Accepted Progress
CHECK_DEADLOCK FALSE
