SPECIFICATION Spec
CONSTANT MaxCap = 3
CONSTANT Overwrite = TRUE
CONSTANT TwoObjects = FALSE
CONSTANT PhysicalDestroy = TRUE
CONSTANT AssignLeaks = FALSE
CONSTANT MutObjs = {"A"}
CONSTANT MaxBOps = 3
INVARIANTS VictimsAreElements
CHECK_DEADLOCK FALSE
