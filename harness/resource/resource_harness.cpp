// Replay / exploration harness for tulz::rwp::Resource (properties C01 C02 C03 C12, inputs to C15).
//
// The repository sources are compiled unmodified; this TU only reads the private fields (for the
// I-level projection) through the include trick below. When the fields no longer exist the build
// with -DVS_PROJECT falls back to the variant without it and the check reports DRIFT.
#include <condition_variable>
#include <deque>
#include <mutex>
#include <thread>

#ifdef VS_PROJECT
#define private public
#endif
#include <tulz/threading/rwp/Resource.h>
#ifdef VS_PROJECT
#undef private
#endif
#include <tulz/threading/rwp/ReadLock.h>
#include <tulz/threading/rwp/WriteLock.h>

#include "../common/runner.h"
#include "../vsched/controllers.h"

using namespace hr;
using tulz::rwp::Resource;

namespace {

enum Kind { K_STOP = 0, K_READ = 1, K_WRITE = 2 };
struct Op {
    Kind kind = K_STOP;
    bool guard = false;
    bool barrier = false;
    bool quiesce = false;   // release only once every other thread is blocked: with several such threads the lock never goes idle
};

const int MAXT = 128;
Resource *g_res = nullptr;
Op g_next[MAXT];
std::vector<Op> g_prog[MAXT];
size_t g_pc[MAXT];
bool g_scripted = false;
int g_n = 0;
int g_pairs_done[MAXT];
int g_kind_now[MAXT];   // kind of the pair in progress (0 none)
bool g_in_lock[MAXT];   // between AcqCall and AcqRet
int g_barrier_target = 0;
int g_barrier_inside = 0;
bool g_main_hold = false;
bool g_main_gate = false;   // hold=2: main keeps its write lock until every worker is parked, then lets the late workers request and park too
bool g_late[MAXT];          // worker starts only after main opened the gate
bool g_late_go = false;
bool g_idle_check = true;
bool g_nested = false;
int g_rep = 1;               // every worker runs its program this many times
bool g_quiet_steps = false;  // no per-step projection records (very long executions)
bool g_outer = false;        // every worker holds a read lock of a SECOND Resource (never written) around its whole program
Resource *g_res2 = nullptr;

const char *kname(int k) { return k == K_READ ? "Read" : k == K_WRITE ? "Write" : "-"; }

void ev(const char *e, int t, int k = 0) { out().line("\"e\":\"%s\",\"t\":%d,\"k\":\"%s\"", e, t, kname(k)); }

void do_pair(int t, Op op) {
    g_kind_now[t] = op.kind;
    ev("AcqCall", t, op.kind);
    g_in_lock[t] = true;
    auto body = [&] {
        g_in_lock[t] = false;
        ev("AcqRet", t, op.kind);
        if (op.barrier) {
            ++g_barrier_inside;
            vs::block_until("barrier", [] { return g_barrier_inside >= g_barrier_target; });
        }
        vs::yield("cs");
        if (op.quiesce) vs::wait_quiescent("busy");
        ev("RelCall", t, op.kind);
    };
    if (op.guard) {
        if (op.kind == K_READ) {
            tulz::rwp::ReadLock g(*g_res);
            body();
        } else {
            tulz::rwp::WriteLock g(*g_res);
            body();
        }
    } else {
        if (op.kind == K_READ) {
            g_res->lockRead();
            body();
            g_res->unlockRead();
        } else {
            g_res->lockWrite();
            body();
            g_res->unlockWrite();
        }
    }
    ev("RelRet", t, op.kind);
    g_kind_now[t] = 0;
    ++g_pairs_done[t];
}

void worker(int t) {
    if (g_late[t]) vs::block_until("late", [] { return g_late_go; });
    // locks of different Resource objects are independent of each other: holding one must not change how another one behaves
    if (g_outer) g_res2->lockRead();
    int rep = 0;
    for (;;) {
        vs::yield("idle");
        Op op;
        if (g_scripted) {
            op = g_next[t];
            g_next[t] = Op();
        } else {
            if (g_pc[t] >= g_prog[t].size() && ++rep < g_rep) g_pc[t] = 0;
            if (g_pc[t] < g_prog[t].size()) op = g_prog[t][g_pc[t]++];
        }
        if (op.kind == K_STOP) break;
        do_pair(t, op);
    }
    if (g_outer) g_res2->unlockRead();
}

void scenario() {
    Resource res, res2;
    g_res = &res;
    g_res2 = &res2;
    if (g_main_hold) {
        g_kind_now[0] = K_WRITE;
        ev("AcqCall", 0, K_WRITE);
        g_in_lock[0] = true;
        res.lockWrite();
        g_in_lock[0] = false;
        ev("AcqRet", 0, K_WRITE);
    }
    std::vector<std::thread> ths;
    for (int i = 1; i <= g_n; ++i) ths.emplace_back(worker, i);
    if (g_main_hold) {
        if (g_main_gate) {
            vs::wait_quiescent("parked");       // every early worker waits behind main's write lock
            g_late_go = true;
            vs::wait_quiescent("lateparked");   // ... and the late ones queue up behind them
        }
        vs::yield("mainhold");
        ev("RelCall", 0, K_WRITE);
        res.unlockWrite();
        ev("RelRet", 0, K_WRITE);
        g_kind_now[0] = 0;
    }
    for (auto &th : ths) th.join();
    if (g_idle_check) {
        // C02: back in the idle state, the next requests are granted without waiting
        Op w{K_WRITE, false, false}, r{K_READ, false, false};
        ev("IdleCheck", 0, 0);
        g_kind_now[0] = K_WRITE;
        ev("AcqCall", 0, K_WRITE);
        g_in_lock[0] = true;
        res.lockWrite();
        g_in_lock[0] = false;
        ev("AcqRet", 0, K_WRITE);
        ev("RelCall", 0, K_WRITE);
        res.unlockWrite();
        ev("RelRet", 0, K_WRITE);
        // two read locks at once on one thread (as in ResourceTest::SimultaneousRead)
        g_kind_now[0] = K_READ;
        ev("AcqCall", 0, K_READ);
        g_in_lock[0] = true;
        res.lockRead();
        g_in_lock[0] = false;
        ev("AcqRet", 0, K_READ);
        // the nested request is logged under the pseudo-thread 99 (P has one request per thread)
        g_kind_now[99 % MAXT] = K_READ;
        ev("AcqCall", 99, K_READ);
        g_nested = true;
        g_in_lock[0] = true;
        res.lockRead();
        g_in_lock[0] = false;
        g_nested = false;
        ev("AcqRet", 99, K_READ);
        ev("RelCall", 99, K_READ);
        res.unlockRead();
        ev("RelRet", 99, K_READ);
        ev("RelCall", 0, K_READ);
        res.unlockRead();
        ev("RelRet", 0, K_READ);
        g_kind_now[0] = 0;
    }
    g_res = nullptr;
}

class Ctl : public vs::BaseController {
public:
    size_t nsetup = 0;
    std::vector<Op> step_ops;  // per script step: the op a LockEnter hands to the thread

    std::string projection(const std::vector<vs::ThreadView> &tv) {
        std::string s = "\"proj\":{";
#ifdef VS_PROJECT
        if (g_res) {
            s += "\"queue\":[";
            bool first = true;
            for (auto &op : g_res->m_queue) {
                if (!first) s += ",";
                first = false;
                s += std::string("[\"") + (op.type == Resource::OpType::Read ? "Read" : op.type == Resource::OpType::Write ? "Write" : "None") +
                     "\"," + std::to_string((long) op.upperBound) + "]";
            }
            s += "],";
            auto ao = g_res->m_activeOp;
            s += std::string("\"activeOp\":\"") + (ao == Resource::OpType::Read ? "Read" : ao == Resource::OpType::Write ? "Write" : "None") + "\",";
            s += "\"activeCount\":" + std::to_string((long) g_res->m_activeCount) + ",";
            s += "\"idCounter\":" + std::to_string((long) g_res->m_idCounter) + ",";
            s += "\"bound\":" + std::to_string((long) g_res->m_upperUnlockBound) + ",";
        }
#endif
        std::string pc = "[", wk = "[", kd = "[", done = "[";
        for (int t = 1; t <= g_n && t < (int) tv.size(); ++t) {
            const auto &v = tv[t];
            const char *p = "?";
            if (v.finished) p = "idle";
            else if (v.pending == vs::OP_MARK && v.label && !strcmp(v.label, "idle")) p = "idle";
            else if (v.pending == vs::OP_MARK && v.label && !strcmp(v.label, "cs")) p = "held";
            else if (v.pending == vs::OP_CWAKE) p = "waiting";
            else if (v.pending == vs::OP_NOTIFY_ALL) p = "notify";
            else if (v.pending == vs::OP_START) p = "idle";
            else p = vs::op_name(v.pending);
            if (t > 1) {
                pc += ",";
                wk += ",";
                kd += ",";
                done += ",";
            }
            pc += std::string("\"") + p + "\"";
            wk += (v.pending == vs::OP_CWAKE && v.woken) ? "true" : "false";
            kd += std::string("\"") + kname(g_kind_now[t]) + "\"";
            done += std::to_string(g_pairs_done[t]);
        }
        s += "\"pc\":" + pc + "],\"woken\":" + wk + "],\"kind\":" + kd + "],\"done\":" + done + "]}";
        std::string en = "[";
        bool first = true;
        for (int t = 1; t <= g_n && t < (int) tv.size(); ++t) {
            // a thread sitting at the idle marker is only "enabled" if the script gives it work
            if (tv[t].enabled) {
                if (!first) en += ",";
                first = false;
                en += std::to_string(t);
            }
        }
        return s + ",\"en\":" + en + "]";
    }

    void step_done(size_t i, const std::vector<vs::ThreadView> &tv) override {
        if (i < nsetup || g_quiet_steps) return;
        out().raw("\"e\":\"Step\",\"i\":" + std::to_string(i - nsetup) + "," + projection(tv));
    }
    void before_run(int thread, const std::vector<vs::ThreadView> &tv) override {
        const auto &v = tv[thread];
        if (g_scripted && mode == SCRIPT && v.pending == vs::OP_MARK && v.label && !strcmp(v.label, "idle") && pos < script.size() &&
            script[pos].thread == thread && pos < step_ops.size())
            g_next[thread] = step_ops[pos];
    }
    void op_applied(int thread, vs::OpKind kind, const void *, const void *, const char *, int) override {
        if (kind == vs::OP_CWAIT && thread < MAXT && g_in_lock[thread])
            ev("Parked", (thread == 0 && g_nested) ? 99 : thread, g_kind_now[thread]);
    }
    void enter_fallback(const std::vector<vs::ThreadView> &) override {
        if (!drift.empty()) out().line("\"e\":\"Drift\",\"why\":%s", jstr(drift).c_str());
        out().line("\"e\":\"Fallback\"");
    }
    void on_deadlock(const std::vector<vs::ThreadView> &tv) override {
        finish_pending_step(tv);
        std::string b = "[";
        bool first = true;
        for (auto &v : tv)
            if (!v.finished) {
                if (!first) b += ",";
                first = false;
                b += "{\"t\":" + std::to_string(v.id) + ",\"op\":\"" + vs::op_name(v.pending) + "\"}";
            }
        out().raw("\"e\":\"Deadlock\",\"t\":-1,\"k\":\"-\",\"blocked\":" + b + "]");
    }
    void on_abort(int) override {
        for (auto &r : vs::race_reports()) out().raw("\"e\":\"Race\"," + r);
        out().flush();
    }
    void too_long() override { out().line("\"e\":\"TooLong\""); }
};

Op parse_op(const std::string &s, size_t &i) {
    Op op;
    op.kind = s[i] == 'W' ? K_WRITE : K_READ;
    ++i;
    if (i < s.size() && (s[i] == 'g' || s[i] == 'r' || s[i] == 'b' || s[i] == 'q')) {
        op.guard = s[i] == 'g';
        op.barrier = s[i] == 'b';
        op.quiesce = s[i] == 'q';
        ++i;
    }
    return op;
}

void run_exec(const Execution &ex) {
    g_n = (int) ex.cfg.num("n", 2);
    g_scripted = ex.cfg.str("mode", "script") == "script";
    g_main_hold = ex.cfg.num("hold", 0) != 0;
    g_main_gate = ex.cfg.num("hold", 0) == 2;
    g_late_go = false;
    g_idle_check = ex.cfg.num("idlecheck", 1) != 0;
    g_nested = false;
    g_rep = (int) ex.cfg.num("rep", 1);
    g_quiet_steps = ex.cfg.num("quiet", 0) != 0;
    g_outer = ex.cfg.num("outer", 0) != 0;
    g_barrier_target = (int) ex.cfg.num("barrier", 0);
    g_barrier_inside = 0;
    for (int t = 0; t < MAXT; ++t) {
        g_next[t] = Op();
        g_prog[t].clear();
        g_pc[t] = 0;
        g_pairs_done[t] = 0;
        g_kind_now[t] = 0;
        g_in_lock[t] = false;
        g_late[t] = false;
    }
    Ctl ctl;
    const uint32_t macro = vs::bit(vs::OP_MARK) | vs::bit(vs::OP_NOTIFY_ALL) | vs::bit(vs::OP_NOTIFY_ONE) | vs::STOP_PARKED | vs::STOP_FINISHED;
    if (g_scripted) {
        ctl.mode = vs::BaseController::SCRIPT;
        // set-up: main creates the workers and reaches join; every worker reaches its idle marker
        vs::ScriptStep s0;
        s0.thread = 0;
        s0.stop = vs::bit(vs::OP_JOIN);
        ctl.script.push_back(s0);
        ctl.step_ops.push_back(Op());
        for (int t = 1; t <= g_n; ++t) {
            vs::ScriptStep s;
            s.thread = t;
            s.stop = vs::bit(vs::OP_MARK);
            ctl.script.push_back(s);
            ctl.step_ops.push_back(Op());
        }
        ctl.nsetup = ctl.script.size();
        for (const auto &st : ex.steps) {
            vs::ScriptStep s;
            s.thread = (int) st.num("t");
            s.stop = macro;
            Op op;
            std::string act = st.str("act");
            if (act == "LockEnter") {
                op.kind = st.str("k") == "Write" ? K_WRITE : K_READ;
                op.guard = st.num("g", 0) != 0;
            } else if (act == "Spurious") {
                s.kind = vs::ScriptStep::SPURIOUS;
            }
            ctl.script.push_back(s);
            ctl.step_ops.push_back(op);
        }
    } else {
        ctl.mode = vs::BaseController::RANDOM;
        ctl.rng = vs::Rng((uint64_t) ex.cfg.num("seed", 1));
        if (rd_access_yield) rd_access_yield((int) ex.cfg.num("accy", 0), (unsigned) ex.cfg.num("seed", 1));
        if (ex.cfg.num("accy", 0)) ctl.max_steps *= 20;
        if (g_rep > 1) ctl.max_steps = (size_t) g_rep * 400 + 100000;
        ctl.spurious_per_1000 = (int) ex.cfg.num("spurious", 0);
        // a timed wait (none in the code as it stands) may time out at any moment: the holder may be arbitrarily slow
        ctl.timeout_per_1000 = (int) ex.cfg.num("timeouts", 40);
        ctl.pct = ex.cfg.num("pct", 0) != 0;
        ctl.stay_num = (int) ex.cfg.num("stay", 1);
        ctl.stay_den = (int) ex.cfg.num("stayden", 2);
        if (ctl.pct) {
            int d = (int) ex.cfg.num("pct", 0);
            for (int i = 0; i < d; ++i) ctl.change_at.push_back(1 + ctl.rng.below((uint32_t) ex.cfg.num("len", 60)));
        }
        // prog=RrWg:Wr:Rb   one program per worker
        std::string prog = ex.cfg.str("prog");
        int t = 1;
        size_t i = 0;
        while (i < prog.size() && t < MAXT) {
            if (prog[i] == ':') {
                ++t;
                ++i;
                continue;
            }
            if (prog[i] == 'L') {   // LWr: this worker is a late one (see hold=2)
                g_late[t] = true;
                ++i;
                continue;
            }
            g_prog[t].push_back(parse_op(prog, i));
        }
    }
    out().line("\"e\":\"Begin\",\"t\":-1,\"k\":\"-\",\"n\":%d,\"hold\":%d,\"barrier\":%d", g_n, g_main_hold ? 1 : 0, g_barrier_target);
    vs::run(ctl, scenario);
    for (auto &r : vs::race_reports()) out().raw("\"e\":\"Race\"," + r);
    out().line("\"e\":\"Done\",\"t\":-1,\"k\":\"-\"");
}

}  // namespace

int main(int argc, char **argv) { return drive(argc, argv, run_exec); }
