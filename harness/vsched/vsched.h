// vsched — deterministic cooperative scheduler for unmodified pthread-based code.
//
// The harness executable defines pthread_mutex_*, pthread_cond_*, pthread_create/join,
// clock_gettime, nanosleep ... (see vsched.cpp). While a scenario is active, every
// managed thread runs only when it holds the baton; mutexes and condition variables
// are *modelled* (owner table, wait sets) and the real primitives are never touched.
// A yield point precedes every intercepted operation. At a yield point the Controller
// decides which enabled thread performs its pending operation next.
#pragma once
#include <cstdint>
#include <functional>
#include <string>
#include <vector>

namespace vs {

enum OpKind {
    OP_NONE = 0,
    OP_START,       // first instruction of a new thread
    OP_LOCK,        // pthread_mutex_lock(obj)          enabled iff obj is free
    OP_UNLOCK,      // pthread_mutex_unlock(obj)
    OP_CWAIT,       // pthread_cond_wait(obj, obj2): atomic release + enqueue
    OP_CWAKE,       // in the wait set of obj; enabled iff woken (or timed out) and obj2 free
    OP_NOTIFY_ONE,  // pthread_cond_signal(obj)
    OP_NOTIFY_ALL,  // pthread_cond_broadcast(obj)
    OP_CREATE,      // pthread_create
    OP_JOIN,        // pthread_join(thread obj); enabled iff that thread finished
    OP_MARK,        // harness marker  vs::yield(label)
    OP_HWAIT,       // harness wait    vs::block_until(label, pred); enabled iff pred()
    OP_SLEEP,       // nanosleep / sched_yield
    OP_EXIT,        // pseudo-op: thread function returned
    OP_TRYLOCK,
    OP_IDLEWAIT     // harness: vs::wait_quiescent(label); enabled iff no other thread is enabled
};
const char *op_name(OpKind k);

struct ThreadView {
    int id;
    bool finished;
    bool enabled;
    OpKind pending;
    const void *obj;      // mutex / cond / joined thread's id (as intptr)
    const void *obj2;     // mutex of a cond wait
    const char *label;    // for OP_MARK / OP_HWAIT
    bool woken;           // for OP_CWAKE
    bool timed;           // OP_CWAKE of a timed wait (may time out when the controller says so)
    int held;             // number of model mutexes held
};

struct Decision {
    enum Kind { RUN, SPURIOUS, TIMEOUT, ADVANCE_CLOCK, STOP } kind = RUN;
    int thread = -1;         // RUN: thread to perform its pending op; SPURIOUS/TIMEOUT: waiter to wake
    int wake = -1;           // RUN of OP_NOTIFY_ONE: which waiter to wake (-1: first in wait order)
    int64_t clock_ms = 0;    // ADVANCE_CLOCK
};

class Controller {
public:
    virtual ~Controller() = default;
    // Called in scheduler context (all managed threads parked) whenever a decision is needed.
    // `threads` has one entry per managed thread ever created. If no thread is enabled and
    // some are unfinished, vsched calls on_deadlock() instead.
    virtual Decision decide(const std::vector<ThreadView> &threads) = 0;
    // An operation has just been applied on the model (before the thread resumes user code).
    virtual void on_op(int thread, OpKind kind, const void *obj, const void *obj2, const char *label, int aux) {}
    virtual void on_deadlock(const std::vector<ThreadView> &threads) {}
    virtual void on_all_finished(const std::vector<ThreadView> &threads) {}
    // result 1 = deadlock (after on_deadlock), 2 = STOP; the process _exit(0)s right after.
    virtual void on_abort(int result) {}
    // A second scheduling point right AFTER pthread_create returned (marker "created"): the new thread may then run,
    // and even finish, before the creator executes its next plain statement. Off for scripted replays (the I-level
    // models have no such step), on for random exploration.
    virtual bool yield_after_create() { return false; }
    // Failure injection: this pthread_create call fails with EAGAIN (the limit on threads was reached). No thread is created.
    virtual bool fail_create() { return false; }
};

// Runs `body` as managed thread 0 under `ctl`. Returns 0 when every managed thread finished.
// On deadlock (after ctl.on_deadlock) or STOP it calls ctl.on_abort(result) and _exit(0)s:
// every execution is expected to live in its own forked child.
int run(Controller &ctl, const std::function<void()> &body);

bool active();
int self();                                   // managed id of the calling thread, -1 if unmanaged
void yield(const char *label);                // marker yield point
void block_until(const char *label, const std::function<bool()> &pred);
void wait_quiescent(const char *label);       // returns once no other managed thread can run
int64_t clock_ms();                           // virtual clock
int mutex_owner(const void *m);               // -1 if free / unknown
int thread_count();
// unordered conflicting accesses seen by the optional race detector (racedet.cpp), one JSON fragment each
std::vector<std::string> race_reports();
bool race_detector_linked();
// Run fn with interception disabled for the calling thread (e.g. logging through iostreams).
struct Passthrough { Passthrough(); ~Passthrough(); };

}  // namespace vs
