// Reusable vsched controllers: scripted (follows a TLC behaviour, macro-step by macro-step),
// random / PCT (seeded exploration), fall-back (deterministic run to completion).
#pragma once
#include <cstdint>
#include <string>
#include <vector>

#include "vsched.h"

namespace vs {

struct Rng {
    uint64_t s;
    explicit Rng(uint64_t seed) : s(seed * 0x9E3779B97F4A7C15ULL + 0xD1B54A32D192ED03ULL) {
        for (int i = 0; i < 4; ++i) next();
    }
    uint64_t next() {
        s ^= s << 13;
        s ^= s >> 7;
        s ^= s << 17;
        return s;
    }
    uint32_t below(uint32_t n) { return n ? (uint32_t) ((next() >> 11) % n) : 0; }
    bool chance(uint32_t num, uint32_t den) { return below(den) < num; }
};

inline uint32_t bit(OpKind k) { return 1u << (int) k; }
const uint32_t STOP_FINISHED = 1u << 30;
const uint32_t STOP_PARKED = 1u << 29;   // pending OP_CWAKE and not woken
const uint32_t STOP_BLOCKED = 1u << 28;  // pending op not enabled (any kind)
const uint32_t STOP_ANY = 0x0fffffffu | STOP_FINISHED | STOP_PARKED | STOP_BLOCKED;

struct ScriptStep {
    enum Kind { RUN, SPURIOUS, TIMEOUT, CLOCK } kind = RUN;
    int thread = -1;
    uint32_t stop = STOP_ANY;  // where the macro-step ends (after at least one operation)
    std::string stop_label;    // if non-empty: an OP_MARK only stops the step when its label matches
    int wake = -1;             // OP_NOTIFY_ONE: which waiter
    int64_t clock_ms = 0;
};

// Base class with the three phases every harness uses: (1) a deterministic set-up phase run by
// the subclass through queued ScriptSteps, (2) the script / random phase, (3) fall-back.
class BaseController : public Controller {
public:
    enum Mode { SCRIPT, RANDOM, FALLBACK };
    Mode mode = SCRIPT;
    bool yield_after_create() override { return mode == RANDOM; }
    int fail_create_nth = 0;   // > 0: the n-th pthread_create of the execution fails with EAGAIN
    int creates_seen = 0;
    bool fail_create() override { return ++creates_seen == fail_create_nth; }
    std::vector<ScriptStep> script;
    size_t pos = 0;       // index of the step in progress
    bool in_step = false;
    int ops_in_step = 0;
    std::string drift;    // non-empty once the script could not be followed

    // random mode parameters
    Rng rng{1};
    int stay_num = 1, stay_den = 2;  // probability of continuing with the same thread
    int spurious_per_1000 = 0;
    int timeout_per_1000 = 0;
    int clock_per_1000 = 0;      // random mode: advance the virtual clock by clock_ms with this probability
    int64_t clock_ms = 0;
    int last = -1;
    bool pct = false;
    std::vector<int> prio;
    std::vector<long> change_at;
    long nsteps = 0;
    long max_steps = 100000;

    // hooks for the harness
    virtual void step_begin(size_t i, const std::vector<ThreadView> &) {}
    virtual void step_done(size_t i, const std::vector<ThreadView> &) {}
    virtual void script_done(const std::vector<ThreadView> &) {}  // script exhausted (before fallback)
    virtual void enter_fallback(const std::vector<ThreadView> &) {}
    virtual void before_run(int thread, const std::vector<ThreadView> &) {}
    virtual void too_long() {}

    static bool stops(const ScriptStep &st, const ThreadView &v) {
        if (v.finished) return (st.stop & STOP_FINISHED) != 0;
        if (v.pending == OP_CWAKE && !v.woken) return (st.stop & STOP_PARKED) != 0;
        if (v.pending == OP_MARK && !st.stop_label.empty())
            return (st.stop & bit(OP_MARK)) && v.label && st.stop_label == v.label;
        if (st.stop & bit(v.pending)) return true;
        if (!v.enabled && (st.stop & STOP_BLOCKED)) return true;
        return false;
    }

    // the step in progress when the last thread finished (or when everything blocked) is complete
    void finish_pending_step(const std::vector<ThreadView> &tv) {
        if (mode == SCRIPT && in_step && ops_in_step > 0 && pos < script.size()) {
            in_step = false;
            step_done(pos, tv);
            ++pos;
        }
    }
    void on_all_finished(const std::vector<ThreadView> &tv) override { finish_pending_step(tv); }

    void on_op(int thread, OpKind kind, const void *obj, const void *obj2, const char *label, int aux) override {
        if (mode == SCRIPT && in_step && pos < script.size() && script[pos].thread == thread) ++ops_in_step;
        op_applied(thread, kind, obj, obj2, label, aux);
    }
    virtual void op_applied(int thread, OpKind kind, const void *obj, const void *obj2, const char *label, int aux) {}

    Decision decide(const std::vector<ThreadView> &tv) override {
        if (++nsteps > max_steps) {
            too_long();
            Decision d;
            d.kind = Decision::STOP;
            return d;
        }
        if (mode == SCRIPT) {
            Decision d;
            if (decide_script(tv, d)) return d;
        }
        if (mode == RANDOM) return decide_random(tv);
        return decide_fallback(tv);
    }

protected:
    void go_fallback(const std::vector<ThreadView> &tv, const std::string &why) {
        if (!why.empty() && drift.empty()) drift = why;
        mode = FALLBACK;
        enter_fallback(tv);
    }

    bool decide_script(const std::vector<ThreadView> &tv, Decision &d) {
        if (pending_done) {  // the SPURIOUS / TIMEOUT decision of the previous call has been applied
            pending_done = false;
            step_done(pos, tv);
            ++pos;
        }
        for (;;) {
            if (in_step) {
                const ScriptStep &st = script[pos];
                const ThreadView &v = tv.at(st.thread);
                if (ops_in_step > 0 && stops(st, v)) {
                    in_step = false;
                    step_done(pos, tv);
                    ++pos;
                    continue;
                }
                if (!v.enabled) {
                    go_fallback(tv, "step " + std::to_string(pos) + ": thread " + std::to_string(st.thread) +
                                        " blocked at " + op_name(v.pending) + " before the step's end");
                    return false;
                }
                d.kind = Decision::RUN;
                d.thread = st.thread;
                d.wake = st.wake;
                before_run(st.thread, tv);
                return true;
            }
            if (pos >= script.size()) {
                script_done(tv);
                go_fallback(tv, "");
                return false;
            }
            const ScriptStep &st = script[pos];
            if (st.thread < 0 || st.thread >= (int) tv.size()) {
                go_fallback(tv, "step " + std::to_string(pos) + ": no such thread " + std::to_string(st.thread));
                return false;
            }
            step_begin(pos, tv);
            if (st.kind == ScriptStep::CLOCK) {
                d.kind = Decision::ADVANCE_CLOCK;
                d.clock_ms = st.clock_ms;
                step_done(pos, tv);
                ++pos;
                return true;
            }
            const ThreadView &v = tv[st.thread];
            if (st.kind == ScriptStep::SPURIOUS || st.kind == ScriptStep::TIMEOUT) {
                if (!(v.pending == OP_CWAKE && !v.woken)) {
                    go_fallback(tv, "step " + std::to_string(pos) + ": thread " + std::to_string(st.thread) + " is not parked");
                    return false;
                }
                d.kind = st.kind == ScriptStep::SPURIOUS ? Decision::SPURIOUS : Decision::TIMEOUT;
                d.thread = st.thread;
                pending_done = true;
                return true;
            }
            if (!v.enabled) {
                go_fallback(tv, "step " + std::to_string(pos) + ": thread " + std::to_string(st.thread) +
                                    " is not enabled (" + op_name(v.pending) + ")");
                return false;
            }
            in_step = true;
            ops_in_step = 0;
        }
    }

    // SPURIOUS/TIMEOUT decisions complete immediately; vsched calls decide() again right away.
    bool pending_done = false;

    Decision decide_fallback(const std::vector<ThreadView> &tv) {
        Decision d;
        d.kind = Decision::RUN;
        // keep running the last thread while it can, then the lowest enabled id
        if (last >= 0 && last < (int) tv.size() && tv[last].enabled) {
            d.thread = last;
        } else {
            for (auto &v : tv)
                if (v.enabled) {
                    d.thread = v.id;
                    break;
                }
        }
        last = d.thread;
        before_run(d.thread, tv);
        return d;
    }

    Decision decide_random(const std::vector<ThreadView> &tv) {
        Decision d;
        std::vector<int> en, parked, timedw;
        for (auto &v : tv) {
            if (v.enabled) en.push_back(v.id);
            if (!v.finished && v.pending == OP_CWAKE && !v.woken) {
                parked.push_back(v.id);
                if (v.timed) timedw.push_back(v.id);
            }
        }
        if (!parked.empty() && spurious_per_1000 > 0 && rng.chance(spurious_per_1000, 1000)) {
            d.kind = Decision::SPURIOUS;
            d.thread = parked[rng.below(parked.size())];
            return d;
        }
        if (clock_per_1000 > 0 && rng.chance(clock_per_1000, 1000)) {
            d.kind = Decision::ADVANCE_CLOCK;
            d.clock_ms = clock_ms;
            return d;
        }
        if (!timedw.empty() && timeout_per_1000 > 0 && rng.chance(timeout_per_1000, 1000)) {
            d.kind = Decision::TIMEOUT;
            d.thread = timedw[rng.below(timedw.size())];
            return d;
        }
        d.kind = Decision::RUN;
        if (pct) {
            while (prio.size() < tv.size()) prio.push_back(1000 + (int) rng.below(1000));
            for (long c : change_at)
                if (c == nsteps && last >= 0) prio[last] = (int) rng.below(100);
            int best = -1;
            for (int id : en)
                if (best < 0 || prio[id] > prio[best]) best = id;
            d.thread = best;
        } else if (last >= 0 && last < (int) tv.size() && tv[last].enabled && rng.chance(stay_num, stay_den)) {
            d.thread = last;
        } else {
            d.thread = en[rng.below(en.size())];
        }
        if (tv[d.thread].pending == OP_NOTIFY_ONE) d.wake = -2 - (int) rng.below(64);  // random waiter, see vsched
        last = d.thread;
        before_run(d.thread, tv);
        return d;
    }
};

}  // namespace vs
