// Happens-before race detector for code compiled with -fsanitize=thread (compile only) and linked
// against THIS stub runtime instead of libtsan. It is only meaningful under vsched: execution is
// serialised, so the detector needs no locking, and its vector clocks are advanced by the very same
// intercepted operations that drive the scheduler (mutex release -> acquire, create, join).
// Byte-granular shadow: last write and last reads per thread, with the code address of each access.
#include <malloc.h>
#include <pthread.h>

#include <cstdint>
#include <cstdio>
#include <cstring>
#include <map>
#include <set>
#include <string>
#include <unordered_map>
#include <vector>

#include "vsched.h"

namespace rd {

const int MAXT = 64;
struct VC {
    uint32_t c[MAXT];
    VC() { memset(c, 0, sizeof c); }
    void join(const VC &o) {
        for (int i = 0; i < MAXT; ++i)
            if (o.c[i] > c[i]) c[i] = o.c[i];
    }
};

struct Acc {
    int tid = -1;
    uint32_t clk = 0;
    uintptr_t pc = 0;
    bool atomic = false;
    uint32_t ctx = 0;   // interned call context (index into g_ctx)
};
struct Cell {
    Acc w;
    Acc r[4];   // a few recent readers (distinct threads)
};

bool g_on = false;
bool g_atomic_yield = false;   // every atomic operation of instrumented code is a scheduling point (rd_atomic_yield)
// rd_access_yield(p, seed): every instrumented plain access becomes a scheduling point with probability p / 100000.
// Executions are then no longer atomic between synchronisation operations, so that code which lost its mutual
// exclusion really gets torn (for data-race-free code this adds no behaviour).
uint32_t g_access_yield_p = 0;
uint64_t g_access_rng = 88172645463325252ULL;
VC g_vc[MAXT];
std::map<const void *, VC> g_sync;        // mutexes, atomics
VC g_final[MAXT];
std::unordered_map<uintptr_t, Cell> g_shadow;
thread_local int tl_ignore = 0;
thread_local uintptr_t tl_last_pc = 0;   // most recent instrumented code address of this thread (site of a free())
thread_local int tl_busy = 0;   // inside the detector: its own allocations and frees are not tracked
// set when the scheduler has been told that this thread is over: what it still does (thread-local destructors, freeing its
// stack bookkeeping) runs concurrently with the next scheduled thread and must not touch the detector's (unlocked) state
thread_local bool tl_dead = false;
struct Busy {
    Busy() { ++tl_busy; }
    ~Busy() { --tl_busy; }
};

// shadow call stack, maintained by __tsan_func_entry/exit: the call sites (return addresses) of the instrumented
// frames of this thread. An access made by standard-library code (std::set::find ...) is attributed through it to
// the function that called into the library.
const int STACK_MAX = 512, CTX_DEPTH = 8;
thread_local uintptr_t tl_stack[STACK_MAX];
thread_local int tl_sp = 0;
thread_local uint32_t tl_ctx = 0;
thread_local bool tl_ctx_valid = false;
struct Ctx {
    uintptr_t f[CTX_DEPTH];
    bool operator<(const Ctx &o) const { return memcmp(f, o.f, sizeof f) < 0; }
};
std::vector<Ctx> g_ctx;
std::map<Ctx, uint32_t> g_ctx_index;

uint32_t current_ctx() {
    if (tl_ctx_valid) return tl_ctx;
    Ctx c;
    memset(c.f, 0, sizeof c.f);
    int n = tl_sp < STACK_MAX ? tl_sp : STACK_MAX;
    for (int k = 0; k < CTX_DEPTH && k < n; ++k) c.f[k] = tl_stack[n - 1 - k];
    auto it = g_ctx_index.find(c);
    if (it == g_ctx_index.end()) {
        g_ctx.push_back(c);
        it = g_ctx_index.emplace(c, (uint32_t) g_ctx.size() - 1).first;
    }
    tl_ctx = it->second;
    tl_ctx_valid = true;
    return tl_ctx;
}

struct Report {
    uintptr_t addr, pc1, pc2;
    int t1, t2;
    bool w1, w2;
    uint32_t c1, c2;
};
std::vector<Report> g_reports;
std::set<std::pair<uintptr_t, uintptr_t>> g_seen;

inline int me() { return vs::self(); }
inline bool live() { return g_on && !tl_dead && vs::active() && tl_ignore == 0 && me() >= 0 && me() < MAXT; }

void report(uintptr_t addr, const Acc &prev, bool prev_w, int t, uintptr_t pc, bool cur_w) {
    Busy busy;
    uint32_t ctx = current_ctx();
    // one report per pair of (site, call context): the same library routine is reached from many callers
    auto a = std::make_pair(prev.pc ^ ((uintptr_t) prev.ctx << 48), pc ^ ((uintptr_t) ctx << 48));
    auto key = std::make_pair(std::min(a.first, a.second), std::max(a.first, a.second));
    if (!g_seen.insert(key).second) return;
    if (g_reports.size() < 400) g_reports.push_back({addr, prev.pc, pc, prev.tid, t, prev_w, cur_w, prev.ctx, ctx});
}

void access(uintptr_t addr, size_t size, bool is_write, uintptr_t pc, bool atomic = false, bool from_free = false) {
    if (!live() || tl_busy) return;
    // never from free(): the scheduler itself frees memory in the middle of its own operations
    if (g_access_yield_p && !atomic && !from_free) {
        g_access_rng ^= g_access_rng << 13;
        g_access_rng ^= g_access_rng >> 7;
        g_access_rng ^= g_access_rng << 17;
        if ((g_access_rng >> 11) % 100000 < g_access_yield_p) vs::yield("acc");
    }
    Busy busy;
    tl_last_pc = pc;
    int t = me();
    VC &C = g_vc[t];
    uint32_t ctx = current_ctx();
    for (size_t i = 0; i < size; ++i) {
        Cell &cell = g_shadow[addr + i];
        // previous write vs this access
        if (cell.w.tid >= 0 && cell.w.tid != t && cell.w.clk > C.c[cell.w.tid] && !(cell.w.atomic && atomic))
            report(addr + i, cell.w, true, t, pc, is_write);
        if (is_write) {
            for (Acc &r : cell.r)
                if (r.tid >= 0 && r.tid != t && r.clk > C.c[r.tid] && !(r.atomic && atomic)) report(addr + i, r, false, t, pc, true);
            cell.w = {t, C.c[t], pc, atomic, ctx};
            for (Acc &r : cell.r) r.tid = -1;
        } else {
            int slot = -1;
            for (int k = 0; k < 4; ++k)
                if (cell.r[k].tid == t) slot = k;
            if (slot < 0)
                for (int k = 0; k < 4; ++k)
                    if (cell.r[k].tid < 0) {
                        slot = k;
                        break;
                    }
            if (slot < 0) slot = 0;
            cell.r[slot] = {t, C.c[t], pc, atomic, ctx};
        }
    }
}

void atomic_point() {
    if (g_atomic_yield && live() && !tl_busy) vs::yield("atomic");
}

void clear_range(uintptr_t a, size_t n) {
    if (g_shadow.empty()) return;
    Busy busy;
    if (n > (1u << 20)) n = 1u << 20;
    for (size_t i = 0; i < n; ++i) g_shadow.erase(a + i);
}

}  // namespace rd

// ---- interface used by vsched (weak references there) ---------------------------------------------
extern "C" {
void rd_enable(int on) {
    rd::Busy busy;
    rd::g_on = on != 0;
    if (on) {
        for (auto &v : rd::g_vc) v = rd::VC();
        for (auto &v : rd::g_final) v = rd::VC();
        rd::g_sync.clear();
        rd::g_shadow.clear();
        rd::g_reports.clear();
        rd::g_seen.clear();
        rd::g_ctx.clear();
        rd::g_ctx_index.clear();
        rd::g_ctx.push_back(rd::Ctx{});
        rd::tl_ctx_valid = false;
        rd::g_vc[0].c[0] = 1;
    }
}
void rd_release(const void *obj) {
    if (!rd::g_on) return;
    int t = rd::me();
    if (t < 0 || t >= rd::MAXT) return;
    rd::Busy busy;
    rd::g_sync[obj].join(rd::g_vc[t]);
    rd::g_vc[t].c[t]++;
}
void rd_acquire(const void *obj) {
    if (!rd::g_on) return;
    int t = rd::me();
    if (t < 0 || t >= rd::MAXT) return;
    auto it = rd::g_sync.find(obj);
    if (it != rd::g_sync.end()) rd::g_vc[t].join(it->second);
}
void rd_fork(int parent, int child) {
    if (!rd::g_on || child >= rd::MAXT || parent < 0) return;
    rd::g_vc[child] = rd::g_vc[parent];
    rd::g_vc[child].c[child] = 1;
    rd::g_vc[parent].c[parent]++;
}
void rd_thread_begin(int t) {
    if (!rd::g_on || t >= rd::MAXT) return;
    rd::Busy busy;
    // a new thread may reuse the stack mapping of an exited one: forget what was recorded there
    pthread_attr_t a;
    if (pthread_getattr_np(pthread_self(), &a) == 0) {
        void *base = nullptr;
        size_t sz = 0;
        pthread_attr_getstack(&a, &base, &sz);
        pthread_attr_destroy(&a);
        uintptr_t lo = (uintptr_t) base, hi = lo + sz;
        for (auto it = rd::g_shadow.begin(); it != rd::g_shadow.end();)
            if (it->first >= lo && it->first < hi) it = rd::g_shadow.erase(it);
            else ++it;
    }
}
void rd_thread_end(int t) {
    rd::tl_dead = true;
    if (!rd::g_on || t >= rd::MAXT) return;
    rd::g_final[t] = rd::g_vc[t];
}
void rd_join(int joiner, int child) {
    if (!rd::g_on || child >= rd::MAXT || joiner < 0) return;
    rd::g_vc[joiner].join(rd::g_final[child]);
}
int rd_report_count() { return (int) rd::g_reports.size(); }
// writes one line per race: addr pc1 t1 w1 pc2 t2 w2
int rd_report(int i, char *buf, int n) {
    if (i < 0 || i >= (int) rd::g_reports.size()) return 0;
    auto &r = rd::g_reports[i];
    auto stack = [](uint32_t c) {
        std::string s = "[";
        if (c < rd::g_ctx.size())
            for (int k = 0; k < rd::CTX_DEPTH && rd::g_ctx[c].f[k]; ++k) {
                char b[32];
                snprintf(b, sizeof b, "%s\"0x%lx\"", k ? "," : "", (unsigned long) rd::g_ctx[c].f[k]);
                s += b;
            }
        return s + "]";
    };
    rd::Busy busy;
    return snprintf(buf, n, "\"addr\":\"0x%lx\",\"pc1\":\"0x%lx\",\"t1\":%d,\"w1\":%d,\"pc2\":\"0x%lx\",\"t2\":%d,\"w2\":%d,\"s1\":%s,\"s2\":%s",
                    (unsigned long) r.addr, (unsigned long) r.pc1, r.t1, r.w1 ? 1 : 0, (unsigned long) r.pc2, r.t2, r.w2 ? 1 : 0, stack(r.c1).c_str(),
                    stack(r.c2).c_str());
}
void rd_ignore(int delta) { rd::tl_ignore += delta; }
void rd_atomic_yield(int on) { rd::g_atomic_yield = on != 0; }
void rd_access_yield(int per_100000, unsigned seed) {
    rd::g_access_yield_p = per_100000 > 0 ? (uint32_t) per_100000 : 0;
    rd::g_access_rng = 88172645463325252ULL ^ ((uint64_t) seed * 0x9E3779B97F4A7C15ULL);
    if (rd::g_access_rng == 0) rd::g_access_rng = 1;
}

// ---- the tsan ABI the instrumented objects call -----------------------------------------------------
#define PC ((uintptr_t) __builtin_return_address(0))
void __tsan_init() {}
void __tsan_func_entry(void *call_pc) {
    rd::tl_last_pc = PC;
    if (rd::tl_sp < rd::STACK_MAX) rd::tl_stack[rd::tl_sp] = (uintptr_t) call_pc;
    ++rd::tl_sp;
    rd::tl_ctx_valid = false;
}
void __tsan_func_exit() {
    if (rd::tl_sp > 0) --rd::tl_sp;
    rd::tl_ctx_valid = false;
}
void __tsan_read1(void *a) { rd::access((uintptr_t) a, 1, false, PC); }
void __tsan_read2(void *a) { rd::access((uintptr_t) a, 2, false, PC); }
void __tsan_read4(void *a) { rd::access((uintptr_t) a, 4, false, PC); }
void __tsan_read8(void *a) { rd::access((uintptr_t) a, 8, false, PC); }
void __tsan_read16(void *a) { rd::access((uintptr_t) a, 16, false, PC); }
void __tsan_write1(void *a) { rd::access((uintptr_t) a, 1, true, PC); }
void __tsan_write2(void *a) { rd::access((uintptr_t) a, 2, true, PC); }
void __tsan_write4(void *a) { rd::access((uintptr_t) a, 4, true, PC); }
void __tsan_write8(void *a) { rd::access((uintptr_t) a, 8, true, PC); }
void __tsan_write16(void *a) { rd::access((uintptr_t) a, 16, true, PC); }
void __tsan_unaligned_read2(void *a) { rd::access((uintptr_t) a, 2, false, PC); }
void __tsan_unaligned_read4(void *a) { rd::access((uintptr_t) a, 4, false, PC); }
void __tsan_unaligned_read8(void *a) { rd::access((uintptr_t) a, 8, false, PC); }
void __tsan_unaligned_read16(void *a) { rd::access((uintptr_t) a, 16, false, PC); }
void __tsan_unaligned_write2(void *a) { rd::access((uintptr_t) a, 2, true, PC); }
void __tsan_unaligned_write4(void *a) { rd::access((uintptr_t) a, 4, true, PC); }
void __tsan_unaligned_write8(void *a) { rd::access((uintptr_t) a, 8, true, PC); }
void __tsan_unaligned_write16(void *a) { rd::access((uintptr_t) a, 16, true, PC); }
void __tsan_read_range(void *a, unsigned long n) { rd::access((uintptr_t) a, n > 256 ? 256 : n, false, PC); }
void __tsan_write_range(void *a, unsigned long n) { rd::access((uintptr_t) a, n > 256 ? 256 : n, true, PC); }
void __tsan_vptr_update(void **vptr, void *) { rd::access((uintptr_t) vptr, 8, true, PC); }
void __tsan_vptr_read(void **vptr) { rd::access((uintptr_t) vptr, 8, false, PC); }

// atomics: performed for real; seq_cst/acq/rel ones synchronise through a per-address clock and never
// race with each other (a plain access racing with an atomic one is still reported)
#define ATOMIC_OPS(N, T)                                                                                      \
    T __tsan_atomic##N##_load(const volatile T *a, int mo) {                                                  \
        rd::atomic_point();                                                                                   \
        rd::access((uintptr_t) a, sizeof(T), false, PC, true);                                                \
        if (mo != 0) rd_acquire((const void *) a); /* a relaxed load synchronises with nothing */            \
        return __atomic_load_n(a, __ATOMIC_SEQ_CST);                                                          \
    }                                                                                                         \
    void __tsan_atomic##N##_store(volatile T *a, T v, int mo) {                                               \
        rd::atomic_point();                                                                                   \
        rd::access((uintptr_t) a, sizeof(T), true, PC, true);                                                 \
        if (mo != 0) rd_release((const void *) a);                                                            \
        __atomic_store_n(a, v, __ATOMIC_SEQ_CST);                                                             \
    }                                                                                                         \
    T __tsan_atomic##N##_exchange(volatile T *a, T v, int) {                                                  \
        rd::atomic_point();                                                                                   \
        rd::access((uintptr_t) a, sizeof(T), true, PC, true);                                                 \
        rd_acquire((const void *) a);                                                                         \
        rd_release((const void *) a);                                                                         \
        return __atomic_exchange_n(a, v, __ATOMIC_SEQ_CST);                                                   \
    }                                                                                                         \
    T __tsan_atomic##N##_fetch_add(volatile T *a, T v, int) {                                                 \
        rd::atomic_point();                                                                                   \
        rd::access((uintptr_t) a, sizeof(T), true, PC, true);                                                 \
        rd_acquire((const void *) a);                                                                         \
        rd_release((const void *) a);                                                                         \
        return __atomic_fetch_add(a, v, __ATOMIC_SEQ_CST);                                                    \
    }                                                                                                         \
    T __tsan_atomic##N##_fetch_sub(volatile T *a, T v, int) {                                                 \
        rd::atomic_point();                                                                                   \
        rd::access((uintptr_t) a, sizeof(T), true, PC, true);                                                 \
        rd_acquire((const void *) a);                                                                         \
        rd_release((const void *) a);                                                                         \
        return __atomic_fetch_sub(a, v, __ATOMIC_SEQ_CST);                                                    \
    }                                                                                                         \
    T __tsan_atomic##N##_fetch_and(volatile T *a, T v, int) {                                                 \
        rd::atomic_point();                                                                                   \
        rd::access((uintptr_t) a, sizeof(T), true, PC, true);                                                 \
        rd_acquire((const void *) a);                                                                         \
        rd_release((const void *) a);                                                                         \
        return __atomic_fetch_and(a, v, __ATOMIC_SEQ_CST);                                                    \
    }                                                                                                         \
    T __tsan_atomic##N##_fetch_or(volatile T *a, T v, int) {                                                  \
        rd::atomic_point();                                                                                   \
        rd::access((uintptr_t) a, sizeof(T), true, PC, true);                                                 \
        rd_acquire((const void *) a);                                                                         \
        rd_release((const void *) a);                                                                         \
        return __atomic_fetch_or(a, v, __ATOMIC_SEQ_CST);                                                     \
    }                                                                                                         \
    T __tsan_atomic##N##_fetch_xor(volatile T *a, T v, int) {                                                 \
        rd::atomic_point();                                                                                   \
        rd::access((uintptr_t) a, sizeof(T), true, PC, true);                                                 \
        rd_acquire((const void *) a);                                                                         \
        rd_release((const void *) a);                                                                         \
        return __atomic_fetch_xor(a, v, __ATOMIC_SEQ_CST);                                                    \
    }                                                                                                         \
    T __tsan_atomic##N##_fetch_nand(volatile T *a, T v, int) {                                                \
        rd::atomic_point();                                                                                   \
        rd::access((uintptr_t) a, sizeof(T), true, PC, true);                                                 \
        rd_acquire((const void *) a);                                                                         \
        rd_release((const void *) a);                                                                         \
        return __atomic_fetch_nand(a, v, __ATOMIC_SEQ_CST);                                                   \
    }                                                                                                         \
    int __tsan_atomic##N##_compare_exchange_strong(volatile T *a, T *e, T d, int, int) {                      \
        rd::atomic_point();                                                                                   \
        rd::access((uintptr_t) a, sizeof(T), true, PC, true);                                                 \
        rd_acquire((const void *) a);                                                                         \
        rd_release((const void *) a);                                                                         \
        return __atomic_compare_exchange_n(a, e, d, false, __ATOMIC_SEQ_CST, __ATOMIC_SEQ_CST);               \
    }                                                                                                         \
    T __tsan_atomic##N##_compare_exchange_val(volatile T *a, T e, T d, int, int) {                            \
        rd::atomic_point();                                                                                   \
        rd::access((uintptr_t) a, sizeof(T), true, PC, true);                                                 \
        rd_acquire((const void *) a);                                                                         \
        rd_release((const void *) a);                                                                         \
        __atomic_compare_exchange_n(a, &e, d, false, __ATOMIC_SEQ_CST, __ATOMIC_SEQ_CST);                     \
        return e;                                                                                             \
    }                                                                                                         \
    int __tsan_atomic##N##_compare_exchange_weak(volatile T *a, T *e, T d, int, int) {                        \
        rd::atomic_point();                                                                                   \
        rd::access((uintptr_t) a, sizeof(T), true, PC, true);                                                 \
        rd_acquire((const void *) a);                                                                         \
        rd_release((const void *) a);                                                                         \
        return __atomic_compare_exchange_n(a, e, d, false, __ATOMIC_SEQ_CST, __ATOMIC_SEQ_CST);               \
    }
ATOMIC_OPS(8, unsigned char)
ATOMIC_OPS(16, unsigned short)
ATOMIC_OPS(32, unsigned int)
ATOMIC_OPS(64, unsigned long)
void __tsan_atomic_thread_fence(int) {}
void __tsan_atomic_signal_fence(int) {}

// memory handed back to the allocator must not keep its access history
extern void __libc_free(void *);
extern void *__libc_realloc(void *, size_t);
void free(void *p) {
    if (p && rd::g_on && !rd::tl_dead && rd::tl_busy == 0 && !rd::g_shadow.empty()) {
        // handing memory back is a write to all of it (the deallocating code in libstdc++ is not instrumented:
        // the site reported is the last instrumented address this thread passed)
        size_t n = malloc_usable_size(p);
        if (rd::tl_last_pc) rd::access((uintptr_t) p, n > 4096 ? 4096 : n, true, rd::tl_last_pc, false, true);
        rd::clear_range((uintptr_t) p, n);
    }
    __libc_free(p);
}
}  // extern "C"
