// vsched implementation: pthread interposition + baton-passing scheduler. See vsched.h.
#include "vsched.h"

#include <dlfcn.h>
#include <errno.h>
#include <pthread.h>
#include <sched.h>
#include <semaphore.h>
#include <sys/syscall.h>
#include <time.h>
#include <unistd.h>

#include <cstdio>
#include <cstdlib>
#include <cstring>
#include <map>

// optional happens-before race detector (racedet.cpp); absent unless linked
extern "C" {
void rd_enable(int) __attribute__((weak));
void rd_release(const void *) __attribute__((weak));
void rd_acquire(const void *) __attribute__((weak));
void rd_fork(int, int) __attribute__((weak));
void rd_thread_begin(int) __attribute__((weak));
void rd_thread_end(int) __attribute__((weak));
void rd_join(int, int) __attribute__((weak));
int rd_report_count() __attribute__((weak));
int rd_report(int, char *, int) __attribute__((weak));
void rd_ignore(int) __attribute__((weak));
}

namespace {
using namespace vs;

struct Th {
    int id = -1;
    sem_t sem;
    bool finished = false;
    OpKind pending = OP_NONE;
    const void *obj = nullptr, *obj2 = nullptr;
    const char *label = nullptr;
    bool woken = false, timed = false, timedout = false;
    int64_t deadline_ms = 0;   // timed wait: its absolute deadline on the virtual clock
    int held = 0;
    const std::function<bool()> *pred = nullptr;
    pthread_t real{};
    void *(*fn)(void *) = nullptr;
    void *arg = nullptr;
    int wake_choice = -1;
};

std::vector<Th *> g_threads;
std::map<const void *, int> g_owner;
std::map<const void *, std::vector<int>> g_waiters;
bool g_active = false;
Controller *g_ctl = nullptr;
int64_t g_clock_ms = 0;
sem_t g_done;
int g_result = 0;
bool g_over = false;
thread_local Th *tl_me = nullptr;
thread_local int tl_pass = 0;

const int64_t kEpochMs = 1700000000000LL;  // virtual clock origin

inline bool managed() { return g_active && tl_me != nullptr && tl_pass == 0 && !g_over; }

template <typename F>
F real_fn(F &slot, const char *name) {
    if (!slot) {
        slot = reinterpret_cast<F>(dlsym(RTLD_NEXT, name));
        if (!slot) {
            fprintf(stderr, "vsched: cannot resolve %s\n", name);
            _exit(97);
        }
    }
    return slot;
}

bool is_enabled(const Th *t) {
    if (t->finished) return false;
    switch (t->pending) {
        case OP_LOCK: {
            auto it = g_owner.find(t->obj);
            return it == g_owner.end() || it->second < 0;
        }
        case OP_CWAKE: {
            if (!(t->woken || t->timedout)) return false;
            auto it = g_owner.find(t->obj2);
            return it == g_owner.end() || it->second < 0;
        }
        case OP_JOIN: {
            int target = (int) (intptr_t) t->obj;
            return target >= 0 && target < (int) g_threads.size() && g_threads[target]->finished;
        }
        case OP_HWAIT: {
            ++tl_pass;
            bool r = (*t->pred)();
            --tl_pass;
            return r;
        }
        case OP_NONE: return false;
        case OP_IDLEWAIT: return false;   // decided in views(), after everybody else
        default: return true;
    }
}

void views(std::vector<ThreadView> &out) {
    out.clear();
    for (Th *t : g_threads) {
        ThreadView v;
        v.id = t->id;
        v.finished = t->finished;
        v.enabled = is_enabled(t);
        v.pending = t->pending;
        v.obj = t->obj;
        v.obj2 = t->obj2;
        v.label = t->label;
        v.woken = t->woken;
        v.timed = t->timed;
        v.held = t->held;
        out.push_back(v);
    }
    bool others = false;
    for (auto &v : out)
        if (v.enabled) others = true;
    if (!others)
        for (auto &v : out)
            if (!v.finished && v.pending == OP_IDLEWAIT) v.enabled = true;
}

void finish_run(int result, Th *me) {
    g_result = result;
    g_over = true;
    if (result != 0) {
        // deadlock or STOP: thread 0 may itself be parked deep inside the scenario, so run()
        // cannot return; the controller flushes what it has and the process ends here.
        ++tl_pass;
        g_ctl->on_abort(result);
        --tl_pass;
        fflush(nullptr);
        _exit(0);
    }
    sem_post(&g_done);
}

// Decide who runs next. Returns when `me` is to perform its pending op (or, for a finished
// thread, after the baton was handed on).
void dispatch_inner(Th *me);
// controller and harness hooks run in scheduler context: their memory accesses are not part of the program
void dispatch(Th *me) {
    if (rd_ignore) rd_ignore(1);
    dispatch_inner(me);
    if (rd_ignore) rd_ignore(-1);
}
void dispatch_inner(Th *me) {
    std::vector<ThreadView> vv;
    for (;;) {
        views(vv);
        bool any_enabled = false, all_finished = true;
        for (auto &v : vv) {
            any_enabled |= v.enabled;
            all_finished &= v.finished;
        }
        if (!any_enabled) {
            if (all_finished) {
                g_ctl->on_all_finished(vv);
                finish_run(0, me);
                return;
            }
            // a TIMED wait does promise to end: when nothing else can run, the one with the earliest deadline times out
            Th *first = nullptr;
            for (Th *t : g_threads)
                if (!t->finished && t->pending == OP_CWAKE && t->timed && !t->woken && (!first || t->deadline_ms < first->deadline_ms)) first = t;
            if (first) {
                first->timedout = true;
                first->woken = true;
                if (first->deadline_ms >= g_clock_ms) g_clock_ms = first->deadline_ms + 1;
                auto &ws = g_waiters[first->obj];
                for (size_t i = 0; i < ws.size(); ++i)
                    if (ws[i] == first->id) {
                        ws.erase(ws.begin() + i);
                        break;
                    }
                continue;
            }
            // a waiter that could be woken spuriously does not count: POSIX allows but never
            // promises spurious wake-ups, so this is a deadlock.
            g_ctl->on_deadlock(vv);
            finish_run(1, me);
            return;
        }
        Decision d = g_ctl->decide(vv);
        switch (d.kind) {
            case Decision::SPURIOUS:
            case Decision::TIMEOUT: {
                Th *w = g_threads.at(d.thread);
                if (w->pending == OP_CWAKE && !w->woken) {
                    if (d.kind == Decision::TIMEOUT) {
                        w->timedout = true;
                        // the caller re-reads the clock to tell a time-out from a spurious wake-up: time has passed
                        if (w->deadline_ms >= g_clock_ms) g_clock_ms = w->deadline_ms + 1;
                    }
                    w->woken = true;
                    auto &ws = g_waiters[w->obj];
                    for (size_t i = 0; i < ws.size(); ++i)
                        if (ws[i] == w->id) {
                            ws.erase(ws.begin() + i);
                            break;
                        }
                }
                continue;
            }
            case Decision::ADVANCE_CLOCK: g_clock_ms += d.clock_ms; continue;
            case Decision::STOP: finish_run(2, me); return;
            case Decision::RUN: break;
        }
        Th *n = g_threads.at(d.thread);
        if (!vv[d.thread].enabled) {
            fprintf(stderr, "vsched: controller chose disabled thread %d (%s)\n", d.thread, op_name(n->pending));
            _exit(98);
        }
        n->wake_choice = d.wake;
        if (n == me) return;
        sem_post(&n->sem);
        if (me->finished) return;
        while (sem_wait(&me->sem) != 0 && errno == EINTR) {}
        return;
    }
}

void set_pending(Th *me, OpKind k, const void *obj = nullptr, const void *obj2 = nullptr, const char *label = nullptr) {
    me->pending = k;
    me->obj = obj;
    me->obj2 = obj2;
    me->label = label;
}

void applied(Th *me, int aux = 0) {
    OpKind k = me->pending;
    const void *o = me->obj, *o2 = me->obj2;
    const char *l = me->label;
    me->pending = OP_NONE;
    ++tl_pass;
    if (rd_ignore) rd_ignore(1);
    g_ctl->on_op(me->id, k, o, o2, l, aux);
    if (rd_ignore) rd_ignore(-1);
    --tl_pass;
}

void *trampoline(void *p) {
    Th *me = static_cast<Th *>(p);
    tl_me = me;
    while (sem_wait(&me->sem) != 0 && errno == EINTR) {}
    if (rd_thread_begin) rd_thread_begin(me->id);
    applied(me);  // OP_START
    void *ret = me->fn(me->arg);
    if (rd_thread_end) rd_thread_end(me->id);
    set_pending(me, OP_EXIT);
    me->finished = true;
    applied(me);
    me->finished = true;
    dispatch(me);
    return ret;
}

int do_cond_wait(pthread_cond_t *c, pthread_mutex_t *m, bool timed, const struct timespec *ts = nullptr) {
    Th *me = tl_me;
    me->deadline_ms = ts ? (int64_t) ts->tv_sec * 1000 + ts->tv_nsec / 1000000 - kEpochMs : 0;
    set_pending(me, OP_CWAIT, c, m);
    dispatch(me);
    // atomic release + enqueue
    if (rd_release) rd_release(m);
    g_owner[m] = -1;
    --me->held;
    g_waiters[c].push_back(me->id);
    me->woken = false;
    me->timedout = false;
    me->timed = timed;
    applied(me);
    set_pending(me, OP_CWAKE, c, m);
    dispatch(me);
    g_owner[m] = me->id;
    ++me->held;
    if (rd_acquire) rd_acquire(m);
    bool to = me->timedout;
    me->woken = me->timedout = me->timed = false;
    applied(me, to ? 1 : 0);
    return to ? ETIMEDOUT : 0;
}

}  // namespace

namespace vs {

const char *op_name(OpKind k) {
    switch (k) {
        case OP_NONE: return "NONE";
        case OP_START: return "START";
        case OP_LOCK: return "LOCK";
        case OP_UNLOCK: return "UNLOCK";
        case OP_CWAIT: return "CWAIT";
        case OP_CWAKE: return "CWAKE";
        case OP_NOTIFY_ONE: return "NOTIFY_ONE";
        case OP_NOTIFY_ALL: return "NOTIFY_ALL";
        case OP_CREATE: return "CREATE";
        case OP_JOIN: return "JOIN";
        case OP_MARK: return "MARK";
        case OP_HWAIT: return "HWAIT";
        case OP_SLEEP: return "SLEEP";
        case OP_EXIT: return "EXIT";
        case OP_TRYLOCK: return "TRYLOCK";
        case OP_IDLEWAIT: return "IDLEWAIT";
    }
    return "?";
}

int run(Controller &ctl, const std::function<void()> &body) {
    for (Th *t : g_threads) delete t;
    g_threads.clear();
    g_owner.clear();
    g_waiters.clear();
    g_clock_ms = 0;
    g_result = 0;
    g_over = false;
    sem_init(&g_done, 0, 0);
    g_ctl = &ctl;
    if (rd_enable) rd_enable(1);
    Th *me = new Th;
    me->id = 0;
    sem_init(&me->sem, 0, 0);
    me->real = pthread_self();
    g_threads.push_back(me);
    tl_me = me;
    g_active = true;
    set_pending(me, OP_START);
    dispatch(me);
    applied(me);
    body();
    set_pending(me, OP_EXIT);
    me->finished = true;
    applied(me);
    me->finished = true;
    dispatch(me);
    while (sem_wait(&g_done) != 0 && errno == EINTR) {}
    g_active = false;
    tl_me = nullptr;
    return g_result;
}

bool active() { return g_active; }
int self() { return tl_me ? tl_me->id : -1; }
int64_t clock_ms() { return g_clock_ms; }
int thread_count() { return (int) g_threads.size(); }

std::vector<std::string> race_reports() {
    std::vector<std::string> v;
    if (!rd_report_count) return v;
    char buf[2048];
    for (int i = 0; i < rd_report_count(); ++i)
        if (rd_report(i, buf, sizeof buf) > 0) v.push_back(buf);
    return v;
}
bool race_detector_linked() { return rd_report_count != nullptr; }

int mutex_owner(const void *m) {
    auto it = g_owner.find(m);
    return it == g_owner.end() ? -1 : it->second;
}

void yield(const char *label) {
    if (!managed()) return;
    Th *me = tl_me;
    set_pending(me, OP_MARK, nullptr, nullptr, label);
    dispatch(me);
    applied(me);
}

void block_until(const char *label, const std::function<bool()> &pred) {
    if (!managed()) return;
    Th *me = tl_me;
    me->pred = &pred;
    set_pending(me, OP_HWAIT, nullptr, nullptr, label);
    dispatch(me);
    me->pred = nullptr;
    applied(me);
}

void wait_quiescent(const char *label) {
    if (!managed()) return;
    Th *me = tl_me;
    set_pending(me, OP_IDLEWAIT, nullptr, nullptr, label);
    dispatch(me);
    applied(me);
}

Passthrough::Passthrough() { ++tl_pass; }
Passthrough::~Passthrough() { --tl_pass; }

}  // namespace vs

// ---------------------------------------------------------------------------------------------
// interposed symbols
// ---------------------------------------------------------------------------------------------
extern "C" {

int pthread_mutex_lock(pthread_mutex_t *m) {
    static int (*real)(pthread_mutex_t *) = nullptr;
    if (!managed()) return real_fn(real, "pthread_mutex_lock")(m);
    Th *me = tl_me;
    set_pending(me, OP_LOCK, m);
    dispatch(me);
    g_owner[m] = me->id;
    ++me->held;
    if (rd_acquire) rd_acquire(m);
    applied(me);
    return 0;
}

int pthread_mutex_trylock(pthread_mutex_t *m) {
    static int (*real)(pthread_mutex_t *) = nullptr;
    if (!managed()) return real_fn(real, "pthread_mutex_trylock")(m);
    Th *me = tl_me;
    set_pending(me, OP_TRYLOCK, m);
    dispatch(me);
    auto it = g_owner.find(m);
    bool free_ = it == g_owner.end() || it->second < 0;
    if (free_) {
        g_owner[m] = me->id;
        ++me->held;
        if (rd_acquire) rd_acquire(m);
    }
    applied(me, free_ ? 1 : 0);
    return free_ ? 0 : EBUSY;
}

int pthread_mutex_unlock(pthread_mutex_t *m) {
    static int (*real)(pthread_mutex_t *) = nullptr;
    if (!managed()) return real_fn(real, "pthread_mutex_unlock")(m);
    Th *me = tl_me;
    // not a yield point: releasing cannot be disabled and the next intercepted operation yields
    set_pending(me, OP_UNLOCK, m);
    if (rd_release) rd_release(m);
    g_owner[m] = -1;
    --me->held;
    applied(me);
    return 0;
}

int pthread_cond_wait(pthread_cond_t *c, pthread_mutex_t *m) {
    static int (*real)(pthread_cond_t *, pthread_mutex_t *) = nullptr;
    if (!managed()) return real_fn(real, "pthread_cond_wait")(c, m);
    return do_cond_wait(c, m, false);
}

int pthread_cond_timedwait(pthread_cond_t *c, pthread_mutex_t *m, const struct timespec *ts) {
    static int (*real)(pthread_cond_t *, pthread_mutex_t *, const struct timespec *) = nullptr;
    if (!managed()) return real_fn(real, "pthread_cond_timedwait")(c, m, ts);
    return do_cond_wait(c, m, true, ts);
}

int pthread_cond_clockwait(pthread_cond_t *c, pthread_mutex_t *m, clockid_t clk, const struct timespec *ts) {
    static int (*real)(pthread_cond_t *, pthread_mutex_t *, clockid_t, const struct timespec *) = nullptr;
    if (!managed()) return real_fn(real, "pthread_cond_clockwait")(c, m, clk, ts);
    return do_cond_wait(c, m, true, ts);
}

int pthread_cond_signal(pthread_cond_t *c) {
    static int (*real)(pthread_cond_t *) = nullptr;
    if (!managed()) return real_fn(real, "pthread_cond_signal")(c);
    Th *me = tl_me;
    set_pending(me, OP_NOTIFY_ONE, c);
    dispatch(me);
    auto &ws = g_waiters[c];
    int woke = -1;
    if (!ws.empty()) {
        size_t idx = 0;
        if (me->wake_choice >= 0) {
            for (size_t i = 0; i < ws.size(); ++i)
                if (ws[i] == me->wake_choice) idx = i;
        } else if (me->wake_choice <= -2) {
            idx = (size_t) (-2 - me->wake_choice) % ws.size();
        }
        woke = ws[idx];
        g_threads[woke]->woken = true;
        ws.erase(ws.begin() + idx);
    }
    applied(me, woke);
    return 0;
}

int pthread_cond_broadcast(pthread_cond_t *c) {
    static int (*real)(pthread_cond_t *) = nullptr;
    if (!managed()) return real_fn(real, "pthread_cond_broadcast")(c);
    Th *me = tl_me;
    set_pending(me, OP_NOTIFY_ALL, c);
    dispatch(me);
    auto &ws = g_waiters[c];
    int n = (int) ws.size();
    for (int w : ws) g_threads[w]->woken = true;
    ws.clear();
    applied(me, n);
    return 0;
}

int pthread_create(pthread_t *th, const pthread_attr_t *attr, void *(*fn)(void *), void *arg) {
    static int (*real)(pthread_t *, const pthread_attr_t *, void *(*) (void *), void *) = nullptr;
    if (!managed()) return real_fn(real, "pthread_create")(th, attr, fn, arg);
    Th *me = tl_me;
    set_pending(me, OP_CREATE);
    dispatch(me);
    bool fail = false;
    if (g_ctl) {
        // the controller's code is instrumented like the harness: no scheduling points inside the scheduler's own operation
        ++tl_pass;
        if (rd_ignore) rd_ignore(1);
        fail = g_ctl->fail_create();
        if (rd_ignore) rd_ignore(-1);
        --tl_pass;
    }
    if (fail) {
        applied(me, -1);
        return EAGAIN;
    }
    Th *n = new Th;
    n->id = (int) g_threads.size();
    sem_init(&n->sem, 0, 0);
    n->fn = fn;
    n->arg = arg;
    set_pending(n, OP_START);
    g_threads.push_back(n);
    ++tl_pass;
    int rc = real_fn(real, "pthread_create")(&n->real, attr, trampoline, n);
    --tl_pass;
    if (rc != 0) {
        fprintf(stderr, "vsched: real pthread_create failed: %d\n", rc);
        _exit(96);
    }
    *th = n->real;
    if (rd_fork) rd_fork(me->id, n->id);
    applied(me, n->id);
    if (g_ctl && g_ctl->yield_after_create()) vs::yield("created");
    return 0;
}

int pthread_join(pthread_t th, void **ret) {
    static int (*real)(pthread_t, void **) = nullptr;
    if (!managed()) return real_fn(real, "pthread_join")(th, ret);
    Th *me = tl_me;
    int target = -1;
    for (Th *t : g_threads)
        if (t->id != 0 && pthread_equal(t->real, th)) target = t->id;
    if (target < 0) return real_fn(real, "pthread_join")(th, ret);
    set_pending(me, OP_JOIN, (const void *) (intptr_t) target);
    dispatch(me);
    ++tl_pass;
    int rc = real_fn(real, "pthread_join")(th, ret);
    --tl_pass;
    if (rd_join) rd_join(me->id, target);
    applied(me, target);
    return rc;
}

int clock_gettime(clockid_t clk, struct timespec *ts) {
    if (managed() && (clk == CLOCK_REALTIME || clk == CLOCK_MONOTONIC)) {
        int64_t ms = kEpochMs + g_clock_ms;
        ts->tv_sec = ms / 1000;
        ts->tv_nsec = (ms % 1000) * 1000000L;
        return 0;
    }
    return (int) syscall(SYS_clock_gettime, clk, ts);
}

int nanosleep(const struct timespec *req, struct timespec *rem) {
    if (!managed()) return (int) syscall(SYS_nanosleep, req, rem);
    Th *me = tl_me;
    set_pending(me, OP_SLEEP);
    dispatch(me);
    g_clock_ms += req->tv_sec * 1000 + req->tv_nsec / 1000000;
    applied(me);
    return 0;
}

int clock_nanosleep(clockid_t clk, int flags, const struct timespec *req, struct timespec *rem) {
    if (!managed()) return (int) syscall(SYS_clock_nanosleep, clk, flags, req, rem);
    Th *me = tl_me;
    set_pending(me, OP_SLEEP);
    dispatch(me);
    if (!(flags & TIMER_ABSTIME)) g_clock_ms += req->tv_sec * 1000 + req->tv_nsec / 1000000;
    applied(me);
    return 0;
}

int sched_yield(void) {
    if (!managed()) return (int) syscall(SYS_sched_yield);
    Th *me = tl_me;
    set_pending(me, OP_SLEEP);
    dispatch(me);
    applied(me);
    return 0;
}

}  // extern "C"
