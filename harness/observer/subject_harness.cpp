// Replay harness for tulz::Subject (C05, C10): histories from the TLC graph of SubjectP / random
// generator executed on the real Subject for several argument signatures; callbacks interpret the
// scripts attached by the model (re-entrant subscribe / unsubscribe / mute / invalidate / notify).
#include <map>
#include <memory>
#include <string>
#include <vector>

#include <tulz/observer/Subject.h>

#include <tulz/observer/USubscription.h>

#include "../common/runner.h"

extern "C" int __lsan_do_recoverable_leak_check(void) __attribute__((weak));
using namespace hr;

namespace {

struct Op {
    std::string k;
    int t = 0;
};
using Script = std::vector<Op>;

// ---- argument signatures ----------------------------------------------------------------------
std::string big(int a) { return std::string(30, (char) ('a' + a % 26)) + std::to_string(a); }
long unbig(const std::string &s) { return s.size() > 30 ? strtol(s.c_str() + 30, nullptr, 10) : -1; }

struct SigNone {
    using S = tulz::Subject<>;
    using EO = tulz::EternalObserver<>;
    static long notify(S &s, int) {
        s.notify();
        return 0;
    }
    template <class F>
    static auto cb(F f) {
        return [f]() { f(0); };
    }
    static long expect(int) { return 0; }
};
struct SigInt {
    using S = tulz::Subject<int>;
    using EO = tulz::EternalObserver<int>;
    static long notify(S &s, int a) {
        s.notify(a * 7 + 1);
        return 0;
    }
    // the argument is an lvalue that lives in the calling observer's own closure: the values of a round are fixed when notify()
    // is called, whatever happens to that observer (and its closure) while the round is running
    static long notify_cell(S &s, int &cell, int a) {
        cell = a * 7 + 1;
        s.notify(cell);
        return 0;
    }
    template <class F>
    static auto cb(F f) {
        return [f](int v) { f(v); };
    }
    static long expect(int a) { return a * 7 + 1; }
};
struct SigStr {
    using S = tulz::Subject<std::string>;
    using EO = tulz::EternalObserver<std::string>;
    static long notify(S &s, int a) {
        s.notify(big(a));
        return 0;
    }
    template <class F>
    static auto cb(F f) {
        return [f](std::string v) { f(unbig(v)); };
    }
    static long expect(int a) { return a; }
};
struct SigCRef {
    using S = tulz::Subject<const std::string &>;
    using EO = tulz::EternalObserver<const std::string &>;
    static long notify(S &s, int a) {
        std::string v = big(a);
        s.notify(v);
        return 0;
    }
    template <class F>
    static auto cb(F f) {
        return [f](const std::string &v) { f(unbig(v)); };
    }
    static long expect(int a) { return a; }
};
struct SigIntStr {
    using S = tulz::Subject<int, std::string>;
    using EO = tulz::EternalObserver<int, std::string>;
    static long notify(S &s, int a) {
        s.notify(a + 100, big(a));
        return 0;
    }
    template <class F>
    static auto cb(F f) {
        return [f](int i, std::string v) { f(i * 1000 + unbig(v)); };
    }
    static long expect(int a) { return (a + 100) * 1000 + a; }
};

struct CallbackThrew {};   // thrown by a callback whose script says so

// ---- per-execution state ------------------------------------------------------------------------
struct LogEntry {
    int id;
    long val;
    int depth;
};
std::vector<LogEntry> g_log;
std::map<int, int> g_destroyed;  // id -> times destroyed
int g_depth = 1;
int g_max_depth = 2;
int g_cur_arg = 0;
int g_max_subs = 5;

struct Tracker {
    int id;
    explicit Tracker(int i) : id(i) {}
    ~Tracker() { ++g_destroyed[id]; }
};

template <class Sig>
struct Run {
    using S = typename Sig::S;
    using Sub = typename S::Subscription_t;
    std::unique_ptr<S> subject{new S()};
    S foreign;
    std::map<std::string, Sub> H;   // named handles
    std::vector<Sub> extra{2};      // subscriptions made by callbacks (two slots, like the model's Extra)
    int next_id = 1;

    Sub *find(int id) {
        for (auto &kv : H)
            if (kv.first != "hf" && kv.second.isValid() && (int) kv.second.getId() == id - 1) return &kv.second;
        for (auto &s : extra)
            if (s.isValid() && (int) s.getId() == id - 1) return &s;
        return nullptr;
    }

    void run_script(int self, const Script &sc, int *cell = nullptr) {
        for (const Op &op : sc) {
            int t = op.t == 0 ? self : op.t;
            if (op.k == "throw") throw CallbackThrew{};   // leaves every notify() on the stack; caught where the test called notify
            if (op.k == "notify") {
                if (g_depth < g_max_depth) {
                    ++g_depth;
                    // the cell belongs to the observer's closure: only usable while that observer still exists
                    if constexpr (requires(S &s, int &c) { Sig::notify_cell(s, c, 0); }) {
                        if (cell != nullptr && find(self) != nullptr) Sig::notify_cell(*subject, *cell, g_cur_arg);
                        else Sig::notify(*subject, g_cur_arg);
                    } else
                        Sig::notify(*subject, g_cur_arg);
                    --g_depth;
                }
            } else if (op.k == "sub") {
                // a slot is free while it holds a default handle (cleared by unsubscribe); stale ones stay taken
                if (next_id <= g_max_subs)
                    for (auto &slot : extra)
                        if (slot.getSubject() == nullptr) {
                            slot = do_subscribe(Script());
                            break;
                        }
            } else if (Sub *s = find(t)) {
                if (op.k == "unsub") s->unsubscribe();
                else if (op.k == "mute") s->mute();
                else if (op.k == "unmute") s->unmute();
                else if (op.k == "inval") s->getObserver()->invalidate();
            }
        }
    }

    Sub do_subscribe(const Script &sc, bool start_muted = false) {
        int id = next_id++;
        auto tracker = std::make_shared<Tracker>(id);
        auto cell = std::make_shared<int>(0);   // owned by the closure alone: gone when the observer is destroyed
        auto f = [this, id, sc, tracker, cell](long v) {
            Script local = sc;  // the callback may destroy its own observer (and this closure): work on copies
            Run *self = this;
            int myid = id;
            int *c = cell.get();
            g_log.push_back({myid, v, g_depth});
            self->run_script(myid, local, c);
        };
        cell.reset();
        // three construction paths of ObserverAutoPtr: invocable, unique_ptr of a derived observer, raw pointer
        using EO = typename Sig::EO;
        using Func = typename S::Observer_t::Func;
        if (start_muted) {   // only the two paths that take a ready-made observer can carry initial parameters
            typename EO::Params prm;
            prm.mute = true;
            if (id % 2) return subject->subscribe(std::make_unique<EO>(Func(Sig::cb(f)), prm));
            return subject->subscribe(static_cast<typename S::Observer_t *>(new EO(Func(Sig::cb(f)), prm)));
        }
        switch (id % 3) {
            case 0: return subject->subscribe(Sig::cb(f));
            case 1: return subject->subscribe(std::make_unique<EO>(Func(Sig::cb(f))));
            default: return subject->subscribe(static_cast<typename S::Observer_t *>(new EO(Func(Sig::cb(f)))));
        }
    }
};

Script parse_script(const std::string &s) {
    // "unsub:2,mute:0"  or "-"
    Script sc;
    if (s.empty() || s == "-") return sc;
    std::stringstream ss(s);
    std::string tok;
    while (std::getline(ss, tok, ',')) {
        Op op;
        auto p = tok.find(':');
        op.k = tok.substr(0, p);
        op.t = p == std::string::npos ? 0 : atoi(tok.c_str() + p + 1);
        sc.push_back(op);
    }
    return sc;
}

template <class Sig>
void run_typed(const Execution &ex) {
    g_log.clear();
    g_destroyed.clear();
    g_depth = 1;
    g_max_depth = (int) ex.cfg.num("maxdepth", 2);
    g_max_subs = (int) ex.cfg.num("maxsubs", 5);
    bool filter = ex.cfg.num("filter", 0) != 0;
    // usub=1: the named handles are type-erased USubscriptions; every handle operation and every state report goes
    // through USubscription::Invoker (UnsubS and Swap have no counterpart there and are skipped)
    bool usub = ex.cfg.num("usub", 0) != 0;
    std::map<std::string, std::unique_ptr<tulz::USubscription>> U;
    std::map<std::string, bool> u_holds;            // wrapped and not unsubscribed through the handle
    std::map<std::string, typename Run<Sig>::S::Observer_t *> u_obs;
    auto *run = new Run<Sig>();
    auto fsub = run->foreign.subscribe(Sig::cb([](long) {}));
    run->H["hf"] = std::move(fsub);
    for (const char *h : {"h1", "h2", "h3", "h4"}) run->H[h];
    int i = 0;
    auto emit = [&](const std::string &op, const std::string &res) {
        std::string s = "\"e\":\"Obs\",\"i\":" + std::to_string(i) + ",\"op\":" + jstr(op) + ",\"res\":" + jstr(res) + ",\"log\":[";
        for (size_t k = 0; k < g_log.size(); ++k) {
            if (k) s += ",";
            s += "[" + std::to_string(g_log[k].id) + "," + std::to_string(g_log[k].val) + "," + std::to_string(g_log[k].depth) + "]";
        }
        s += "],\"valid\":{";
        bool first = true;
        for (auto &kv : run->H) {
            if (kv.first == "hf") continue;
            if (!first) s += ",";
            first = false;
            bool v = usub ? (U[kv.first] && (*U[kv.first])->isValid()) : kv.second.isValid();
            s += jstr(kv.first) + ":" + (v ? "true" : "false");
        }
        s += "},\"muted\":{";
        first = true;
        for (auto &kv : run->H) {
            bool v = usub ? (U[kv.first] && (*U[kv.first])->isValid()) : kv.second.isValid();
            if (kv.first == "hf" || !v) continue;
            if (!first) s += ",";
            first = false;
            bool m = usub ? (*U[kv.first])->isMuted() : kv.second.isMuted();
            s += jstr(kv.first) + ":" + (m ? "true" : "false");
        }
        s += "},\"ids\":{";
        first = true;
        for (auto &kv : run->H) {
            if (kv.first == "hf") continue;
            if (!first) s += ",";
            first = false;
            s += jstr(kv.first) + ":" + std::to_string(kv.second.isValid() ? (long) kv.second.getId() + 1 : 0);
        }
        s += "},\"destroyed\":[";
        first = true;
        for (auto &kv : g_destroyed) {
            for (int n = 0; n < kv.second; ++n) {
                if (!first) s += ",";
                first = false;
                s += std::to_string(kv.first);
            }
        }
        s += "],\"has\":" + std::string(run->subject->hasSubscriptions() ? "true" : "false");
        out().raw(s);
    };
    for (const auto &st : ex.steps) {
        std::string op = st.str("op"), h = st.str("h", "h1"), res = "ok";
        g_log.clear();
        if (usub) {
            bool ok = h != "hf";
            bool valid = ok && U[h] && (*U[h])->isValid();
            if (op == "Subscribe") ok = ok && !u_holds[h] && run->next_id <= g_max_subs;
            else if (op == "UnsubH") ok = ok && u_holds[h];
            else if (op == "Mute") ok = valid && !(*U[h])->isMuted();
            else if (op == "Unmute") ok = valid && (*U[h])->isMuted();
            else if (op == "Invalidate") ok = valid && u_obs[h]->isValid();
            else if (op != "Notify") ok = false;   // UnsubS, Swap
            if (!ok) {
                out().line("\"e\":\"Skip\",\"i\":%d", i);
                ++i;
                continue;
            }
            try {
                if (op == "Subscribe") {
                    auto sub = run->do_subscribe(parse_script(st.str("sc", "-")));
                    u_obs[h] = sub.getObserver();
                    U[h] = std::make_unique<tulz::USubscription>(std::move(sub));
                    u_holds[h] = true;
                } else if (op == "UnsubH") {
                    (*U[h])->unsubscribe();
                    u_holds[h] = false;
                } else if (op == "Mute") {
                    (*U[h])->mute();
                } else if (op == "Unmute") {
                    (*U[h])->unmute();
                } else if (op == "Invalidate") {
                    u_obs[h]->invalidate();
                } else {
                    g_cur_arg = (int) st.num("a", 1);
                    g_depth = 1;
                    Sig::notify(*run->subject, g_cur_arg);
                }
            } catch (const std::invalid_argument &) {
                res = "rejected";
            } catch (const CallbackThrew &) {
                res = "threw";
                g_depth = 0;
            }
            emit(op, res);
            ++i;
            continue;
        }
        if (filter) {
            // random histories: skip operations whose documented precondition does not hold
            auto &hd = run->H[h];
            bool ok = true;
            if (op == "Subscribe" || op == "SubscribeMuted") ok = hd.getSubject() == nullptr && run->next_id <= g_max_subs && h != "hf";
            else if (op == "UnsubF") ok = hd.getSubject() != nullptr && h != "hf";
            else if (op == "UnsubH") ok = hd.getSubject() != nullptr && h != "hf";
            // mute() on a muted observer and unmute() on an unmuted one are legal and change nothing (MuteAgain / UnmuteAgain)
            else if (op == "Mute") ok = h != "hf" && hd.isValid();
            else if (op == "Unmute") ok = h != "hf" && hd.isValid();
            else if (op == "Invalidate") ok = h != "hf" && hd.isValid() && hd.getObserver()->isValid();
            else if (op == "Drop") ok = h != "hf" && hd.getSubject() != nullptr;
            else if (op == "Swap") {
                auto &h2 = run->H[st.str("h2")];
                ok = h != "hf" && st.str("h2") != "hf" && h != st.str("h2") &&
                     !(hd.getSubject() == h2.getSubject() && hd.getId() == h2.getId());
            }
            if (!ok) {
                out().line("\"e\":\"Skip\",\"i\":%d", i);
                ++i;
                continue;
            }
        }
        try {
            if (op == "Subscribe") {
                run->H[h] = run->do_subscribe(parse_script(st.str("sc", "-")));
            } else if (op == "SubscribeMuted") {
                run->H[h] = run->do_subscribe(parse_script(st.str("sc", "-")), true);
            } else if (op == "UnsubF") {
                run->foreign.unsubscribe(run->H[h]);   // another subject of the same signature
            } else if (op == "UnsubH") {
                run->H[h].unsubscribe();
            } else if (op == "UnsubS") {
                run->subject->unsubscribe(run->H[h]);
            } else if (op == "Mute") {
                run->H[h].mute();
            } else if (op == "Unmute") {
                run->H[h].unmute();
            } else if (op == "Invalidate") {
                run->H[h].getObserver()->invalidate();
            } else if (op == "Drop") {
                // the handle is given up: a default handle takes its place, the old one is destroyed (the observer stays subscribed)
                typename Run<Sig>::Sub fresh;
                run->H[h] = std::move(fresh);
            } else if (op == "Swap") {
                // h = std::move(h2) (move assignment swaps the two handles)
                run->H[h] = std::move(run->H[st.str("h2")]);
            } else if (op == "Notify") {
                g_cur_arg = (int) st.num("a", 1);
                g_depth = 1;
                Sig::notify(*run->subject, g_cur_arg);
            }
        } catch (const std::invalid_argument &) {
            res = "rejected";
        } catch (const CallbackThrew &) {
            res = "threw";
            g_depth = 0;
        }
        emit(op, res);
        ++i;
    }
    U.clear();
    // the Subject dies: every observer it still owns is destroyed
    run->subject.reset();
    std::string s = "\"e\":\"Final\",\"destroyed\":[";
    bool first = true;
    for (auto &kv : g_destroyed)
        for (int n = 0; n < kv.second; ++n) {
            if (!first) s += ",";
            first = false;
            s += std::to_string(kv.first);
        }
    s += "],\"subscribed\":" + std::to_string(run->next_id - 1);
    delete run;
    int leaks = 0;
    if (__lsan_do_recoverable_leak_check) leaks = __lsan_do_recoverable_leak_check();
    out().raw(s + ",\"lsan_leak\":" + std::to_string(leaks));
}

void run_exec(const Execution &ex) {
    std::string sig = ex.cfg.str("sig", "int");
    if (sig == "none") run_typed<SigNone>(ex);
    else if (sig == "int") run_typed<SigInt>(ex);
    else if (sig == "str") run_typed<SigStr>(ex);
    else if (sig == "cref") run_typed<SigCRef>(ex);
    else run_typed<SigIntStr>(ex);
}

}  // namespace

int main(int argc, char **argv) { return drive(argc, argv, run_exec); }
