// Replay harness for tulz::Observable (C16): histories from the TLC graph of ObservableP executed on
// Observable<int>, <long>, <unsigned>, <float, NearEq>, <double, NearEq> and <std::string>.
#include <cmath>
#include <map>
#include <memory>
#include <string>
#include <vector>

#include <tulz/observer/Observable.h>

#include "../common/runner.h"

using namespace hr;

namespace {

template <class T>
struct NearEq {
    bool operator()(const T &a, const T &b) const { return std::fabs(a - b) <= T(0.3); }
};

template <class T>
struct CoarseEq {   // tolerance larger than one increment: ++/-- must still notify
    bool operator()(const T &a, const T &b) const { return std::fabs(a - b) <= T(1.5); }
};

// model units <-> C++ values
template <class T>
struct Conv {
    static T to(long v) { return (T) v; }
    static long from(const T &x) { return (long) x; }
    static T one() { return (T) 1; }
};
// unsigned: the model's 1000000 stands for 2^31, the value whose multiples wrap around
template <>
struct Conv<unsigned> {
    static unsigned to(long v) { return v == 1000000 ? 0x80000000u : (unsigned) v; }
    static long from(const unsigned &x) { return x == 0x80000000u ? 1000000 : (long) x; }
    static unsigned one() { return 1u; }
};
// the model's special values: 1000000 = the first power of two above which a quarter is absorbed, +-2000000 = +-infinity
template <>
struct Conv<float> {
    static float to(long v) { return v == 1000000 ? 16777216.0f : v == 2000000 ? INFINITY : v == -2000000 ? -INFINITY : v / 4.0f; }
    static long from(const float &x) {
        if (std::isinf(x)) return x > 0 ? 2000000 : -2000000;
        if (x == 16777216.0f) return 1000000;
        return (x * 4 == std::floor(x * 4) && std::fabs(x) < 1000) ? (long) (x * 4) : -99999;
    }
};
template <>
struct Conv<double> {
    static double to(long v) { return v == 1000000 ? 9007199254740992.0 : v == 2000000 ? (double) INFINITY : v == -2000000 ? (double) -INFINITY : v / 4.0; }
    static long from(const double &x) {
        if (std::isinf(x)) return x > 0 ? 2000000 : -2000000;
        if (x == 9007199254740992.0) return 1000000;
        return (x * 4 == std::floor(x * 4) && std::fabs(x) < 1000) ? (long) (x * 4) : -99999;
    }
};

std::string str_of(const std::string &digits) {   // "12" -> "ab"
    std::string s;
    for (char c : digits)
        if (c == '1' || c == '2') s += (char) ('a' + (c - '1'));
    return s;
}
std::string digits_of(const std::string &s) {
    std::string d;
    for (char c : s) d += (char) ('1' + (c - 'a'));
    return d.empty() ? "-" : d;
}

struct SubscriberThrew {};

template <class T, class Eq, bool IsFloat>
void run_num(const Execution &ex) {
    using Obs = tulz::Observable<T, Eq>;
    auto po = std::make_unique<Obs>(Conv<T>::to(ex.cfg.num("init", 0)));
#define o (*po)
    using Sub = decltype(o.subscribe([](T) {}));
    std::map<int, Sub> subs;
    std::vector<std::pair<int, long>> notes;
    // crowd=N: N further subscribers that stay subscribed for the whole history (subscribed before the model's subscribers 1 and 2);
    // each of them has to be notified exactly when and with what the model's subscribers are. Only in histories without moves.
    int ncrowd = (int) ex.cfg.num("crowd", 0);
    std::vector<int> ccount(ncrowd, 0);
    std::vector<long> cval(ncrowd, 0);
    std::vector<Sub> crowd;
    for (int k = 0; k < ncrowd; ++k)
        crowd.push_back(o.subscribe([k, &ccount, &cval](T val) {
            ++ccount[k];
            cval[k] = Conv<T>::from(val);
        }));
    int i = 0;
    for (const auto &st : ex.steps) {
        std::string op = st.str("op");
        long v = st.num("v", 0);
        std::fill(ccount.begin(), ccount.end(), 0);
        long ret = 0;
        bool has_ret = false;
        notes.clear();
        bool threw = false;
        try {
        if (op == "Assign") o = Conv<T>::to(v);
        else if (op == "Add") o += Conv<T>::to(v);
        else if (op == "Sub") o -= Conv<T>::to(v);
        else if (op == "Mul") o *= (T) v;          // factors and divisors are plain numbers, not quarters
        else if (op == "Div") o /= (T) v;
        else if (op == "MoveConstruct") {   // the observable (value, comparator, subscribers) moves into a new object
            auto n = std::make_unique<Obs>(std::move(o));
            po = std::move(n);
        } else if (op == "MoveAssign") {
            auto n = std::make_unique<Obs>(Conv<T>::to(0));
            *n = std::move(o);
            po = std::move(n);
        } else if (op == "AssignBig") o = Conv<T>::to(1000000);
        else if (op == "AddAbsorbed") o += Conv<T>::to(v);
        else if (op == "DivZero") o /= Conv<T>::to(0);
        else if (op == "AssignF") o = (double) v / 2;
        else if (op == "AddF") o += (double) v / 2;   // an operand of another arithmetic type
        else if (op == "SubF") o -= (double) v / 2;
        else if (op == "MulF") o *= (double) v / 2;
        else if (op == "DivF") o /= (double) v / 2;
        else if (op == "Apply") {
            std::string f = st.str("f");
            if (f == "id") o.apply([](T &) {});
            else if (f == "inc") o.apply([](T &x) { x += (T) 1; });
            else o.apply([](T &x) { x = (T) 0; });
        } else if (op == "PreInc") {
            T &r = ++o;
            ret = Conv<T>::from(r);
            has_ret = true;
        } else if (op == "PostInc") {
            T r = o++;
            ret = Conv<T>::from(r);
            has_ret = true;
        } else if (op == "PreDec") {
            T &r = --o;
            ret = Conv<T>::from(r);
            has_ret = true;
        } else if (op == "PostDec") {
            T r = o--;
            ret = Conv<T>::from(r);
            has_ret = true;
        } else if (op == "Subscribe") {
            int s = (int) st.num("s");
            // thrower=1: the callback of subscriber 2 records the notification and then throws out of the operator that notified
            bool thr = s == 2 && ex.cfg.num("thrower", 0) != 0;
            subs[s] = o.subscribe([s, thr, &notes](T val) {
                notes.push_back({s, Conv<T>::from(val)});
                if (thr) throw SubscriberThrew{};
            });
        } else if (op == "Unsubscribe") {
            int s = (int) st.num("s");
            subs[s].unsubscribe();
            subs.erase(s);
        }
        } catch (const SubscriberThrew &) {
            threw = true;
        }
        if (!has_ret) ret = Conv<T>::from(o.value());
        std::string s = "\"e\":\"Obs\",\"i\":" + std::to_string(i) + ",\"op\":" + jstr(op) + ",\"ret\":" + std::to_string(ret) + ",\"threw\":" + (threw ? "true" : "false") +
                        ",\"val\":" + std::to_string(Conv<T>::from(*o)) + ",\"notes\":[";
        for (size_t k = 0; k < notes.size(); ++k) {
            if (k) s += ",";
            s += "[" + std::to_string(notes[k].first) + "," + std::to_string(notes[k].second) + "]";
        }
        s += "]";
        if (ncrowd > 0) {
            int mn = ccount[0], mx = ccount[0], who_mn = 0, who_mx = 0;
            bool same = true;
            for (int k = 0; k < ncrowd; ++k) {
                if (ccount[k] < mn) mn = ccount[k], who_mn = k;
                if (ccount[k] > mx) mx = ccount[k], who_mx = k;
                if (ccount[k] > 0 && ccount[who_mx] > 0 && cval[k] != cval[who_mx]) same = false;
            }
            s += ",\"crowd\":{\"min\":" + std::to_string(mn) + ",\"max\":" + std::to_string(mx) + ",\"who_min\":" + std::to_string(who_mn) +
                 ",\"who_max\":" + std::to_string(who_mx) + ",\"same\":" + (same ? "true" : "false") + ",\"val\":" + std::to_string(cval[who_mx]) + "}";
        }
        out().raw(s);
        ++i;
    }
}

#undef o

void run_str(const Execution &ex) {
    std::string init = ex.cfg.str("init", "-");
    using Obs = tulz::Observable<std::string>;
    auto po = std::make_unique<Obs>(str_of(init));
#define o (*po)
    using Sub = decltype(o.subscribe([](std::string) {}));
    std::map<int, Sub> subs;
    std::vector<std::pair<int, std::string>> notes;
    int i = 0;
    for (const auto &st : ex.steps) {
        std::string op = st.str("op");
        notes.clear();
        if (op == "Assign") o = str_of(st.str("v", "-"));
        else if (op == "MoveConstruct") {
            auto n = std::make_unique<Obs>(std::move(o));
            po = std::move(n);
        } else if (op == "MoveAssign") {
            auto n = std::make_unique<Obs>(std::string("zz"));
            *n = std::move(o);
            po = std::move(n);
        } else if (op == "Concat") o += str_of(st.str("v", "-"));
        else if (op == "Apply") {
            std::string f = st.str("f");
            if (f == "id") o.apply([](std::string &) {});
            else if (f == "inc") o.apply([](std::string &x) { x += "a"; });
            else o.apply([](std::string &x) { x.clear(); });
        } else if (op == "Subscribe") {
            int s = (int) st.num("s");
            subs[s] = o.subscribe([s, &notes](std::string val) { notes.push_back({s, val}); });
        } else if (op == "Unsubscribe") {
            int s = (int) st.num("s");
            subs[s].unsubscribe();
            subs.erase(s);
        }
        std::string s = "\"e\":\"Obs\",\"i\":" + std::to_string(i) + ",\"op\":" + jstr(op) + ",\"ret\":" + jstr(digits_of(o.value())) +
                        ",\"val\":" + jstr(digits_of(*o)) + ",\"notes\":[";
        for (size_t k = 0; k < notes.size(); ++k) {
            if (k) s += ",";
            s += "[" + std::to_string(notes[k].first) + "," + jstr(digits_of(notes[k].second)) + "]";
        }
        out().raw(s + "]");
        ++i;
    }
}

#undef o

void run_exec(const Execution &ex) {
    std::string ty = ex.cfg.str("type", "int");
    if (ty == "int") run_num<int, std::equal_to<int>, false>(ex);
    else if (ty == "long") run_num<long, std::equal_to<long>, false>(ex);
    else if (ty == "uns") run_num<unsigned, std::equal_to<unsigned>, false>(ex);
    else if (ty == "float") run_num<float, NearEq<float>, true>(ex);
    else if (ty == "double") run_num<double, NearEq<double>, true>(ex);
    else if (ty == "fcoarse") run_num<float, CoarseEq<float>, true>(ex);
    else if (ty == "fexact") run_num<float, std::equal_to<float>, true>(ex);     // floating point with the DEFAULT equality
    else if (ty == "dexact") run_num<double, std::equal_to<double>, true>(ex);
    else run_str(ex);
}

}  // namespace

int main(int argc, char **argv) { return drive(argc, argv, run_exec); }
