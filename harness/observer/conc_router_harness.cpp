// Exploration harness for tulz::ConcurrentSubjectRouter used from several threads (C11; inputs to C15).
// Runs under vsched; callbacks contain a scheduling point. Events: OpCall / OpRet per operation,
// CbEnter / CbExit per delivery.
#include <map>
#include <memory>
#include <regex>
#include <stdexcept>
#include <string>
#include <thread>
#include <vector>

#include <tulz/observer/routing/ConcurrentSubjectRouter.h>
#include <tulz/observer/routing/RoutingKeyBuilder.h>

#include "../common/runner.h"
#include "../vsched/controllers.h"

using namespace hr;
using namespace tulz;

namespace {

std::vector<std::string> split(const std::string &s, char sep) {
    std::vector<std::string> v;
    if (s.empty() || s == "-") return v;
    std::stringstream ss(s);
    std::string t;
    while (std::getline(ss, t, sep)) v.push_back(t);
    return v;
}

RoutingKey make_key(const std::string &pat) {
    RoutingKeyBuilder b;
    for (auto &lv : split(pat, '/')) {
        if (lv.rfind("r:", 0) == 0) {
            if (lv == "r:.*") b.all();
            else b.level(std::regex(lv.substr(2)));
        } else
            b.level(lv);
    }
    return b.build();
}

std::string jpat(const std::string &pat) {
    std::string s = "[";
    bool first = true;
    for (auto &lv : split(pat, '/')) {
        if (!first) s += ",";
        first = false;
        s += jstr(lv);
    }
    return s + "]";
}

struct OpSpec {
    char kind;          // N notify, S subscribe, U unsubscribe, H shrink, E exists, D depth
    std::string pat;
    int id = 0;
    bool nested = false;   // issued from inside a callback of a second, unrelated router (prefix 'O')
};

// the harness' own bookkeeping is shared between its threads without synchronisation (execution is serialised by
// vsched): keep it out of the race detector's view
struct Unrecorded {
    Unrecorded() { if (rd_ignore) rd_ignore(1); }
    ~Unrecorded() { if (rd_ignore) rd_ignore(-1); }
};

ConcurrentSubjectRouter *g_router = nullptr;
ConcurrentSubjectRouter *g_outer = nullptr;   // never written after set-up; its observer runs the nested operation on g_router
OpSpec g_nested[16];
std::map<int, std::unique_ptr<USubscription>> g_handles;
std::map<std::string, RoutingKey> *g_keys = nullptr;   // built before vsched starts (std::regex construction)
int g_serial = 0;

const RoutingKey &key_of(const std::string &p) { return g_keys->at(p); }

void call(int t, const char *op, const std::string &pat, int id, int v) {
    out().raw("\"e\":\"OpCall\",\"t\":" + std::to_string(t) + ",\"op\":\"" + op + "\",\"p\":" + jpat(pat) + ",\"id\":" + std::to_string(id) +
              ",\"v\":" + std::to_string(v) + ",\"res\":0");
}
void ret(int t, long res) {
    out().raw("\"e\":\"OpRet\",\"t\":" + std::to_string(t) + ",\"op\":\"\",\"p\":[],\"id\":0,\"v\":0,\"res\":" + std::to_string(res));
}

// travels inside the subscribed callable: wherever the router copies or moves the callable (in the code as it stands: inside
// subscribe()'s write-locked section) there is a scheduling point, so that another operation can try to get in right there
struct YieldOnCopy {
    YieldOnCopy() = default;
    YieldOnCopy(const YieldOnCopy &) { vs::yield("copy"); }
    YieldOnCopy(YieldOnCopy &&) noexcept { vs::yield("move"); }
    YieldOnCopy &operator=(const YieldOnCopy &) = default;
    YieldOnCopy &operator=(YieldOnCopy &&) = default;
};

void do_op(int t, const OpSpec &o) {
    if (o.nested) {
        {
            Unrecorded u;
            g_nested[t & 15] = o;
            g_nested[t & 15].nested = false;
        }
        g_outer->notify<int>(key_of("outer"), int(t));
        return;
    }
    switch (o.kind) {
        case 'S': {
            call(t, "subscribe", o.pat, o.id, 0);
            int id = o.id;
            YieldOnCopy yc;
            auto sub = g_router->subscribe<int>(key_of(o.pat), [id, yc](int v) {
                (void) yc;
                int me = vs::self();
                out().raw("\"e\":\"CbEnter\",\"t\":" + std::to_string(me) + ",\"op\":\"\",\"p\":[],\"id\":" + std::to_string(id) + ",\"v\":" + std::to_string(v) + ",\"res\":0");
                vs::yield("cb");
                out().raw("\"e\":\"CbExit\",\"t\":" + std::to_string(me) + ",\"op\":\"\",\"p\":[],\"id\":" + std::to_string(id) + ",\"v\":" + std::to_string(v) + ",\"res\":0");
            });
            {
                Unrecorded u;
                g_handles[id] = std::make_unique<USubscription>(std::move(sub));
            }
            ret(t, 0);
            break;
        }
        case 'V': {   // a one-shot observer: it invalidates itself (SelfView) at the end of its first delivery
            call(t, "subscribe1", o.pat, o.id, 0);
            int id = o.id;
            auto sub = g_router->subscribe<int>(key_of(o.pat), [id](tulz::Observer<int>::SelfView self, int v) {
                int me = vs::self();
                out().raw("\"e\":\"CbEnter\",\"t\":" + std::to_string(me) + ",\"op\":\"\",\"p\":[],\"id\":" + std::to_string(id) + ",\"v\":" + std::to_string(v) + ",\"res\":0");
                vs::yield("cb");
                self->invalidate();
                out().raw("\"e\":\"CbExit\",\"t\":" + std::to_string(me) + ",\"op\":\"\",\"p\":[],\"id\":" + std::to_string(id) + ",\"v\":" + std::to_string(v) + ",\"res\":0");
            });
            {
                Unrecorded u;
                g_handles[id] = std::make_unique<USubscription>(std::move(sub));
            }
            ret(t, 0);
            break;
        }
        case 'U': {
            call(t, "unsubscribe", "-", o.id, 0);
            USubscription *h = nullptr;
            {
                Unrecorded u;
                auto it = g_handles.find(o.id);
                if (it != g_handles.end()) h = it->second.get();
            }
            long r = 0;
            try {
                if (h) (*h)->unsubscribe();
            } catch (const std::invalid_argument &) {
                r = -1;   // a stale handle: the observer it belonged to is gone
            }
            ret(t, r);
            break;
        }
        case 'N': {
            int v;
            {
                Unrecorded u;
                v = ++g_serial;
            }
            call(t, "notify", o.pat, 0, v);
            size_t r = g_router->notify<int>(key_of(o.pat), int(v));
            ret(t, (long) r);
            break;
        }
        case 'H': {
            call(t, "shrink", o.pat, 0, 0);
            g_router->shrink(key_of(o.pat));
            ret(t, 0);
            break;
        }
        case 'E': {
            call(t, "exists", o.pat, 0, 0);
            bool r = g_router->exists(key_of(o.pat));
            ret(t, r ? 1 : 0);
            break;
        }
        case 'D': {
            call(t, "depth", "-", 0, 0);
            size_t r = g_router->depth();
            ret(t, (long) r);
            break;
        }
    }
}

std::vector<std::vector<OpSpec>> g_progs;   // [0] = main's set-up ops, [1..] workers

std::vector<OpSpec> parse_prog(const std::string &s) {
    std::vector<OpSpec> v;
    for (auto tok : split(s, ',')) {
        OpSpec o;
        if (tok[0] == 'O') {
            o.nested = true;
            tok = tok.substr(1);
        }
        o.kind = tok[0];
        std::string rest = tok.substr(1);
        auto h = rest.find('#');
        if (h != std::string::npos) {
            o.id = atoi(rest.c_str() + h + 1);
            rest = rest.substr(0, h);
        }
        if (o.kind == 'U') {
            o.id = atoi(rest.c_str());
            rest = "-";
        }
        o.pat = rest.empty() ? "-" : rest;
        v.push_back(o);
    }
    return v;
}

void scenario() {
    ConcurrentSubjectRouter router, outer;
    g_router = &router;
    g_outer = &outer;
    auto outer_sub = outer.subscribe<int>(key_of("outer"), [](int t) {
        OpSpec o;
        {
            Unrecorded u;
            o = g_nested[t & 15];
        }
        do_op(t, o);
    });
    for (auto &o : g_progs[0]) do_op(0, o);
    std::vector<std::thread> ths;
    for (size_t w = 1; w < g_progs.size(); ++w)
        ths.emplace_back([w] {
            for (auto &o : g_progs[w]) {
                vs::yield("op");
                do_op((int) w, o);
            }
        });
    for (auto &t : ths) t.join();
    {
        Unrecorded u;   // destroying the handles does not touch the router
        g_handles.clear();
    }
    g_router = nullptr;
    g_outer = nullptr;
}

class Ctl : public vs::BaseController {
public:
    void on_deadlock(const std::vector<vs::ThreadView> &) override {
        out().raw("\"e\":\"Deadlock\",\"t\":0,\"op\":\"\",\"p\":[],\"id\":0,\"v\":0,\"res\":0");
    }
    void on_abort(int) override {
        for (auto &r : vs::race_reports()) out().raw("\"e\":\"Race\"," + r);
        out().flush();
    }
    void too_long() override { out().raw("\"e\":\"TooLong\",\"t\":0,\"op\":\"\",\"p\":[],\"id\":0,\"v\":0,\"res\":0"); }
};

void run_exec(const Execution &ex) {
    g_progs.clear();
    g_handles.clear();
    g_serial = 0;
    std::map<std::string, RoutingKey> keys;
    for (auto &p : split(ex.cfg.str("prog", ""), ';')) g_progs.push_back(parse_prog(p));   // ';' between threads (patterns contain ':')
    if (g_progs.empty()) g_progs.emplace_back();
    for (auto &prog : g_progs)
        for (auto &o : prog)
            if (o.pat != "-" || o.kind == 'S' || o.kind == 'V') keys.emplace(o.pat, make_key(o.pat));
    keys.emplace("outer", make_key("outer"));
    g_keys = &keys;
    if (rd_access_yield) rd_access_yield((int) ex.cfg.num("accy", 0), (unsigned) ex.cfg.num("seed", 1));
    Ctl ctl;
    ctl.mode = vs::BaseController::RANDOM;
    ctl.max_steps = ex.cfg.num("accy", 0) ? 200000 : 20000;
    ctl.rng = vs::Rng((uint64_t) ex.cfg.num("seed", 1));
    ctl.spurious_per_1000 = (int) ex.cfg.num("spurious", 0);
    // a timed wait (none in the code as it stands) may time out at any moment: the holder may be arbitrarily slow
    ctl.timeout_per_1000 = (int) ex.cfg.num("timeouts", 40);
    ctl.stay_num = (int) ex.cfg.num("stay", 1);
    ctl.stay_den = (int) ex.cfg.num("stayden", 2);
    int d = (int) ex.cfg.num("pct", 0);
    ctl.pct = d > 0;
    for (int i = 0; i < d; ++i) ctl.change_at.push_back(1 + ctl.rng.below((uint32_t) ex.cfg.num("len", 80)));
    vs::run(ctl, scenario);
    for (auto &r : vs::race_reports()) out().raw("\"e\":\"Race\"," + r);
    g_keys = nullptr;
}

}  // namespace

int main(int argc, char **argv) { return drive(argc, argv, run_exec); }
