// Replay harness for RoutingKeyBuilder / RoutingKey / RoutingLevelView (spec/observer/RoutingKeyP.tla).
// Not tied to a listed property: differences from the model are reported as spec notes.
#include <memory>
#include <optional>
#include <regex>
#include <string>
#include <variant>
#include <vector>

#include <tulz/observer/routing/RoutingKeyBuilder.h>

#include "../common/runner.h"

using namespace hr;
using namespace tulz;

namespace {

using Lv = std::variant<std::string, std::regex>;

RoutingKey build_ctor(const std::vector<Lv> &lv) {
    if (lv.size() == 1)
        return std::visit([](auto a) { return RoutingKeyBuilder(a).build(); }, lv[0]);
    return std::visit([](auto a, auto b) { return RoutingKeyBuilder(a, b).build(); }, lv[0], lv[1]);
}

void observe(int i, const std::string &op, const RoutingLevelView &v, const std::vector<std::string> &probes) {
    std::string m = "[";
    bool first = true;
    for (auto &p : probes) {
        if (!v.matches(p)) continue;
        if (!first) m += ",";
        first = false;
        m += jstr(p);
    }
    m += "]";
    bool rx = v.isRegex();
    out().raw("\"e\":\"Obs\",\"i\":" + std::to_string(i) + ",\"op\":" + jstr(op) + ",\"count\":" + std::to_string(v.getLevelCount()) +
              ",\"index\":" + std::to_string(v.getLevelIndex()) + ",\"root\":" + (v.isRoot() ? "1" : "0") + ",\"leaf\":" + (v.isLeaf() ? "1" : "0") +
              ",\"regex\":" + (rx ? "1" : "0") + ",\"str\":" + jstr(rx ? "-" : v.asString()) + ",\"m\":" + m);
}

void run_exec(const Execution &ex) {
    std::vector<std::string> probes;
    {
        std::stringstream ss(ex.cfg.str("probes", ""));
        std::string t;
        while (std::getline(ss, t, ',')) probes.push_back(t == "~" ? "" : t);
    }
    auto builder = std::make_unique<RoutingKeyBuilder>();
    std::vector<Lv> given;
    std::unique_ptr<RoutingKey> key;
    int cur = 0;   // the view is re-created from the key at every step: it only holds a reference
    int i = 0;
    for (const auto &st : ex.steps) {
        std::string op = st.str("op");
        if (op == "AddName") {
            std::string n = st.str("n");
            builder->level(n);
            given.emplace_back(n);
        } else if (op == "AddRegex") {
            std::regex r(st.str("r"));
            builder->level(r);
            given.emplace_back(r);
        } else if (op == "AddAll") {
            builder->all();
            given.emplace_back(std::regex(".*"));
        } else if (op == "Build") {
            if (st.str("how") == "ctor") key = std::make_unique<RoutingKey>(build_ctor(given));
            else key = std::make_unique<RoutingKey>(builder->build());
            builder.reset();   // the key must not depend on its builder
            given.clear();
            cur = 0;
        } else if (op == "CopyKey") {
            auto copy = std::make_unique<RoutingKey>(*key);
            key = std::move(copy);   // the original is destroyed
        } else if (op == "MoveKey") {
            auto moved = std::make_unique<RoutingKey>(std::move(*key));
            key = std::move(moved);
        }
        if (key) {
            auto v = std::make_unique<RoutingLevelView>(key->view());
            for (int k = 0; k < cur; ++k) v = std::make_unique<RoutingLevelView>(v->up());
            if (op == "Up") {
                RoutingLevelView u = v->up();
                cur = u.getLevelIndex();
                observe(i, op, u, probes);
            } else if (op == "Down") {
                RoutingLevelView d = v->down();
                cur = d.getLevelIndex();
                observe(i, op, d, probes);
            } else
                observe(i, op, *v, probes);
        }
        ++i;
    }
}

}  // namespace

int main(int argc, char **argv) { return drive(argc, argv, run_exec); }
