// Replay harness for tulz::SubjectRouter / ConcurrentSubjectRouter used from one thread (C06, C13).
#include <map>
#include <memory>
#include <regex>
#include <string>
#include <vector>

#include <tulz/observer/routing/ConcurrentSubjectRouter.h>
#include <tulz/observer/routing/RoutingKeyBuilder.h>
#include <tulz/observer/routing/SubjectRouter.h>

#include "../common/runner.h"

extern "C" int __lsan_do_recoverable_leak_check(void) __attribute__((weak));
using namespace hr;
using namespace tulz;

namespace {

std::string big(int a) { return std::string(30, (char) ('a' + a % 26)) + std::to_string(a); }
long unbig(const std::string &s) { return s.size() > 30 ? strtol(s.c_str() + 30, nullptr, 10) : -1; }

std::vector<std::string> split(const std::string &s, char sep) {
    std::vector<std::string> v;
    if (s.empty() || s == "-") return v;
    std::stringstream ss(s);
    std::string t;
    while (std::getline(ss, t, sep)) v.push_back(t);
    return v;
}

RoutingKey make_key(const std::string &pat) {
    RoutingKeyBuilder b;
    for (auto lv : split(pat, '/')) {
        if (lv == "~") lv = "";   // an empty level
        if (lv.rfind("r:", 0) == 0) {
            if (lv == "r:.*") b.all();   // the documented wildcard helper
            else b.level(std::regex(lv.substr(2)));
        } else
            b.level(lv);
    }
    return b.build();
}

struct CallbackThrew {};

struct Delivery {
    int id;
    long val;
};
std::vector<Delivery> g_log;
std::map<int, int> g_destroyed;

struct Tracker {
    int id;
    explicit Tracker(int i) : id(i) {}
    ~Tracker() { ++g_destroyed[id]; }
};

// ---- signatures ---------------------------------------------------------------------------------
struct SigNone {
    template <class R, class F>
    static auto sub(R &r, const RoutingKey &k, F f, Observer<> *&raw) {
        auto o = std::make_unique<EternalObserver<>>([f]() { f(0); });
        raw = o.get();
        return r.template subscribe<>(k, std::move(o));
    }
    template <class R>
    static size_t notify(R &r, const RoutingKey &k, int) { return r.notify(k); }
    static void inval(void *raw) { static_cast<Observer<> *>(raw)->invalidate(); }
};
struct SigInt {
    template <class R, class F>
    static auto sub(R &r, const RoutingKey &k, F f, Observer<int> *&raw) {
        auto o = std::make_unique<EternalObserver<int>>([f](int v) { f(v); });
        raw = o.get();
        return r.template subscribe<int>(k, std::move(o));
    }
    template <class R>
    static size_t notify(R &r, const RoutingKey &k, int a) { return r.template notify<int>(k, a * 7 + 1); }
};
struct SigStr {
    template <class R, class F>
    static auto sub(R &r, const RoutingKey &k, F f, Observer<std::string> *&raw) {
        auto o = std::make_unique<EternalObserver<std::string>>([f](std::string v) { f(unbig(v)); });
        raw = o.get();
        return r.template subscribe<std::string>(k, std::move(o));
    }
    template <class R>
    static size_t notify(R &r, const RoutingKey &k, int a) { return r.template notify<std::string>(k, big(a)); }
};
struct SigCRef {
    template <class R, class F>
    static auto sub(R &r, const RoutingKey &k, F f, Observer<const std::string &> *&raw) {
        auto o = std::make_unique<EternalObserver<const std::string &>>([f](const std::string &v) { f(unbig(v)); });
        raw = o.get();
        return r.template subscribe<const std::string &>(k, std::move(o));
    }
    template <class R>
    static size_t notify(R &r, const RoutingKey &k, int a) { return r.template notify<const std::string &>(k, big(a)); }
};
struct SigIntStr {
    template <class R, class F>
    static auto sub(R &r, const RoutingKey &k, F f, Observer<int, std::string> *&raw) {
        auto o = std::make_unique<EternalObserver<int, std::string>>([f](int i, std::string v) { f(i * 1000 + unbig(v)); });
        raw = o.get();
        return r.template subscribe<int, std::string>(k, std::move(o));
    }
    template <class R>
    static size_t notify(R &r, const RoutingKey &k, int a) { return r.template notify<int, std::string>(k, a + 100, big(a)); }
};

template <class T>
struct ObsOf;
template <> struct ObsOf<SigNone> { using type = Observer<>; };
template <> struct ObsOf<SigInt> { using type = Observer<int>; };
template <> struct ObsOf<SigStr> { using type = Observer<std::string>; };
template <> struct ObsOf<SigCRef> { using type = Observer<const std::string &>; };
template <> struct ObsOf<SigIntStr> { using type = Observer<int, std::string>; };

inline void do_unsub(USubscription &s) { s->unsubscribe(); }
template <class... A>
inline void do_unsub(Subscription<A...> &s) { s.unsubscribe(); }

std::string g_probes_src;
std::vector<RoutingKey> g_probe_keys;
void warm(const Execution &ex) {
    if (g_probes_src != ex.cfg.str("probes", "") || g_probe_keys.empty()) {
        g_probes_src = ex.cfg.str("probes", "");
        g_probe_keys.clear();
        for (auto &p : split(g_probes_src, ';')) g_probe_keys.push_back(make_key(p));
    }
}

template <class Router, class Sig>
void run_typed(const Execution &ex) {
    using Obs = typename ObsOf<Sig>::type;
    g_log.clear();
    g_destroyed.clear();
    auto *router = new Router();
    using Handle = decltype(Sig::sub(*router, std::declval<const RoutingKey &>(), [](long) {}, std::declval<Obs *&>()));
    std::map<int, Handle> handles;
    std::map<int, Obs *> raws;
    int next_id = 1;
    // probe keys are built once per harness process (std::regex construction dominates otherwise)
    warm(ex);
    std::vector<RoutingKey> &probe_keys = g_probe_keys;
    // every second execution hands its patterns over in ONE long-lived RoutingKey object that is copy-assigned before each call
    // (a "current filter" variable: the levels, and the std::regex objects in them, keep their addresses while their content changes);
    // the other executions use a fresh temporary per call
    bool reuse_key = std::hash<std::string>{}(ex.id) % 2 == 0;
    RoutingKey cur_key = make_key("-");
    auto pattern = [&](const std::string &p) -> const RoutingKey & {
        static thread_local std::unique_ptr<RoutingKey> tmp;
        tmp = std::make_unique<RoutingKey>(make_key(p));
        if (!reuse_key) return *tmp;
        cur_key = static_cast<const RoutingKey &>(*tmp);
        return cur_key;
    };
    // the match table the specification assumes, as std::regex_match sees it (first execution of a shard only)
    if (ex.cfg.num("table", 0)) {
        std::string s = "\"e\":\"MatchTable\",\"t\":{";
        bool first = true;
        for (const char *re : {".*", "a", "a|b", "[^a]", "c", "a|ab", "a.*?", ".+"})
            for (const char *name : {"a", "b", "c", "ab", ""}) {
                if (!first) s += ",";
                first = false;
                std::string n(name);
                s += jstr(std::string("r:") + re + "~" + name) + ":" + (std::regex_match(n.begin(), n.end(), std::regex(re)) ? "true" : "false");
            }
        out().raw(s + "}");
    }
    int i = 0;
    for (const auto &st : ex.steps) {
        std::string op = st.str("op");
        long ret = -1;
        g_log.clear();
        if (op == "Subscribe") {
            int id = next_id++;
            auto tracker = std::make_shared<Tracker>(id);
            Obs *raw = nullptr;
            // thr=1: the callback records the delivery and then throws out of notify()
            bool thr = st.num("thr", 0) != 0;
            auto h = Sig::sub(*router, make_key(st.str("k", "-")), [id, tracker, thr](long v) {
                g_log.push_back({id, v});
                if (thr) throw CallbackThrew{};
            }, raw);
            handles.emplace(id, std::move(h));
            raws[id] = raw;
        } else if (op == "Unsubscribe") {
            int id = (int) st.num("id");
            do_unsub(handles.at(id));
            handles.erase(id);
            raws.erase(id);
        } else if (op == "Invalidate") {
            raws.at((int) st.num("id"))->invalidate();
        } else if (op == "Notify") {
            try {
                ret = (long) Sig::notify(*router, pattern(st.str("p")), (int) st.num("a", 1));
            } catch (const CallbackThrew &) {
                op = "NotifyThrew";   // reported under this name: the deliveries made before the exception are in the log
            }
        } else if (op == "Shrink") {
            router->shrink(pattern(st.str("p")));
        } else {
            out().line("\"e\":\"BadOp\",\"op\":%s", jstr(op).c_str());
        }
        std::string s = "\"e\":\"Obs\",\"i\":" + std::to_string(i) + ",\"op\":" + jstr(op) + ",\"ret\":" + std::to_string(ret) + ",\"log\":[";
        for (size_t k = 0; k < g_log.size(); ++k) {
            if (k) s += ",";
            s += "[" + std::to_string(g_log[k].id) + "," + std::to_string(g_log[k].val) + "]";
        }
        s += "],\"ex\":[";
        for (size_t k = 0; k < probe_keys.size(); ++k) {
            if (k) s += ",";
            s += router->exists(probe_keys[k]) ? "1" : "0";
        }
        s += "],\"dp\":" + std::to_string(router->depth()) + ",\"destroyed\":[";
        bool first = true;
        for (auto &kv : g_destroyed)
            for (int n = 0; n < kv.second; ++n) {
                if (!first) s += ",";
                first = false;
                s += std::to_string(kv.first);
            }
        out().raw(s + "]");
        ++i;
    }
    handles.clear();
    delete router;
    std::string s = "\"e\":\"Final\",\"destroyed\":[";
    bool first = true;
    for (auto &kv : g_destroyed)
        for (int n = 0; n < kv.second; ++n) {
            if (!first) s += ",";
            first = false;
            s += std::to_string(kv.first);
        }
    int leaks = 0;
    if (__lsan_do_recoverable_leak_check) leaks = __lsan_do_recoverable_leak_check();
    out().raw(s + "],\"subscribed\":" + std::to_string(next_id - 1) + ",\"lsan_leak\":" + std::to_string(leaks));
}

template <class Router>
void by_sig(const Execution &ex) {
    std::string sig = ex.cfg.str("sig", "int");
    if (sig == "none") run_typed<Router, SigNone>(ex);
    else if (sig == "int") run_typed<Router, SigInt>(ex);
    else if (sig == "str") run_typed<Router, SigStr>(ex);
    else if (sig == "cref") run_typed<Router, SigCRef>(ex);
    else run_typed<Router, SigIntStr>(ex);
}

void run_exec(const Execution &ex) {
    if (ex.cfg.str("router", "plain") == "conc")
        by_sig<ConcurrentSubjectRouter>(ex);
    else
        by_sig<SubjectRouter>(ex);
}

}  // namespace

int main(int argc, char **argv) {
    ExecFn w = warm;
    return drive(argc, argv, run_exec, &w);
}
