// Replay harness for RandomAccessIndexIterator over Array and RingBuffer (spec/containers/IterP.tla).
// Not tied to a listed property: differences from the model are reported as spec notes.
#include <iterator>
#include <optional>
#include <string>

#include <tulz/container/Array.h>
#include <tulz/container/RingBuffer.h>

#include "../common/runner.h"

using namespace hr;

namespace {

// the iterators hold a reference to their container and are therefore not assignable: re-seat through optional
template <class C, class It>
void run(const Execution &ex, C &c, It b, It e) {
    std::optional<It> it[2] = {std::optional<It>(b), std::optional<It>(b)};
    int i = 0;
    for (const auto &st : ex.steps) {
        std::string op = st.str("op");
        int a = (int) st.num("a", 1) - 1;
        long k = st.num("k", 0);
        long ret = -1;
        auto pos = [&](const It &x) { return (long) std::distance(b, x); };
        if (op == "PreInc") ret = pos(++*it[a]);
        else if (op == "PreDec") ret = pos(--*it[a]);
        else if (op == "PostInc") ret = pos((*it[a])++);
        else if (op == "PostDec") ret = pos((*it[a])--);
        else if (op == "AddAssign") ret = pos(*it[a] += k);
        else if (op == "SubAssign") ret = pos(*it[a] -= k);
        else if (op == "Plus") {
            it[1 - a].emplace(*it[a] + k);
            ret = pos(*it[1 - a]);
        } else if (op == "Minus") {
            it[1 - a].emplace(*it[a] - k);
            ret = pos(*it[1 - a]);
        } else if (op == "ToBegin") {
            it[a].emplace(b);
            ret = 0;
        } else if (op == "ToEnd") {
            it[a].emplace(e);
            ret = pos(e);
        }
        const It &x = *it[0], &y = *it[1];
        long d1 = x == e ? -1 : (long) *x, d2 = y == e ? -1 : (long) *y;
        out().line("\"e\":\"Obs\",\"i\":%d,\"p1\":%ld,\"p2\":%ld,\"ret\":%ld,\"d1\":%ld,\"d2\":%ld,\"diff\":%ld,\"cmp\":[%d,%d,%d,%d,%d,%d],\"n\":%ld", i, pos(x), pos(y),
                   ret, d1, d2, (long) (x - y), x == y, x != y, x < y, x > y, x <= y, x >= y, (long) c.size());
        ++i;
    }
}

void run_exec(const Execution &ex) {
    std::string kind = ex.cfg.str("kind", "array");
    int n = (int) ex.cfg.num("n", 4);
    if (kind == "array" || kind == "carray") {
        tulz::Array<int> a((size_t) n);
        for (int k = 0; k < n; ++k) a[(size_t) k] = 10 * (k + 1);
        if (kind == "array") run(ex, a, a.begin(), a.end());
        else {
            const tulz::Array<int> &ca = a;
            run(ex, ca, ca.begin(), ca.end());
        }
    } else {
        // a rotated ring buffer: the head is not at physical slot 0 and the contents wrap around
        tulz::RingBuffer<int> r((size_t) n + 1);
        for (int k = 0; k < 3; ++k) r.push_back(-1);
        for (int k = 0; k < 3; ++k) r.pop_front();
        for (int k = 0; k < n; ++k) r.push_back(10 * (k + 1));
        if (kind == "ring") run(ex, r, r.begin(), r.end());
        else {
            const tulz::RingBuffer<int> &cr = r;
            run(ex, cr, cr.cbegin(), cr.cend());
        }
    }
}

}  // namespace

int main(int argc, char **argv) { return drive(argc, argv, run_exec); }
