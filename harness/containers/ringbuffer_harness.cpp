// Replay harness for tulz::RingBuffer (C04, C09): executes operation histories produced from the
// TLC state graph of RingBufferImpl (X) or by the random generator (Y) on the real container and
// reports what the public API shows after every operation, plus the lifetime registry.
#include <cstdint>
#include <cstdlib>
#include <string>

#ifdef VS_PROJECT
#define private public
#endif
#include <tulz/container/RingBuffer.h>
#ifdef VS_PROJECT
#undef private
#endif

#include "../common/iterok.h"
#include "../common/runner.h"
#include "../common/tracked.h"

extern "C" int __lsan_do_recoverable_leak_check(void) __attribute__((weak));

using namespace hr;

namespace {

// huge=1: the real capacity is 2^32 + 1 instead of the model's capacity (the storage is never touched beyond a few pages; the replayed
// behaviours never fill the model's buffer, so the answers do not depend on the capacity)
size_t g_huge = 0;

template <class T>
struct Val;
template <>
struct Val<int> {
    static int make(int v) { return v; }
    static long get(const int &x) { return x; }
};
template <>
struct Val<unsigned char> {   // element type of the buffers with more than 2^32 slots
    static unsigned char make(int v) { return (unsigned char) v; }
    static long get(const unsigned char &x) { return x; }
};
template <>
struct Val<std::string> {
    // long enough to live on the heap: libstdc++'s short strings point into themselves and are
    // not bitwise relocatable, which the property excludes
    static std::string make(int v) { return std::string(24, (char) ('a' + v % 26)) + std::to_string(v); }
    static long get(const std::string &x) {
        if (x.size() <= 24) return -1;
        return strtol(x.c_str() + 24, nullptr, 10);
    }
};
// an element type with an initializer_list constructor: T(3, v) (three copies of v) and T{3, v} (the two elements 3 and v) differ
template <>
struct Val<std::vector<int>> {
    static std::vector<int> make(int v) { return std::vector<int>(3, v); }
    static long get(const std::vector<int> &x) { return (x.size() == 3 && x[0] == x[1] && x[1] == x[2]) ? x[0] : -1; }
};
template <>
struct Val<trk::Tracked> {
    static trk::Tracked make(int v) { return trk::Tracked(v); }
    static long get(const trk::Tracked &x) { return x.magic == trk::Tracked::LIVE ? x.payload : -1000; }
};

// a trivially copyable element type whose equality is NOT equality of representation: two elements are equal when their
// values are, whatever the tag says (a bounded deque compares elements with their operator==, as std::equal does)
struct Weq {
    int v;
    int tag;
    bool operator==(const Weq &o) const { return v == o.v; }
};
template <>
struct Val<Weq> {
    static Weq make(int v) { return Weq{v, 0}; }
    static long get(const Weq &x) { return x.v; }
};
// an element that compares equal to x without being the same bytes where the type allows it
template <class T>
T twin(const T &x) { return x; }
inline Weq twin(const Weq &x) { return Weq{x.v, x.tag ^ 0x5A5A}; }

template <class RB>
std::string observe(RB &rb) {
    using T = typename RB::value_type;
    std::string s = "{";
    size_t n = rb.size();
    s += "\"size\":" + std::to_string(n) + ",\"cap\":" + std::to_string(rb.capacity() - g_huge);
    s += ",\"empty\":" + std::string(rb.empty() ? "true" : "false") + ",\"full\":" + std::string(rb.full() ? "true" : "false");
    std::vector<long> items, iter, citer;
    for (size_t i = 0; i < n; ++i) items.push_back(Val<T>::get(rb[i]));
    for (auto &e : rb) iter.push_back(Val<T>::get(e));
    const RB &crb = rb;
    for (auto it = crb.cbegin(); it != crb.cend(); ++it) citer.push_back(Val<T>::get(*it));
    s += ",\"items\":" + jlist(items) + ",\"iter\":" + jlist(iter) + ",\"citer\":" + jlist(citer);
    if (n > 0) {
        s += ",\"front\":" + std::to_string(Val<T>::get(rb.front())) + ",\"back\":" + std::to_string(Val<T>::get(rb.back()));
        s += ",\"frontalias\":" + std::string(&rb.front() == &rb[0] ? "true" : "false");
        s += ",\"backalias\":" + std::string(&rb.back() == &rb[n - 1] ? "true" : "false");
    }
    // iterator algebra
    bool itok = (size_t) (rb.end() - rb.begin()) == n;
    auto b = rb.begin();
    for (size_t i = 0; i < n; ++i) {
        itok = itok && (&*(b + (std::ptrdiff_t) i) == &rb[i]);
        auto e = rb.end();
        e -= (std::ptrdiff_t) (n - i);
        itok = itok && (&*e == &rb[i]) && (e - b == (std::ptrdiff_t) i) && (b <= e) && (e >= b) && !(e < b);
        auto p = b + (std::ptrdiff_t) i;
        auto q = p++;
        itok = itok && (q - b == (std::ptrdiff_t) i) && (p - b == (std::ptrdiff_t) i + 1);
        --p;
        itok = itok && (p == q);
    }
    itok = itok && hr::iter_algebra_ok(rb) && hr::iter_algebra_ok(crb);
    s += ",\"itok\":" + std::string(itok ? "true" : "false");
#ifdef VS_PROJECT
    if (!g_huge) s += ",\"pos\":" + std::to_string((long) rb.m_pos);
#endif
    // operator== against an independently built buffer of the other overwrite mode
    {
        constexpr bool other_ow = !std::is_same_v<RB, tulz::RingBuffer<T, true>>;
        tulz::RingBuffer<T, other_ow> o(n + 2);
        for (size_t i = 0; i < n; ++i) o.push_back(twin(rb[i]));
        bool eq1 = (rb == o);
        o.push_back(Val<T>::make(77));
        bool eq2 = (rb == o);
        bool eq3 = true;
        if (n > 0) {
            tulz::RingBuffer<T, other_ow> d(n + 1);
            for (size_t i = 0; i < n; ++i) d.push_back(i + 1 == n ? Val<T>::make(78) : rb[i]);
            eq3 = (rb == d);
            s += ",\"eqdiff\":" + std::string(eq3 ? "true" : "false");
        }
        s += ",\"eqsame\":" + std::string(eq1 ? "true" : "false") + ",\"eqlonger\":" + std::string(eq2 ? "true" : "false");
    }
    return s + "}";
}

std::string registry_json() {
    auto &r = trk::reg();
    std::string a = "[";
    for (size_t i = 0; i < r.anomalies.size(); ++i) {
        if (i) a += ",";
        a += jstr(r.anomalies[i]);
    }
    return "\"live\":" + jlist(r.live_payloads()) + ",\"anom\":" + a + "]";
}

template <class T, bool OW>
void run_typed(const Execution &ex) {
    using RB = tulz::RingBuffer<T, OW>;
    trk::reg().reset();
    // 2^32 + 1 slots whatever the model's capacity is: index arithmetic that loses the upper half would wrap after ONE element
    g_huge = ex.cfg.num("huge", 0) != 0 ? ((size_t) 1 << 32) + 1 - (size_t) ex.cfg.num("cap", 1) : 0;
    size_t cap = (size_t) ex.cfg.num("cap", 1) + g_huge;
    int init = (int) ex.cfg.num("init", 0);
    RB *obj[2] = {nullptr, nullptr};
    if (init == 0 && !ex.cfg.has("list")) {
        obj[0] = new RB(cap);
    } else {
        // initializer-list constructor; init <= 4 keeps the literal lists below sufficient
        std::vector<T> v;
        for (int i = 1; i <= init; ++i) v.push_back(Val<T>::make(i));
        bool dflt = (size_t) init == cap && init > 0;   // RingBuffer{...}: the capacity defaults to the number of elements
        if (dflt) {
            switch (init) {
                case 1: obj[0] = new RB({v[0]}); break;
                case 2: obj[0] = new RB({v[0], v[1]}); break;
                case 3: obj[0] = new RB({v[0], v[1], v[2]}); break;
                default: dflt = false;
            }
        }
        if (!dflt) switch (init) {
            case 0: obj[0] = new RB(std::initializer_list<T>{}, cap); break;
            case 1: obj[0] = new RB({v[0]}, cap); break;
            case 2: obj[0] = new RB({v[0], v[1]}, cap); break;
            case 3: obj[0] = new RB({v[0], v[1], v[2]}, cap); break;
            case 4: obj[0] = new RB({v[0], v[1], v[2], v[3]}, cap); break;
            default: {
                obj[0] = new RB(cap);
                for (auto &e : v) obj[0]->push_back(e);
            }
        }
    }
    bool moved[2] = {false, false};  // moved-from objects are not observed until they are assigned to
    auto emit = [&](int i, const std::string &op, long ret, const std::string &extra) {
        std::string s = "\"e\":\"Obs\",\"i\":" + std::to_string(i) + ",\"op\":" + jstr(op) + ",\"ret\":" + std::to_string(ret);
        for (int k = 0; k < 2; ++k) {
            s += std::string(",\"") + (k == 0 ? "A" : "B") + "\":";
            if (obj[k] && !moved[k])
                s += observe(*obj[k]);
            else
                s += obj[k] ? "\"moved\"" : "null";
        }
        if (obj[0] && obj[1] && !moved[0] && !moved[1])
            s += ",\"eqAB\":" + std::string((*obj[0] == *obj[1]) ? "true" : "false") + ",\"eqBA\":" + std::string((*obj[1] == *obj[0]) ? "true" : "false");
        s += extra;
        if constexpr (std::is_same_v<T, trk::Tracked>) s += "," + registry_json();
        out().raw(s);
    };
    emit(-1, "Create", 0, "");
    int i = 0;
    for (const auto &st : ex.steps) {
        std::string op = st.str("op");
        int o = st.str("o", "A") == "B" ? 1 : 0;
        long ret = 0;
        std::string extra;
        RB *&me = obj[o];
        RB *&other = obj[1 - o];
        if (op == "PushBack" || op == "PushFront") {
            int v = (int) st.num("v");
            bool back = op == "PushBack";
            T *r;
            if ((i + v) % 2 == 0) {
                T tmp = Val<T>::make(v);
                r = back ? &me->push_back(tmp) : &me->push_front(tmp);
            } else if constexpr (std::is_same_v<T, std::vector<int>>) {
                // constructor arguments, not a ready-made element: (count, value)
                r = back ? &me->emplace_back(3, v) : &me->emplace_front(3, v);
            } else {
                r = back ? &me->emplace_back(Val<T>::make(v)) : &me->emplace_front(Val<T>::make(v));
            }
            bool alias = back ? (r == &me->back()) : (r == &me->front());
            extra = ",\"alias\":" + std::string(alias ? "true" : "false") + ",\"refval\":" + std::to_string(Val<T>::get(*r));
        } else if (op == "PushBackOfFront") {   // the argument refers to the very element that gets discarded
            if (i % 2 == 0) me->push_back(me->front());
            else me->emplace_back(me->front());
        } else if (op == "PushFrontOfBack") {
            if (i % 2 == 0) me->push_front(me->back());
            else me->emplace_front(me->back());
        } else if (op == "PopBack") {
            T v = me->pop_back();
            ret = Val<T>::get(v);
        } else if (op == "PopFront") {
            T v = me->pop_front();
            ret = Val<T>::get(v);
        } else if (op == "Resize") {
            me->resize((size_t) st.num("n"));
        } else if (op == "CopyConstruct") {
            me = new RB(*other);
        } else if (op == "MoveConstruct") {
            me = new RB(std::move(*other));
            moved[1 - o] = true;
        } else if (op == "CopyAssign") {
            *me = *other;
            moved[o] = false;
        } else if (op == "SelfCopyAssign") {
            RB &alias = *me;
            *me = alias;
        } else if (op == "SelfMoveAssign") {
            RB &alias = *me;
            *me = std::move(alias);
        } else if (op == "MoveAssign") {
            *me = std::move(*other);
            moved[o] = false;
            moved[1 - o] = true;
        } else if (op == "Destroy") {
            delete me;
            me = nullptr;
            moved[o] = false;
        } else {
            out().line("\"e\":\"BadOp\",\"op\":%s", jstr(op).c_str());
        }
        emit(i, op, ret, extra);
        ++i;
    }
    delete obj[1];
    delete obj[0];
    std::string fin = "\"e\":\"Final\"";
    if constexpr (std::is_same_v<T, trk::Tracked>) fin += "," + registry_json();
    int leaks = 0;
    if (__lsan_do_recoverable_leak_check) leaks = __lsan_do_recoverable_leak_check();
    fin += ",\"lsan_leak\":" + std::to_string(leaks);
    out().raw(fin);
}

void run_exec(const Execution &ex) {
    std::string ty = ex.cfg.str("type", "int");
    bool ow = ex.cfg.num("ow", 1) != 0;
    if (ty == "int")
        ow ? run_typed<int, true>(ex) : run_typed<int, false>(ex);
    else if (ty == "vec")
        ow ? run_typed<std::vector<int>, true>(ex) : run_typed<std::vector<int>, false>(ex);
    else if (ty == "u8")
        ow ? run_typed<unsigned char, true>(ex) : run_typed<unsigned char, false>(ex);
    else if (ty == "weq")
        ow ? run_typed<Weq, true>(ex) : run_typed<Weq, false>(ex);
    else if (ty == "str")
        ow ? run_typed<std::string, true>(ex) : run_typed<std::string, false>(ex);
    else
        ow ? run_typed<trk::Tracked, true>(ex) : run_typed<trk::Tracked, false>(ex);
}

}  // namespace

int main(int argc, char **argv) { return drive(argc, argv, run_exec); }
