// Replay harness for tulz::Array (C14): executes histories from the TLC graph of ArrayP (X) or
// from the random generator (Y) and reports the public observations and the lifetime registry.
#include <any>
#include <cmath>
#include <cstdint>
#include <cstdlib>
#include <string>

#include <tulz/container/Array.h>

#include "../common/iterok.h"
#include "../common/runner.h"
#include "../common/tracked.h"

extern "C" int __lsan_do_recoverable_leak_check(void) __attribute__((weak));

using namespace hr;

namespace {

template <class T>
struct Val;
template <>
struct Val<int> {
    static int make(int v) { return v; }
    static long get(const int &x) { return x; }
};
template <>
struct Val<double> {
    // two of the values are the zeros: "exactly those values" includes the sign of a zero (-0.0 == 0.0, but 1/x differs)
    static double make(int v) { return v == 2 ? -0.0 : v == 9 ? 0.0 : v + 0.5; }
    static long get(const double &x) {
        if (x == 0) return std::signbit(x) ? 2 : 9;
        return (x - 0.5 == (double) (long) (x - 0.5)) ? (long) (x - 0.5) : -9;
    }
};
// an element type that can be constructed from (nearly) anything, in particular from an Array of itself: a deep copy must never
// turn into "an array holding one element made from the other array"
template <>
struct Val<std::any> {
    static std::any make(int v) { return std::any(v); }
    static long get(const std::any &x) {
        if (!x.has_value()) return 0;
        if (auto *p = std::any_cast<int>(&x)) return *p;
        return -55;   // holds something else (e.g. a whole Array)
    }
};
template <>
struct Val<std::string> {
    static std::string make(int v) { return v == 0 ? std::string() : std::string(24, (char) ('a' + v % 26)) + std::to_string(v); }
    static long get(const std::string &x) {
        if (x.empty()) return 0;
        if (x.size() <= 24) return -1;
        return strtol(x.c_str() + 24, nullptr, 10);
    }
};
template <>
struct Val<trk::Tracked> {
    static trk::Tracked make(int v) { return trk::Tracked(v); }
    static long get(const trk::Tracked &x) { return x.magic == trk::Tracked::LIVE ? x.payload : -1000; }
};

// trivially copyable, but NOT trivially default-constructible: Array<Pod>(n) and resize(n) must run the default member initialisers
struct Pod {
    int v = 0;
    int guard = 0x5A5A;
};
template <>
struct Val<Pod> {
    static Pod make(int v) {
        Pod p;
        p.v = v;
        return p;
    }
    static long get(const Pod &x) { return x.guard == 0x5A5A ? x.v : -77; }
};

template <class A>
std::string observe(A &a) {
    using T = typename A::value_type;
    size_t n = a.size();
    std::vector<long> items, iter, citer, raw;
    for (size_t i = 0; i < n; ++i) items.push_back(Val<T>::get(a[i]));
    for (auto &e : a) iter.push_back(Val<T>::get(e));
    const A &ca = a;
    for (auto it = ca.cbegin(); it != ca.cend(); ++it) citer.push_back(Val<T>::get(*it));
    for (size_t i = 0; i < n; ++i) raw.push_back(Val<T>::get(a.array()[i]));
    std::string s = "{\"size\":" + std::to_string(n) + ",\"empty\":" + (a.empty() ? "true" : "false");
    s += ",\"items\":" + jlist(items) + ",\"iter\":" + jlist(iter) + ",\"citer\":" + jlist(citer) + ",\"raw\":" + jlist(raw);
    if (n > 0) s += ",\"front\":" + std::to_string(Val<T>::get(a.front())) + ",\"back\":" + std::to_string(Val<T>::get(a.back()));
    bool itok = (size_t) (a.end() - a.begin()) == n && (size_t) std::distance(a.begin(), a.end()) == n && hr::iter_algebra_ok(a) && hr::iter_algebra_ok(ca);
    s += ",\"itok\":" + std::string(itok ? "true" : "false");
    return s + "}";
}

std::string registry_json() {
    auto &r = trk::reg();
    std::string a = "[";
    for (size_t i = 0; i < r.anomalies.size(); ++i) {
        if (i) a += ",";
        a += jstr(r.anomalies[i]);
    }
    return "\"live\":" + jlist(r.live_payloads()) + ",\"anom\":" + a + "]";
}

std::vector<int> parse_vals(const std::string &s) {
    std::vector<int> v;
    if (s.empty() || s == "-") return v;
    std::stringstream ss(s);
    std::string t;
    while (std::getline(ss, t, ',')) v.push_back(atoi(t.c_str()));
    return v;
}

template <class T>
void run_typed(const Execution &ex) {
    using A = tulz::Array<T>;
    trk::reg().reset();
    A *obj[2] = {nullptr, nullptr};
    bool moved[2] = {false, false};
    auto emit = [&](int i, const std::string &op) {
        std::string s = "\"e\":\"Obs\",\"i\":" + std::to_string(i) + ",\"op\":" + jstr(op);
        for (int k = 0; k < 2; ++k) {
            s += std::string(",\"") + (k == 0 ? "A" : "B") + "\":";
            if (obj[k] && !moved[k])
                s += observe(*obj[k]);
            else
                s += obj[k] ? "\"moved\"" : "null";
        }
        if constexpr (std::is_same_v<T, trk::Tracked>) s += "," + registry_json();
        out().raw(s);
    };
    int i = 0;
    for (const auto &st : ex.steps) {
        std::string op = st.str("op");
        int o = st.str("o", "A") == "B" ? 1 : 0;
        A *&me = obj[o];
        A *&other = obj[1 - o];
        auto vals = parse_vals(st.str("s", ""));
        size_t n = (size_t) st.num("n", 0);
        int v = (int) st.num("v", 0);
        if (op == "CtorPtr") {
            std::vector<T> src;
            for (int x : vals) src.push_back(Val<T>::make(x));
            T dummy = Val<T>::make(1);
            // never a null pointer, even for length 0; odd lengths rely on the default of the third parameter (copy)
            if (src.size() % 2) me = new A(src.data(), src.size());
            else me = new A(src.empty() ? &dummy : src.data(), src.size(), true);
        } else if (op == "CtorAdopt") {
            T *buf = static_cast<T *>(malloc(vals.size() * sizeof(T)));
            for (size_t k = 0; k < vals.size(); ++k) new (&buf[k]) T(Val<T>::make(vals[k]));
            me = new A(buf, vals.size(), false);
        } else if (op == "CtorList") {
            std::vector<T> x;
            for (int q : vals) x.push_back(Val<T>::make(q));
            // the same list object is used twice: constructing an Array must leave the list's elements as they were
            auto twice = [&](std::initializer_list<T> il) {
                { A scratch(il); }
                me = new A(il);
            };
            switch (x.size()) {
                case 0: twice({}); break;
                case 1: twice({x[0]}); break;
                case 2: twice({x[0], x[1]}); break;
                case 3: twice({x[0], x[1], x[2]}); break;
                default: twice({x[0], x[1], x[2], x[3]}); break;
            }
        } else if (op == "CtorSized") {
            me = new A(n);
        } else if (op == "CtorFilled") {
            me = new A(n, Val<T>::make(v));
        } else if (op == "CtorDefault") {
            me = new A();
        } else if (op == "Resize") {
            me->resize(n);
        } else if (op == "ResizeFill") {
            me->resize(n, Val<T>::make(v));
        } else if (op == "ResizeFillFrom") {
            me->resize(n, (*me)[(size_t) st.num("i") - 1]);   // the fill value refers into the array that is being resized
        } else if (op == "Write") {
            (*me)[(size_t) st.num("i") - 1] = Val<T>::make(v);
        } else if (op == "CopyConstruct") {
            me = new A(*other);
        } else if (op == "SelfCopyAssign") {
            A &alias = *me;
            *me = alias;
        } else if (op == "SelfMoveAssign") {
            A &alias = *me;
            *me = std::move(alias);
        } else if (op == "CopyAssign") {
            *me = *other;
            moved[o] = false;
        } else if (op == "MoveConstruct") {
            me = new A(std::move(*other));   // the source stays observable: it must now be an empty array
        } else if (op == "MoveAssign") {
            *me = std::move(*other);
            moved[o] = false;
            moved[1 - o] = true;
        } else if (op == "Swap") {
            obj[0]->swap(*obj[1]);
        } else if (op == "Destroy") {
            delete me;
            me = nullptr;
            moved[o] = false;
        } else {
            out().line("\"e\":\"BadOp\",\"op\":%s", jstr(op).c_str());
        }
        emit(i, op);
        ++i;
    }
    delete obj[1];
    delete obj[0];
    std::string fin = "\"e\":\"Final\"";
    if constexpr (std::is_same_v<T, trk::Tracked>) fin += "," + registry_json();
    int leaks = 0;
    if (__lsan_do_recoverable_leak_check) leaks = __lsan_do_recoverable_leak_check();
    fin += ",\"lsan_leak\":" + std::to_string(leaks);
    out().raw(fin);
}

void run_exec(const Execution &ex) {
    std::string ty = ex.cfg.str("type", "int");
    if (ty == "int")
        run_typed<int>(ex);
    else if (ty == "dbl")
        run_typed<double>(ex);
    else if (ty == "str")
        run_typed<std::string>(ex);
    else if (ty == "pod")
        run_typed<Pod>(ex);
    else if (ty == "any")
        run_typed<std::any>(ex);
    else
        run_typed<trk::Tracked>(ex);
}

}  // namespace

int main(int argc, char **argv) { return drive(argc, argv, run_exec); }
