// Replay / exploration harness for tulz::ThreadPool (C07, C08; inputs to C15).
// The repository sources are compiled unmodified. Thread 0 is the pool's owner; the workers are the
// threads the pool creates (managed ids 1, 2, .. in creation order).
#include <condition_variable>
#include <list>
#include <mutex>
#include <memory>
#include <system_error>
#include <thread>

#ifdef VS_PROJECT
#define private public
#endif
#include <tulz/threading/ThreadPool.h>
#ifdef VS_PROJECT
#undef private
#endif
#include <tulz/threading/Thread.h>

#include "../common/runner.h"
#include "../vsched/controllers.h"

using namespace hr;
using tulz::ThreadPool;

namespace {

const int MAXT = 32;
ThreadPool *g_pool = nullptr;
bool g_scripted = false;
char g_next_op = 0;            // script mode: op handed to the owner at its idle marker
std::string g_prog;            // random mode: owner program
int g_next_task = 1;
int g_api = 0;                 // 'S','C','T', 0
bool g_stop_notified = false;  // inside stop(): notify_all already done
int g_joined[MAXT];
int g_task_of[MAXT];           // task a worker is running
int g_maxthreads = 2;
int g_expiry = -1;
bool g_update_ops = false;
bool g_expect_client = false;
bool g_is_client[MAXT];

// harness bookkeeping shared by its threads: kept out of the detector's view (no recording, no access-level scheduling point)
int next_task() {
    if (rd_ignore) rd_ignore(1);
    int k = g_next_task++;
    if (rd_ignore) rd_ignore(-1);
    return k;
}

void ev(const char *e, int k, int w, int n = 0) { out().line("\"e\":\"%s\",\"k\":%d,\"w\":%d,\"n\":%d", e, k, w, n); }

struct Task : tulz::Runnable {
    static constexpr unsigned ALIVE = 0xA11CE5u;
    volatile unsigned canary = ALIVE;
    int k;
    explicit Task(int k_) : k(k_) {}
    void run() override {
        int w = vs::self();
        if (canary != ALIVE) ev("RunOnDead", k, w);
        ev("RunBegin", k, w);
        if (w >= 0 && w < MAXT) g_task_of[w] = k;
        vs::yield("task");
        if (canary != ALIVE) ev("DestroyedWhileRunning", k, w);
        if (w >= 0 && w < MAXT) g_task_of[w] = 0;
        ev("RunEnd", k, w);
    }
    ~Task() {   // no "override": whether the base destructor is virtual is the library's business, the events tell
        ev("Destroy", k, vs::self());
        canary = 0xDEAD;
    }
};

// a task given as a callable with arguments (ThreadPool::start(T, Args&&...) -> TRunnable): the token dies with the last
// copy of the callable, i.e. when the pool deletes the task (the by-value temporaries of start() are gone by then)
struct Token {
    int k;
    explicit Token(int k_) : k(k_) {}
    ~Token() { ev("Destroy", k, vs::self()); }
};
struct CallTask {
    std::shared_ptr<Token> tok;
    void operator()(int a, const std::string &s) const {
        int k = tok->k, w = vs::self();
        if (a != k * 7 || s != std::string(40, 'x') + std::to_string(k)) ev("ArgMismatch", k, w);
        ev("RunBegin", k, w);
        if (w >= 0 && w < MAXT) g_task_of[w] = k;
        vs::yield("task");
        if (w >= 0 && w < MAXT) g_task_of[w] = 0;
        ev("RunEnd", k, w);
    }
};

void owner_op(char op) {
    g_api = op;
    g_stop_notified = false;
    switch (op) {
        case 'S': {
            int k = next_task();
            auto *t = new Task(k);
            ev("Submit", k, 0);
            try {
                g_pool->start(t);
            } catch (const std::system_error &) {
                // the thread could not be created (failcreate=N): the task stays queued, nothing else may have changed
                ev("StartThrew", k, 0);
                break;
            }
            ev("StartRet", k, 0);
            break;
        }
        case 'K': {
            int k = next_task();
            CallTask c{std::make_shared<Token>(k)};
            ev("Submit", k, 0);
            g_pool->start(std::move(c), int(k * 7), std::string(40, 'x') + std::to_string(k));
            ev("StartRet", k, 0);
            break;
        }
        case 'C':
            ev("ClearCall", 0, 0);
            g_pool->clear();
            ev("ClearRet", 0, 0);
            break;
        case 'T':
            ev("StopCall", 0, 0);
            g_pool->stop();
            ev("StopRet", 0, 0, g_pool->getThreadCount());
            break;
        case 'U':
            ev("UpdateCall", 0, 0);
            g_pool->update();
            ev("UpdateRet", 0, 0, g_pool->getThreadCount());
            break;
        case 'Q':
            vs::wait_quiescent("quiesce");
            ev("Quiescent", 0, 0, g_pool->getThreadCount());
            break;
        case 'M': {
            // a second client submits tasks while the owner does: start() from two threads at once
            auto submit = [] {
                int k = next_task();
                auto *t = new Task(k);
                ev("Submit", k, vs::self());
                g_pool->start(t);
                ev("StartRet", k, vs::self());
            };
            g_expect_client = true;
            std::thread client([&] {
                for (int n = 0; n < 3; ++n) {
                    vs::yield("cop");
                    submit();
                }
            });
            for (int n = 0; n < 2; ++n) {
                vs::yield("mop");
                submit();
            }
            client.join();
            break;
        }
        case 'L':   // the owner lowers the maximum while workers exist: no further worker may be spawned above it
            g_pool->setMaxThreadCount(1);
            ev("MaxSet", 0, 0, 1);
            break;
        case 'G':
            ev("Getters", 0, 0, g_pool->getActiveThreadCount() * 100 + g_pool->getThreadCount());
            break;
    }
    g_api = 0;
}

void scenario() {
    ThreadPool pool;
    g_pool = &pool;
    pool.setMaxThreadCount(g_maxthreads);
    pool.setExpiryTimeout(g_expiry);
    size_t pc = 0;
    for (;;) {
        vs::yield("op");
        char op = 0;
        if (g_scripted) {
            op = g_next_op;
            g_next_op = 0;
        } else if (pc < g_prog.size()) {
            op = g_prog[pc++];
        }
        if (op == 0 || op == 'F') break;
        owner_op(op);
    }
    // final stop: every history ends quiescent
    g_api = 'T';
    g_stop_notified = false;
    ev("StopCall", 0, 0, 1);
    pool.stop();
    ev("StopRet", 0, 0, pool.getThreadCount());
    g_api = 0;
    ev("Done", 0, 0);
    g_pool = nullptr;
}

class Ctl : public vs::BaseController {
public:
    size_t nsetup = 0;
    std::vector<char> step_ops;

    std::string projection(const std::vector<vs::ThreadView> &tv) {
        std::string s = "\"proj\":{";
#ifdef VS_PROJECT
        if (g_pool) {
            s += "\"queue\":[";
            bool first = true;
            for (auto *r : g_pool->m_queue) {
                if (!first) s += ",";
                first = false;
                auto *t = dynamic_cast<Task *>(r);
                s += std::to_string(t ? t->k : -1);
            }
            s += "],\"pool\":" + std::to_string(g_pool->m_pool.size());
            s += ",\"running\":" + std::string(g_pool->m_isRunning ? "true" : "false");
            s += ",\"qmx\":" + std::to_string(vs::mutex_owner(&g_pool->m_queueMutex));
            s += ",\"pmx\":" + std::to_string(vs::mutex_owner(&g_pool->m_poolMutex)) + ",";
        }
#endif
        const auto &o = tv[0];
        const char *opc = "?";
        if (o.finished) opc = "done";
        else if (o.pending == vs::OP_MARK) opc = "idle";
        else if (o.pending == vs::OP_CREATE) opc = "s_create";
        else if (o.pending == vs::OP_NOTIFY_ONE) opc = "s_notify";
        else if (o.pending == vs::OP_NOTIFY_ALL) opc = g_api == 'T' ? "t_notify" : "u_notify";
        else if (o.pending == vs::OP_JOIN) opc = g_api == 'T' ? "t_join" : "u_join";
        else if (o.pending == vs::OP_LOCK) {
#ifdef VS_PROJECT
            bool q = g_pool && o.obj == (const void *) &g_pool->m_queueMutex;
#else
            bool q = true;
#endif
            if (g_api == 'S') opc = q ? "s_lockq" : "s_lockpool";
            else if (g_api == 'C') opc = "c_lockq";
            else if (g_api == 'T') opc = q ? (g_stop_notified ? "t_lockq" : "t_flag") : "t_lockpool";
            else if (g_api == 'U') opc = "u_lockpool";
        } else opc = vs::op_name(o.pending);
        s += std::string("\"opc\":\"") + opc + "\"";
        std::string wpc = "[", wt = "[", wk = "[";
        for (size_t t = 1; t < tv.size(); ++t) {
            const auto &v = tv[t];
            const char *p = "?";
            if (v.finished) p = g_joined[t] ? "joined" : "done";
            else if (v.pending == vs::OP_START) p = "start";
            else if (v.pending == vs::OP_LOCK) p = "lockq";
            else if (v.pending == vs::OP_CWAIT) p = "prewait";
            else if (v.pending == vs::OP_CWAKE) p = "wait";
            else if (v.pending == vs::OP_MARK) p = "run";
            else p = vs::op_name(v.pending);
            if (t > 1) {
                wpc += ",";
                wt += ",";
                wk += ",";
            }
            wpc += std::string("\"") + p + "\"";
            wt += std::to_string(g_task_of[t]);
            wk += (v.pending == vs::OP_CWAKE && v.woken) ? "true" : "false";
        }
        s += ",\"wpc\":" + wpc + "],\"wtask\":" + wt + "],\"woken\":" + wk + "]}";
        std::string en = "[";
        bool first = true;
        for (auto &v : tv)
            if (v.enabled) {
                if (!first) en += ",";
                first = false;
                en += std::to_string(v.id);
            }
        return s + ",\"en\":" + en + "]";
    }

    void step_done(size_t i, const std::vector<vs::ThreadView> &tv) override {
        if (i < nsetup) return;
        out().raw("\"e\":\"Step\",\"i\":" + std::to_string(i - nsetup) + "," + projection(tv));
    }
    void before_run(int thread, const std::vector<vs::ThreadView> &tv) override {
        const auto &v = tv[thread];
        if (thread == 0 && g_scripted && v.pending == vs::OP_MARK && v.label && !strcmp(v.label, "op")) {
            if (mode == SCRIPT && pos < script.size() && pos < step_ops.size())
                g_next_op = step_ops[pos];
            else
                g_next_op = 0;
        }
    }
    void op_applied(int thread, vs::OpKind kind, const void *, const void *, const char *, int aux) override {
        if (thread == 0 && kind == vs::OP_NOTIFY_ALL) g_stop_notified = true;
        if (thread == 0 && kind == vs::OP_JOIN && aux >= 0 && aux < MAXT) g_joined[aux] = 1;
        if (kind == vs::OP_CREATE && aux >= 0 && aux < MAXT) {
            if (g_expect_client) {
                g_is_client[aux] = true;
                g_expect_client = false;
            } else {
                // a worker counts against the maximum from the moment the pool creates it, not from its first step
                ev("WorkerStart", 0, aux);
            }
        }
        if (thread > 0 && thread < MAXT && !g_is_client[thread] && kind == vs::OP_EXIT) ev("WorkerExit", 0, thread);
    }
    void enter_fallback(const std::vector<vs::ThreadView> &) override {
        if (!drift.empty()) out().line("\"e\":\"Drift\",\"why\":%s", jstr(drift).c_str());
        out().line("\"e\":\"Fallback\"");
    }
    void on_deadlock(const std::vector<vs::ThreadView> &tv) override {
        finish_pending_step(tv);
        std::string b = "[";
        bool first = true;
        for (auto &v : tv)
            if (!v.finished) {
                if (!first) b += ",";
                first = false;
                b += "{\"t\":" + std::to_string(v.id) + ",\"op\":\"" + vs::op_name(v.pending) + "\"}";
            }
        out().raw("\"e\":\"Deadlock\",\"k\":0,\"w\":0,\"n\":" + std::to_string(g_api) + ",\"blocked\":" + b + "]");
    }
    void on_abort(int) override {
        for (auto &r : vs::race_reports()) out().raw("\"e\":\"Race\"," + r);
        out().flush();
    }
    void too_long() override { out().line("\"e\":\"TooLong\""); }
};

void run_exec(const Execution &ex) {
    g_scripted = ex.cfg.str("mode", "script") == "script";
    g_maxthreads = (int) ex.cfg.num("max", 2);
    g_expiry = (int) ex.cfg.num("expiry", -1);
    g_prog = ex.cfg.str("prog", "");
    g_next_task = 1;
    g_next_op = 0;
    g_api = 0;
    for (int t = 0; t < MAXT; ++t) {
        g_joined[t] = g_task_of[t] = 0;
        g_is_client[t] = false;
    }
    g_expect_client = false;
    Ctl ctl;
    ctl.max_steps = 20000;
    if (g_scripted) {
        ctl.mode = vs::BaseController::SCRIPT;
        vs::ScriptStep s0;  // set-up: the owner reaches its first idle marker
        s0.thread = 0;
        s0.stop = vs::bit(vs::OP_MARK);
        ctl.script.push_back(s0);
        ctl.step_ops.push_back(0);
        ctl.nsetup = 1;
        for (const auto &st : ex.steps) {
            vs::ScriptStep s;
            s.thread = (int) st.num("t");
            s.stop = vs::STOP_ANY;  // micro-steps: every scheduler-visible operation ends a step
            s.wake = (int) st.num("wake", -1);
            std::string act = st.str("act");
            if (act == "Spurious") s.kind = vs::ScriptStep::SPURIOUS;
            if (act == "Clock") {
                s.kind = vs::ScriptStep::CLOCK;
                s.clock_ms = st.num("ms");
                s.thread = 0;
            }
            char op = 0;
            if (act == "SCall") op = 'S';
            else if (act == "CCall") op = 'C';
            else if (act == "TCall") op = st.num("final", 0) ? 'F' : 'T';
            else if (act == "UCall") op = 'U';
            ctl.script.push_back(s);
            ctl.step_ops.push_back(op);
        }
    } else {
        ctl.mode = vs::BaseController::RANDOM;
        ctl.rng = vs::Rng((uint64_t) ex.cfg.num("seed", 1));
        if (rd_access_yield) rd_access_yield((int) ex.cfg.num("accy", 0), (unsigned) ex.cfg.num("seed", 1));
        if (ex.cfg.num("accy", 0)) ctl.max_steps *= 20;
        ctl.spurious_per_1000 = (int) ex.cfg.num("spurious", 0);
        ctl.fail_create_nth = (int) ex.cfg.num("failcreate", 0);
        // a timed wait (none in the code as it stands) may time out at any moment: the holder may be arbitrarily slow
        ctl.timeout_per_1000 = (int) ex.cfg.num("timeouts", 40);
        ctl.stay_num = (int) ex.cfg.num("stay", 1);
        ctl.stay_den = (int) ex.cfg.num("stayden", 2);
        ctl.clock_per_1000 = (int) ex.cfg.num("clock", 0);
        ctl.clock_ms = g_expiry > 0 ? g_expiry + 1 : 1;
        int d = (int) ex.cfg.num("pct", 0);
        ctl.pct = d > 0;
        for (int i = 0; i < d; ++i) ctl.change_at.push_back(1 + ctl.rng.below((uint32_t) ex.cfg.num("len", 80)));
    }
    out().line("\"e\":\"Begin\",\"k\":0,\"w\":0,\"n\":%d", g_maxthreads);
    vs::run(ctl, scenario);
    for (auto &r : vs::race_reports()) out().raw("\"e\":\"Race\"," + r);
    out().line("\"e\":\"End0\",\"k\":0,\"w\":0,\"n\":0");
}

}  // namespace

int main(int argc, char **argv) { return drive(argc, argv, run_exec); }
