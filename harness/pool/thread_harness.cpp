// Replay harness for tulz::Thread (C20). Built with -O0 -fno-inline so that start() has its own stack
// frame: after it returns the harness overwrites the dead stack region with pointers to trap
// functions, so a stale read of the by-value callable parameter cannot succeed "by luck".
#include <optional>
#include <system_error>
#include <thread>

#include <tulz/threading/Thread.h>

#include "../common/runner.h"
#include "../vsched/controllers.h"

using namespace hr;

namespace {

constexpr unsigned ALIVE = 0xA11CE5u, DEAD = 0xDEADu;
tulz::Thread *g_thread = nullptr;
bool g_fin_logged = false;

void ev(const char *e, int a = 0, int b = 0) { out().line("\"e\":\"%s\",\"a\":%d,\"b\":%d", e, a, b); }

struct Canary {
    volatile unsigned v = ALIVE;
    Canary() = default;
    Canary(const Canary &o) : v(o.v) {}
    ~Canary() { v = DEAD; }
    bool ok() const { return v == ALIVE; }
};

void body(bool alive, int kind) {
    ev("Invoke", alive ? 1 : 0, kind);
    vs::yield("in");
    ev("InvokeEnd", 0, kind);
}

// function pointers and their traps (same signatures)
void fn0() { body(true, 0); }
void fn1(int &a) { body(true, 0); ++a; }
void fn2(int &a, int &b) { body(true, 0); ++a; ++b; }
void trap0() { ev("InvokeTrap"); }
void trap1(int &) { ev("InvokeTrap"); }
void trap2(int &, int &) { ev("InvokeTrap"); }

struct Small {
    Canary c;
    void operator()() { body(c.ok(), 1); }
    void operator()(int &a) { body(c.ok(), 1); ++a; }
    void operator()(int &a, int &b) { body(c.ok(), 1); ++a; ++b; }
};
struct Large {
    Canary c;
    char pad[256];
    Canary c2;
    void operator()() { body(c.ok() && c2.ok(), 2); }
    void operator()(int &a) { body(c.ok() && c2.ok(), 2); ++a; }
    void operator()(int &a, int &b) { body(c.ok() && c2.ok(), 2); ++a; ++b; }
};

struct R : tulz::Runnable {
    Canary c;
    void run() override {
        ev("RunBegin", c.ok() ? 1 : 0);
        vs::yield("in");
        ev("RunEnd", c.ok() ? 1 : 0);
    }
    ~R() { ev("Destroy"); }   // no "override": see pool_harness.cpp
    // a one-slot pool: the Runnable of the next round lives at the address of the previous, already destroyed one
    // (identity of a Runnable is not its address)
    alignas(16) static inline unsigned char slot[64];
    static inline bool slot_used = false;
    static void *operator new(size_t n) {
        if (!slot_used && n <= sizeof slot) {
            slot_used = true;
            return slot;
        }
        return ::operator new(n);
    }
    static void operator delete(void *p) {
        if (p == slot) slot_used = false;
        else ::operator delete(p);
    }
};

__attribute__((noinline)) void scribble(void *trap) {
    volatile void *arr[4096];
    for (int i = 0; i < 4096; ++i) arr[i] = trap;
    asm volatile("" ::: "memory");
    (void) arr;
}

int g_kind = 0, g_args = 0;
int g_form = 0;   // 1: the constructor form Thread(callable, args...) instead of Thread() + start(...)
int g_payload = 0;   // written by the callable of the "poll" scenario, read by the starter after isFinished() turned true

void fn_payload() {
    body(true, 4);
    g_payload = 42;
}

int g_rounds = 1;   // > 1: the same Thread object is started again after it has been joined
int g_round = 0;
bool g_reuse = false;   // start() on the existing Thread object (a later round, or the retry after a start() that threw)

template <class C>
void start_with(std::optional<tulz::Thread> &ot, C callable, int &a, int &b) {
    ev("StartCall");
    if (g_reuse) {
        if (g_args == 0) ot->start(callable);
        else if (g_args == 1) ot->start(callable, a);
        else ot->start(callable, a, b);
    } else if (g_form == 1) {
        if (g_args == 0) ot.emplace(callable);
        else if (g_args == 1) ot.emplace(callable, a);
        else ot.emplace(callable, a, b);
    } else {
        ot.emplace();
        g_thread = &*ot;
        if (g_args == 0) ot->start(callable);
        else if (g_args == 1) ot->start(callable, a);
        else ot->start(callable, a, b);
    }
    g_thread = &*ot;
    ev("StartRet");
}

// the starter relies on isFinished() alone (no join) before it reads what the callable produced
void scenario_poll() {
    tulz::Thread t;
    g_thread = &t;
    g_payload = 0;
    vs::yield("begin");
    ev("StartCall");
    t.start(&fn_payload);
    ev("StartRet");
    for (;;) {
        vs::yield("poll");
        if (t.isFinished()) break;
    }
    int v = g_payload;
    ev("Payload", v);
    t.join();
    ev("JoinRet", t.isFinished() ? 1 : 0, 0);
    g_thread = nullptr;
    ev("Done");
}

void scenario() {
    if (g_kind == 4) {
        scenario_poll();
        return;
    }
    std::optional<tulz::Thread> ot;
    int a = 0, b = 0;
    void *trap = g_args == 0 ? (void *) &trap0 : g_args == 1 ? (void *) &trap1 : (void *) &trap2;
  for (g_round = 0; g_round < g_rounds; ++g_round) {
    a = b = 0;
    vs::yield("begin");
   for (bool retry = false;; retry = true) {
    g_reuse = (g_round > 0 || retry) && ot.has_value();
    try {
    if (g_kind == 0) {
        ev("StartCall");
        if (g_reuse) {
            if (g_args == 0) ot->start(&fn0);
            else if (g_args == 1) ot->start(&fn1, a);
            else ot->start(&fn2, a, b);
        } else if (g_form == 1) {
            if (g_args == 0) ot.emplace(&fn0);
            else if (g_args == 1) ot.emplace(&fn1, a);
            else ot.emplace(&fn2, a, b);
        } else {
            ot.emplace();
            g_thread = &*ot;
            if (g_args == 0) ot->start(&fn0);
            else if (g_args == 1) ot->start(&fn1, a);
            else ot->start(&fn2, a, b);
        }
        g_thread = &*ot;
        ev("StartRet");
    } else if (g_kind == 1) {
        Small s;
        start_with(ot, s, a, b);
    } else if (g_kind == 2) {
        Large l;
        memset(l.pad, 7, sizeof l.pad);
        start_with(ot, l, a, b);
    } else {
        ev("StartCall");
        if (g_reuse) ot->start(new R());
        else if (g_form == 1) ot.emplace(new R());
        else {
            ot.emplace();
            g_thread = &*ot;
            ot->start(new R());
        }
        g_thread = &*ot;
        ev("StartRet");
    }
    break;
    } catch (const std::system_error &) {
        // failcreate=1: the thread could not be created, so no callable has run and none has returned
        ev("StartThrew");
        if (ot.has_value() && ot->isFinished()) ev("FinSeen");
    }
   }
    if (g_round > 0) g_fin_logged = false;   // start() has returned: from here on isFinished() speaks about the new round
    tulz::Thread &t = *ot;
    scribble(trap);
    vs::yield("after");
    t.join();
    ev("JoinRet", t.isFinished() ? 1 : 0, a * 10 + b);
    if (g_round + 1 < g_rounds) {
        ev("Restart");
        g_fin_logged = true;   // no sampling until the next start() has returned: until then "finished" still describes this round
    }
  }
    g_thread = nullptr;
    ev("Done");
}

class Ctl : public vs::BaseController {
public:
    size_t nsetup = 0;
    void sample() {
        if (g_thread && !g_fin_logged && g_thread->isFinished()) {
            g_fin_logged = true;
            ev("FinSeen");
        }
    }
    void step_begin(size_t, const std::vector<vs::ThreadView> &) override { sample(); }
    void before_run(int, const std::vector<vs::ThreadView> &) override { sample(); }
    void step_done(size_t i, const std::vector<vs::ThreadView> &tv) override {
        sample();
        if (i < nsetup) return;
        std::string pc = "[";
        for (size_t t = 0; t < tv.size(); ++t) {
            if (t) pc += ",";
            pc += std::string("\"") + (tv[t].finished ? "FIN" : vs::op_name(tv[t].pending)) + "\"";
        }
        out().raw("\"e\":\"Step\",\"i\":" + std::to_string(i - nsetup) + ",\"pc\":" + pc + "]");
    }
    void enter_fallback(const std::vector<vs::ThreadView> &) override {
        if (!drift.empty()) out().line("\"e\":\"Drift\",\"why\":%s", jstr(drift).c_str());
    }
    void on_deadlock(const std::vector<vs::ThreadView> &tv) override {
        finish_pending_step(tv);
        ev("Deadlock");
    }
    void on_abort(int) override {
        for (auto &r : vs::race_reports()) out().raw("\"e\":\"Race\"," + r);
        out().flush();
    }
    void too_long() override { ev("TooLong"); }
};

void run_exec(const Execution &ex) {
    g_kind = (int) ex.cfg.num("kind", 0);
    g_args = (int) ex.cfg.num("args", 0);
    g_form = (int) ex.cfg.num("form", 0);
    g_rounds = (int) ex.cfg.num("rounds", 1);
    g_round = 0;
    g_fin_logged = false;
    if (rd_atomic_yield) rd_atomic_yield((int) ex.cfg.num("ay", 0));
    if (rd_access_yield) rd_access_yield((int) ex.cfg.num("accy", 0), (unsigned) ex.cfg.num("seed", 1));
    Ctl ctl;
    ctl.max_steps = ex.cfg.num("accy", 0) ? 40000 : 2000;
    ctl.fail_create_nth = (int) ex.cfg.num("failcreate", 0);
    if (ex.cfg.str("mode", "script") == "script") {
        ctl.mode = vs::BaseController::SCRIPT;
        vs::ScriptStep s0;
        s0.thread = 0;
        s0.stop = vs::bit(vs::OP_MARK);
        ctl.script.push_back(s0);
        ctl.nsetup = 1;
        for (const auto &st : ex.steps) {
            vs::ScriptStep s;
            s.thread = (int) st.num("t");
            s.stop = vs::STOP_ANY;
            ctl.script.push_back(s);
        }
    } else {
        ctl.mode = vs::BaseController::RANDOM;
        ctl.rng = vs::Rng((uint64_t) ex.cfg.num("seed", 1));
    }
    ev("Begin", g_kind, g_args);
    out().line("\"e\":\"PayloadAddr\",\"addr\":\"0x%lx\"", (unsigned long) (uintptr_t) &g_payload);
    vs::run(ctl, scenario);
    for (auto &r : vs::race_reports()) out().raw("\"e\":\"Race\"," + r);
}

}  // namespace

int main(int argc, char **argv) { return drive(argc, argv, run_exec); }
