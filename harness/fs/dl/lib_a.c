int lib_id(void) { return 1; }
int only_a(void) { return 1; }
