int lib_id(void) { return 2; }
