// Replay harness for tulz::DynamicLibrary (spec/fs/DynLibP.tla). Not tied to a listed property.
// cfg: liba=<path of lib A> libb=<path of lib B> (two tiny shared objects built by the driver).
#include <string>
#include <string_view>

#include <tulz/DynamicLibrary.h>

#include "../common/runner.h"

using namespace hr;

namespace {

void run_exec(const Execution &ex) {
    std::string pa = ex.cfg.str("liba"), pb = ex.cfg.str("libb");
    std::string missing = pa + ".does-not-exist";
    std::string longer = pa + ".garbage";   // LoadPrefixView: a view of the first pa.size() characters of this buffer
    tulz::DynamicLibrary obj[2];
    int i = 0;
    for (const auto &st : ex.steps) {
        std::string op = st.str("op");
        int o = (int) st.num("o", 1) - 1;
        std::string ret = "-";
        if (op == "Load") obj[o].load(st.str("l") == "A" ? pa : pb);
        else if (op == "LoadMissing") obj[o].load(missing);
        else if (op == "LoadPrefixView") obj[o].load(std::string_view(longer.data(), pa.size()));
        else if (op == "Close") obj[o].close();
        else if (op == "Lookup") {
            std::string n = st.str("n");
            if (n == "puts") ret = obj[o].getAddress(n) ? "global" : "null";
            else {
                auto f = obj[o].getAddress<int()>(n);
                ret = !f ? "null" : f() == 1 ? "A" : "B";
            }
        } else if (op == "GetError") {
            auto e = tulz::DynamicLibrary::getError();
            ret = e ? "error" : "noerror";
            if (bool(e) != !e.message.empty()) ret += "-inconsistent";
        }
        out().line("\"e\":\"Obs\",\"i\":%d,\"l1\":%d,\"l2\":%d,\"ret\":\"%s\"", i, obj[0].isLoaded() ? 1 : 0, obj[1].isLoaded() ? 1 : 0, ret.c_str());
        ++i;
    }
}

}  // namespace

int main(int argc, char **argv) { return drive(argc, argv, run_exec); }
