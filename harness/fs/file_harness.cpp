// Replay harness for tulz::File (C17): histories from the TLC graph of FileP executed in a scratch
// directory. Symbols of the model are mapped to bytes by a palette and repeated `mult` times, so that
// stdio buffer boundaries (4096) and multi-megabyte files (2^20) are hit.
#include <sys/stat.h>
#include <unistd.h>

#include <filesystem>
#include <fstream>
#include <string>
#include <vector>

#include <tulz/Exception.h>
#include <tulz/File.h>

#include "../common/runner.h"

using namespace hr;
using tulz::File;
namespace fs = std::filesystem;

namespace {

const unsigned char PALETTES[3][2] = {{0x00, 0xFF}, {0x0A, 0x0D}, {0x1A, 0x61}};

std::string expand(const std::string &syms, int pal, size_t mult) {
    std::string s;
    for (char c : syms)
        if (c == '1' || c == '2') s.append(mult, (char) PALETTES[pal][c - '1']);
    return s;
}
// bytes -> symbol string, or "?" if it is not a clean expansion
std::string contract(const std::string &bytes, int pal, size_t mult) {
    if (bytes.size() % mult) return "?";
    std::string s;
    for (size_t i = 0; i < bytes.size(); i += mult) {
        unsigned char b = (unsigned char) bytes[i];
        for (size_t k = 1; k < mult; ++k)
            if ((unsigned char) bytes[i + k] != b) return "?";
        if (b == PALETTES[pal][0]) s += '1';
        else if (b == PALETTES[pal][1]) s += '2';
        else return "?";
    }
    return s.empty() ? "-" : s;
}

File::Mode mode_of(const std::string &m) {
    if (m == "Read") return File::Mode::Read;
    if (m == "ReadText") return File::Mode::ReadText;
    if (m == "Write") return File::Mode::Write;
    if (m == "WriteText") return File::Mode::WriteText;
    if (m == "Append") return File::Mode::Append;
    return File::Mode::AppendText;
}

void run_exec(const Execution &ex) {
    int pal = (int) ex.cfg.num("pal", 0);
    size_t mult = (size_t) ex.cfg.num("mult", 1);
    std::string base = ex.cfg.str("dir", "/tmp") + "/f-" + ex.id + "-" + std::to_string(getpid());
    fs::create_directories(base);
    std::string path = base + "/target";
    std::string kind = ex.cfg.str("kind", "absent");
    if (kind == "dir") fs::create_directory(path);
    else if (kind == "file") {
        std::ofstream o(path, std::ios::binary);
        std::string c = expand(ex.cfg.str("content", "-"), pal, mult);
        o.write(c.data(), (std::streamsize) c.size());
    }
    {
        File file;
        int i = 0;
        for (const auto &st : ex.steps) {
            std::string op = st.str("op");
            std::string r = "\"k\":\"ok\"";
            try {
                if (op == "Open") {
                    file.open(tulz::Path(path), mode_of(st.str("m")));
                    if (!file.isOpen()) r = "\"k\":\"notopen\"";
                } else if (op == "Close") {
                    file.close();
                } else if (op == "Write") {
                    std::string c = expand(st.str("c", "-"), pal, mult);
                    size_t n = (i % 2) ? file.write(c) : file.write(c.data(), c.size());
                    r = "\"k\":\"count\",\"n\":" + std::to_string(n / mult) + ",\"exact\":" + (n % mult ? "false" : "true");
                } else if (op == "ReadAll") {
                    auto a = file.read();
                    std::string b((const char *) a.array(), a.size());
                    r = "\"k\":\"bytes\",\"s\":" + jstr(contract(b, pal, mult)) + ",\"n\":" + std::to_string(b.size() / mult);
                } else if (op == "ReadStr") {
                    std::string b = file.readStr();
                    r = "\"k\":\"string\",\"s\":" + jstr(contract(b, pal, mult)) + ",\"n\":" + std::to_string(b.size() / mult);
                } else if (op == "ReadBuf") {
                    size_t n = (size_t) st.num("n") * mult;
                    std::string buf(n + 16, '\x55');
                    size_t got = file.read(buf.data(), 1, n);
                    bool clean = buf.compare(got, std::string::npos, std::string(buf.size() - got, '\x55')) == 0;
                    r = "\"k\":\"bytes\",\"s\":" + jstr(contract(buf.substr(0, got), pal, mult)) + ",\"n\":" + std::to_string(got / mult) +
                        ",\"clean\":" + (clean ? "true" : "false");
                } else if (op == "SeekStart") {
                    file.seek((long) (st.num("o") * (long) mult), File::Origin::Start);
                } else if (op == "SeekEnd") {
                    file.seek(0, File::Origin::End);
                } else if (op == "Tell") {
                    long t = file.tell();
                    r = "\"k\":\"pos\",\"n\":" + std::to_string(t / (long) mult) + ",\"exact\":" + ((t % (long) mult) ? "false" : "true");
                } else if (op == "Size") {
                    long before = file.tell();
                    size_t sz = file.size();
                    long after = file.tell();
                    std::error_code ec;
                    file.flush();
                    auto real = fs::file_size(path, ec);
                    r = "\"k\":\"size\",\"n\":" + std::to_string(sz / mult) + ",\"exact\":" + ((sz % mult) ? "false" : "true") + ",\"moved\":" +
                        (before == after ? "false" : "true") + ",\"fs\":" + std::to_string(ec ? -1 : (long) (real / mult));
                }
            } catch (const tulz::Exception &e) {
                r = std::string("\"k\":\"error\",\"e\":\"") + (e.type == tulz::Path::NotFound ? "NotFound" : e.type == tulz::Path::NotFile ? "NotFile" : "Other") + "\"";
            }
            // what is really on disk now (through the filesystem, not through tulz)
            std::string disk = "absent";
            std::error_code ec;
            if (fs::is_directory(path, ec)) disk = "dir";
            else if (fs::exists(path, ec)) disk = "file";
            out().raw("\"e\":\"Obs\",\"i\":" + std::to_string(i) + ",\"op\":" + jstr(op) + "," + r + ",\"disk\":" + jstr(disk) + ",\"open\":" + (file.isOpen() ? "true" : "false"));
            ++i;
        }
        if (file.isOpen()) file.close();
    }
    // final content as the filesystem sees it
    std::string fin = "-";
    std::error_code ec;
    if (fs::is_regular_file(path, ec)) {
        std::ifstream in(path, std::ios::binary);
        std::string b((std::istreambuf_iterator<char>(in)), std::istreambuf_iterator<char>());
        fin = contract(b, pal, mult);
    }
    out().raw("\"e\":\"Final\",\"content\":" + jstr(fin));
    fs::remove_all(base, ec);
}

}  // namespace

int main(int argc, char **argv) { return drive(argc, argv, run_exec); }
