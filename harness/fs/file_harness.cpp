// Replay harness for tulz::File (C17): histories from the TLC graph of FileP executed in a scratch
// directory. Symbols of the model are mapped to bytes by a palette and repeated `mult` times, so that
// stdio buffer boundaries (4096) and multi-megabyte files (2^20) are hit.
#include <sys/stat.h>
#include <unistd.h>

#include <filesystem>
#include <fstream>
#include <string>
#include <vector>

#include <tulz/Exception.h>
#include <tulz/File.h>

#include "../common/runner.h"

using namespace hr;
using tulz::File;
namespace fs = std::filesystem;

namespace {

const unsigned char PALETTES[3][2] = {{0x00, 0xFF}, {0x0A, 0x0D}, {0x1A, 0x61}};

std::string expand(const std::string &syms, int pal, size_t mult) {
    std::string s;
    for (char c : syms)
        if (c == '1' || c == '2') s.append(mult, (char) PALETTES[pal][c - '1']);
    return s;
}
// bytes -> symbol string, or "?" if it is not a clean expansion
std::string contract(const std::string &bytes, int pal, size_t mult) {
    if (bytes.size() % mult) return "?";
    std::string s;
    for (size_t i = 0; i < bytes.size(); i += mult) {
        unsigned char b = (unsigned char) bytes[i];
        for (size_t k = 1; k < mult; ++k)
            if ((unsigned char) bytes[i + k] != b) return "?";
        if (b == PALETTES[pal][0]) s += '1';
        else if (b == PALETTES[pal][1]) s += '2';
        else return "?";
    }
    return s.empty() ? "-" : s;
}

File::Mode mode_of(const std::string &m) {
    if (m == "Read") return File::Mode::Read;
    if (m == "ReadText") return File::Mode::ReadText;
    if (m == "Write") return File::Mode::Write;
    if (m == "WriteText") return File::Mode::WriteText;
    if (m == "Append") return File::Mode::Append;
    return File::Mode::AppendText;
}

int open_fds() {
    int n = 0;
    std::error_code ec;
    for (auto it = fs::directory_iterator("/proc/self/fd", ec); !ec && it != fs::directory_iterator(); it.increment(ec)) ++n;
    return n;
}

// round trip of an arbitrary (seeded) byte string: written in chunks through File, read back in every way File offers
void run_roundtrip(const Execution &ex) {
    std::string base = ex.cfg.str("dir", "/tmp") + "/r-" + ex.id + "-" + std::to_string(getpid());
    fs::create_directories(base);
    std::string path = base + "/blob";
    uint64_t st = (uint64_t) ex.cfg.num("seed", 1) * 0x9E3779B97F4A7C15ULL + 1;
    auto next = [&]() {
        st ^= st << 13;
        st ^= st >> 7;
        st ^= st << 17;
        return st;
    };
    size_t len = (size_t) ex.cfg.num("len", 0);
    std::string data(len, '\0');
    int flavour = (int) ex.cfg.num("flavour", 0);   // 0 uniform bytes, 1 mostly special bytes, 2 text-like with CR/LF
    static const unsigned char special[] = {0x00, 0x0A, 0x0D, 0x1A, 0xFF, 0x7F, 0x80, 0xFE, 0x20};
    for (size_t i = 0; i < len; ++i) {
        uint64_t r = next();
        data[i] = flavour == 0 ? (char) (r >> 24) : flavour == 1 ? (char) special[(r >> 20) % sizeof special] : (char) ((r >> 20) % 7 == 0 ? '\n' : (r >> 30) % 11 == 0 ? '\r' : 'a' + (r >> 40) % 26);
    }
    bool append_second = ex.cfg.num("append", 0) != 0;
    bool text = ex.cfg.num("text", 0) != 0;
    // companion=1: a second, unrelated File is open and written to at the same time (the two must not share anything)
    bool companion = ex.cfg.num("companion", 0) != 0;
    std::string path2 = base + "/companion";
    std::string data2(data.rbegin(), data.rend());
    for (auto &c : data2) c = (char) (c ^ 0x5A);
    size_t first = append_second ? len / 2 : len;
    size_t maxchunk = (size_t) ex.cfg.num("maxchunk", 9000);   // chunk sizes are 1 .. maxchunk
    int via = (int) ex.cfg.num("via", -1);
    std::string problem;
    try {
        {   // write (truncating), in random chunk sizes, alternating the two write overloads
            File f(path, text ? File::Mode::WriteText : File::Mode::Write);
            File f2;
            if (companion) f2.open(tulz::Path(path2), File::Mode::Write);
            size_t off = 0, off2 = 0;
            int k = 0;
            while (off < first) {
                size_t c = std::min<size_t>(first - off, 1 + next() % maxchunk);
                // the four ways File offers to write: bytes, a std::string, records of es bytes (es = the largest of 8, 4, 2, 1
                // that divides the chunk), an Array<byte>; `via` >= 0 pins one of them
                size_t es = c % 8 == 0 ? 8 : c % 4 == 0 ? 4 : c % 2 == 0 ? 2 : 1;
                int how = via >= 0 ? via : k % 4;
                ++k;
                size_t n;
                if (how == 1) n = f.write(data.substr(off, c));
                else if (how == 2) n = f.write(data.data() + off, c / es, es) * es;
                else if (how == 3) n = f.write(tulz::Array<tulz::byte>((tulz::byte *) (data.data() + off), c));
                else n = f.write(data.data() + off, c);
                if (n != c) problem = "write() returned " + std::to_string(n) + " for " + std::to_string(c) + " bytes";
                off += c;
                if (companion && off2 < data2.size()) {
                    size_t c2 = std::min<size_t>(data2.size() - off2, 1 + next() % 7000);
                    f2.write(data2.data() + off2, c2);
                    off2 += c2;
                }
            }
            if (companion && off2 < data2.size()) f2.write(data2.data() + off2, data2.size() - off2);
            if (f.size() != first) problem = "size() of the handle being written = " + std::to_string(f.size()) + ", written " + std::to_string(first);
        }
        if (append_second) {
            File f(path, text ? File::Mode::AppendText : File::Mode::Append);
            f.write(data.data() + first, len - first);
        }
        std::error_code ec;
        if (fs::file_size(path, ec) != len) problem = "file on disk has " + std::to_string(fs::file_size(path, ec)) + " bytes, written " + std::to_string(len);
        auto diff = [&](const std::string &got, const char *how) {
            if (got == data || !problem.empty()) return;
            size_t i = 0;
            while (i < got.size() && i < data.size() && got[i] == data[i]) ++i;
            problem = std::string(how) + ": " + std::to_string(got.size()) + " bytes read back, first difference at offset " + std::to_string(i) + " of " + std::to_string(len);
        };
        for (int mode = 0; mode < 2; ++mode) {
            File f(path, mode ? File::Mode::ReadText : File::Mode::Read);
            if (f.size() != len) problem = "size() = " + std::to_string(f.size()) + ", file has " + std::to_string(len);
            auto a = f.read();
            diff(std::string((const char *) a.array(), a.size()), mode ? "read() in text mode" : "read()");
            diff(f.readStr(), mode ? "readStr() in text mode" : "readStr()");
            f.seek(0, File::Origin::Start);
            std::string buf(len + 8, '\x55');
            size_t got = f.read(buf.data(), 1, len + 8);
            diff(buf.substr(0, got), "read(buffer, 1, n)");
            if (len > 10) {
                f.seek((long) (len / 3), File::Origin::Start);
                long before = f.tell();
                size_t sz = f.size();
                if (f.tell() != before || sz != len) problem = problem.empty() ? "size() moved the position or is wrong after a seek" : problem;
                std::string tail = f.readStr();   // read() always returns the whole file
                diff(tail, "readStr() after a seek");
            }
        }
        if (companion && problem.empty()) {
            // a reader of the blob stays open while yet another File is written and closed
            File r(path, File::Mode::Read);
            {
                File w(base + "/third", File::Mode::Write);
                w.write(std::string(5000, 'q'));
            }
            diff(r.readStr(), "readStr() of a reader that was open while another File was written");
            File c(path2, File::Mode::Read);
            std::string back = c.readStr();
            if (back != data2 && problem.empty()) problem = "the companion file written at the same time reads back differently (" + std::to_string(back.size()) + " of " + std::to_string(data2.size()) + " bytes)";
        }
        if (problem.empty()) {
            // descriptors: opening and closing the same file again and again must not consume more and more of them
            int c0 = open_fds();
            int grow = 0, prev = c0;
            for (int k = 0; k < 3; ++k) {
                {
                    File f(path, File::Mode::Read);
                    (void) f.size();
                }
                int now = open_fds();
                if (now > prev) ++grow;
                prev = now;
            }
            if (grow == 3) problem = "every open()/close() of the file leaves more descriptors open (" + std::to_string(c0) + " -> " + std::to_string(prev) + "): enough round trips exhaust them and files can no longer be read back";
        }
    } catch (const tulz::Exception &e) {
        problem = std::string("unexpected exception: ") + e.what();
    }
    out().raw("\"e\":\"RoundTrip\",\"len\":" + std::to_string(len) + ",\"ok\":" + (problem.empty() ? "true" : "false") + ",\"problem\":" + jstr(problem));
    std::error_code ec;
    fs::remove_all(base, ec);
}

void run_exec(const Execution &ex) {
    if (ex.cfg.num("roundtrip", 0)) {
        run_roundtrip(ex);
        return;
    }
    int pal = (int) ex.cfg.num("pal", 0);
    size_t mult = (size_t) ex.cfg.num("mult", 1);
    std::string base = ex.cfg.str("dir", "/tmp") + "/f-" + ex.id + "-" + std::to_string(getpid());
    fs::create_directories(base);
    std::string path = base + "/target";
    std::string kind = ex.cfg.str("kind", "absent");
    if (ex.cfg.num("link", 0)) {
        // the path File sees is a symbolic link to the real entry (a dangling one if there is none): same answers expected
        std::string real = base + "/real entry";
        fs::create_symlink(real, path);
        path = real;
    }
    // other ways of naming nothing: a component longer than NAME_MAX, a symbolic link that points at itself
    std::string absent = ex.cfg.str("absent", "plain");
    if (kind == "absent" && absent == "long") path = base + "/" + std::string(300, 'n');
    if (kind == "absent" && absent == "loop") {
        path = base + "/loop";
        fs::create_symlink(path, path);
    }
    if (kind == "dir") fs::create_directory(path);
    else if (kind == "file") {
        std::ofstream o(path, std::ios::binary);
        std::string c = expand(ex.cfg.str("content", "-"), pal, mult);
        o.write(c.data(), (std::streamsize) c.size());
    }
    if (ex.cfg.num("link", 0)) path = base + "/target";
    {
        File file;
        int i = 0;
        for (const auto &st : ex.steps) {
            std::string op = st.str("op");
            std::string r = "\"k\":\"ok\"";
            try {
                if (op == "Open") {
                    file.open(tulz::Path(path), mode_of(st.str("m")));
                    if (!file.isOpen()) r = "\"k\":\"notopen\"";
                } else if (op == "Close") {
                    file.close();
                } else if (op == "Write") {
                    std::string c = expand(st.str("c", "-"), pal, mult);
                    size_t n = (i % 2) ? file.write(c) : file.write(c.data(), c.size());
                    r = "\"k\":\"count\",\"n\":" + std::to_string(n / mult) + ",\"exact\":" + (n % mult ? "false" : "true");
                } else if (op == "ReadAll") {
                    auto a = file.read();
                    std::string b((const char *) a.array(), a.size());
                    r = "\"k\":\"bytes\",\"s\":" + jstr(contract(b, pal, mult)) + ",\"n\":" + std::to_string(b.size() / mult);
                } else if (op == "ReadStr") {
                    std::string b = file.readStr();
                    r = "\"k\":\"string\",\"s\":" + jstr(contract(b, pal, mult)) + ",\"n\":" + std::to_string(b.size() / mult);
                } else if (op == "ReadBuf") {
                    size_t n = (size_t) st.num("n") * mult;
                    std::string buf(n + 16, '\x55');
                    size_t got = file.read(buf.data(), 1, n);
                    bool clean = buf.compare(got, std::string::npos, std::string(buf.size() - got, '\x55')) == 0;
                    r = "\"k\":\"bytes\",\"s\":" + jstr(contract(buf.substr(0, got), pal, mult)) + ",\"n\":" + std::to_string(got / mult) +
                        ",\"clean\":" + (clean ? "true" : "false");
                } else if (op == "SeekStart") {
                    file.seek((long) (st.num("o") * (long) mult), File::Origin::Start);
                } else if (op == "SeekEnd") {
                    file.seek(0, File::Origin::End);
                } else if (op == "Tell") {
                    long t = file.tell();
                    r = "\"k\":\"pos\",\"n\":" + std::to_string(t / (long) mult) + ",\"exact\":" + ((t % (long) mult) ? "false" : "true");
                } else if (op == "Size") {
                    long before = file.tell();
                    size_t sz = file.size();
                    long after = file.tell();
                    std::error_code ec;
                    file.flush();
                    auto real = fs::file_size(path, ec);
                    r = "\"k\":\"size\",\"n\":" + std::to_string(sz / mult) + ",\"exact\":" + ((sz % mult) ? "false" : "true") + ",\"moved\":" +
                        (before == after ? "false" : "true") + ",\"fs\":" + std::to_string(ec ? -1 : (long) (real / mult));
                }
            } catch (const tulz::Exception &e) {
                r = std::string("\"k\":\"error\",\"e\":\"") + (e.type == tulz::Path::NotFound ? "NotFound" : e.type == tulz::Path::NotFile ? "NotFile" : "Other") + "\"";
            }
            // what is really on disk now (through the filesystem, not through tulz)
            std::string disk = "absent";
            std::error_code ec;
            if (fs::is_directory(path, ec)) disk = "dir";
            else if (fs::exists(path, ec)) disk = "file";
            out().raw("\"e\":\"Obs\",\"i\":" + std::to_string(i) + ",\"op\":" + jstr(op) + "," + r + ",\"disk\":" + jstr(disk) + ",\"open\":" + (file.isOpen() ? "true" : "false"));
            ++i;
        }
        if (file.isOpen()) file.close();
    }
    // final content as the filesystem sees it
    std::string fin = "-";
    std::error_code ec;
    if (fs::is_regular_file(path, ec)) {
        std::ifstream in(path, std::ios::binary);
        std::string b((std::istreambuf_iterator<char>(in)), std::istreambuf_iterator<char>());
        fin = contract(b, pal, mult);
    }
    out().raw("\"e\":\"Final\",\"content\":" + jstr(fin));
    fs::remove_all(base, ec);
}

}  // namespace

int main(int argc, char **argv) { return drive(argc, argv, run_exec); }
