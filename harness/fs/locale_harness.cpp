// Harness for tulz::LocaleInfo::get (C19). Each execution carries a list of NUL-free input strings
// (hex encoded); for every string the returned Info is reported WITHOUT dereferencing pointers that are
// not table entries. The stack is pre-filled with a poison pattern so that uninitialised fields show.
#include <atomic>
#include <cstdlib>
#include <cstring>
#include <mutex>
#include <thread>
#include <set>
#include <string>
#include <vector>

#include <tulz/LocaleInfo.h>

#include "../common/runner.h"

using namespace hr;
using tulz::LocaleInfo;

namespace {

std::string unhex(const std::string &h) {
    std::string s;
    for (size_t i = 0; i + 1 < h.size(); i += 2) s += (char) strtol(h.substr(i, 2).c_str(), nullptr, 16);
    return s;
}

__attribute__((noinline)) void poison_stack() {
    volatile unsigned char pad[8192];
    for (size_t i = 0; i < sizeof pad; ++i) pad[i] = 0xA5;
    asm volatile("" ::: "memory");
}

std::set<const char *> g_lang_codes, g_lang_names, g_country_codes, g_country_names;

// get() is a function of its argument alone: it must answer the same way when it is called during static
// initialisation, from a constructor that runs before the library's own translation unit has been initialised.
// (tools/components/locale.py holds the same list.)
const char *const kPreMain[] = {"hu_HU.UTF-8", "Hungarian_Hungary", "en_GB", "xx_GB", "English_United States.UTF-8", "nb_NO", ""};
struct PreMain {
    std::vector<LocaleInfo::Info> res;
    PreMain() {
        // only in the harness run that asks for it: a crash here would take every other execution of the process with it
        if (getenv("LOCALE_PREMAIN") == nullptr) return;
        for (const char *s : kPreMain) res.push_back(LocaleInfo::get(s));
    }
};
__attribute__((init_priority(101))) PreMain g_premain;

void tables() {
    for (int i = 0; i < LocaleInfo::languagesCount; ++i) {
        g_lang_names.insert(LocaleInfo::languageInfo[i].value);
        g_lang_codes.insert(LocaleInfo::languageInfo[i].code);
    }
    for (int i = 0; i < LocaleInfo::countiesCount; ++i) {
        g_country_names.insert(LocaleInfo::countryInfo[i].value);
        g_country_codes.insert(LocaleInfo::countryInfo[i].code);
    }
}

// a pointer is reported as text only if it is a table entry, or (fallback) equal in content to the documented literal
std::string field(const char *p, const std::set<const char *> &table, const char *fallback_literal) {
    if (p == nullptr) return "{\"k\":\"null\"}";
    if (table.count(p)) return std::string("{\"k\":\"table\",\"s\":") + jstr(p) + "}";
    if (fallback_literal) {
        // compare without reading beyond the literal's length + 1 of an unknown pointer: only if it is readable memory we
        // own is not knowable; the fallback strings are literals of the library, so compare addresses of content via strncmp
        // guarded by the poison pattern (an uninitialised pointer is 0xA5A5... and is never dereferenced)
        uintptr_t v = (uintptr_t) p;
        if (v != 0xA5A5A5A5A5A5A5A5ull && (v >> 47) == 0 && v > 4096 && strncmp(p, fallback_literal, strlen(fallback_literal) + 1) == 0)
            return std::string("{\"k\":\"literal\",\"s\":") + jstr(fallback_literal) + "}";
    }
    char b[64];
    snprintf(b, sizeof b, "{\"k\":\"wild\",\"p\":\"0x%lx\"}", (unsigned long) (uintptr_t) p);
    return b;
}

std::string describe(const LocaleInfo::Info &r) {
    std::string s = std::string("\"err\":") + (r.error ? "true" : "false");
    s += ",\"code\":" + field(r.languageCode, g_lang_codes, "en");
    s += ",\"country\":" + field(r.country, g_country_names, "United Kingdom");
    s += ",\"ccode\":" + field(r.countryCode, g_country_codes, "GB");
    s += ",\"names\":[";
    bool first = true;
    size_t n = 0;
    for (const char *p : r.languages) {
        if (++n > 20) break;
        if (!first) s += ",";
        first = false;
        s += field(p, g_lang_names, "English");
    }
    return s + "]";
}

void run_exec(const Execution &ex) {
    tables();
    if (ex.cfg.num("dump", 0)) {
        std::string s = "\"e\":\"Tables\",\"langs\":[";
        for (int i = 0; i < LocaleInfo::languagesCount; ++i) {
            if (i) s += ",";
            s += "[" + jstr(LocaleInfo::languageInfo[i].value) + "," + jstr(LocaleInfo::languageInfo[i].code) + "]";
        }
        s += "],\"countries\":[";
        for (int i = 0; i < LocaleInfo::countiesCount; ++i) {
            if (i) s += ",";
            s += "[" + jstr(LocaleInfo::countryInfo[i].value) + "," + jstr(LocaleInfo::countryInfo[i].code) + "]";
        }
        out().raw(s + "]");
        return;
    }
    int i = 0;
    bool pre = ex.cfg.num("pre", 0) != 0;
    for (const auto &st : ex.steps) {
        std::string in = unhex(st.str("s", ""));
        // exact-size heap copy: a read past the terminating NUL is an ASan error
        char *buf = new char[in.size() + 1];
        memcpy(buf, in.c_str(), in.size() + 1);
        poison_stack();
        // pre=1: the answers recorded before main() (the script lists the same strings in the same order)
        LocaleInfo::Info r = pre && (size_t) i < g_premain.res.size() && in == kPreMain[i] ? g_premain.res[i] : LocaleInfo::get(buf);
        out().raw("\"e\":\"Res\",\"i\":" + std::to_string(i) + "," + describe(r));
        delete[] buf;
        ++i;
    }
    if (ex.cfg.num("conc", 0) != 0) {
        // get() is a function of its argument: the answers must not depend on who else is inside it at the same time.
        // The serial answers (just reported and judged against the model) are the reference; four free-running threads ask
        // again, each in its own order.
        std::vector<std::string> ins, ref;
        for (const auto &st : ex.steps) ins.push_back(unhex(st.str("s", "")));
        for (auto &in : ins) ref.push_back(describe(LocaleInfo::get(in.c_str())));
        std::atomic<long> mismatches{0}, calls{0};
        std::string first_bad;
        std::mutex mu;
        std::vector<std::thread> ths;
        for (int t = 0; t < 4; ++t)
            ths.emplace_back([&, t] {
                for (int rep = 0; rep < 150; ++rep)
                    for (size_t k = 0; k < ins.size(); ++k) {
                        size_t j = (k * (2 * t + 1) + rep) % ins.size();
                        std::string got = describe(LocaleInfo::get(ins[j].c_str()));
                        ++calls;
                        if (got != ref[j]) {
                            if (mismatches++ == 0) {
                                std::lock_guard<std::mutex> g(mu);
                                first_bad = ins[j];
                            }
                        }
                    }
            });
        for (auto &th : ths) th.join();
        out().raw("\"e\":\"Conc\",\"calls\":" + std::to_string(calls.load()) + ",\"mismatches\":" + std::to_string(mismatches.load()) + ",\"first\":" + jstr(first_bad));
    }
}

}  // namespace

int main(int argc, char **argv) { return drive(argc, argv, run_exec); }
