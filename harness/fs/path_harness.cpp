// Harness for tulz::Path and tulz::DirectoryVisitor (C18): string laws, generated directory trees,
// nested visitors. Cases come from the TLC enumerations of PathStrP / PathTreeP / VisitorP.
#include <sys/stat.h>
#include <unistd.h>

#include <algorithm>
#include <filesystem>
#include <fstream>
#include <memory>
#include <string>
#include <vector>

#include <tulz/DirectoryVisitor.h>
#include <tulz/Exception.h>
#include <tulz/Path.h>

#include "../common/runner.h"

using namespace hr;
using tulz::Path;
namespace fs = std::filesystem;

namespace {

std::string unhex(const std::string &h) {
    std::string s;
    for (size_t i = 0; i + 1 < h.size(); i += 2) s += (char) strtol(h.substr(i, 2).c_str(), nullptr, 16);
    return s;
}
std::string hex(const std::string &s) {
    static const char *d = "0123456789abcdef";
    std::string h;
    for (unsigned char c : s) {
        h += d[c >> 4];
        h += d[c & 15];
    }
    return h;
}
// a plain name, a hidden name with a space, a name that starts with two dots and has non-ASCII bytes
const char *NAMES[] = {"", "a:b", ".b c", "..x\xc3\xa9"};

std::string rel_of(const std::string &node) {   // "1.2.3" -> a/b c/.xé
    std::string r;
    std::stringstream ss(node);
    std::string t;
    while (std::getline(ss, t, '.')) {
        if (t.empty() || t == "-") continue;
        if (!r.empty()) r += "/";
        r += NAMES[atoi(t.c_str())];
    }
    return r;
}

void run_str(const Execution &ex) {
    int i = 0;
    for (const auto &st : ex.steps) {
        std::string d = unhex(st.str("d")), n = unhex(st.str("n"));
        std::string j = Path::join(d, n);
        Path pj = Path::join(Path(d), Path(n));
        std::string name = Path(j).getPathName();
        std::string par = Path(j).getParentDirectory().toString();
        std::string abs = "/" + n;
        std::string ja = Path::join(d, abs);
        std::string j3 = Path::join(d, n, n);   // variadic: join(join(d, n), n)
        out().raw("\"e\":\"Str\",\"i\":" + std::to_string(i) + ",\"j\":" + jstr(hex(j)) + ",\"jp\":" + jstr(hex(pj.toString())) + ",\"name\":" + jstr(hex(name)) +
                  ",\"par\":" + jstr(hex(par)) + ",\"jabs\":" + jstr(hex(ja)) + ",\"abs\":" + (Path(abs).isAbsolute() ? "true" : "false") +
                  ",\"rel\":" + (Path(n).isAbsolute() ? "true" : "false") + ",\"j3name\":" + jstr(hex(Path(j3).getPathName())));
        ++i;
    }
}

int open_fds() {
    int n = 0;
    std::error_code ec;
    for (auto it = fs::directory_iterator("/proc/self/fd", ec); !ec && it != fs::directory_iterator(); it.increment(ec)) ++n;
    return n;
}

void run_tree(const Execution &ex) {
    std::string base = ex.cfg.str("dir", "/tmp") + "/t-" + ex.id + "-" + std::to_string(getpid());
    fs::create_directories(base);
    std::vector<std::string> nodes;
    for (const auto &st : ex.steps) {
        std::string rel = rel_of(st.str("node"));
        std::string kind = st.str("kind");
        std::string full = base + "/" + rel;
        if (kind == "dir") fs::create_directory(full);
        else {
            size_t n = kind == "f0" ? 0 : kind == "f1" ? 1 : 5000;
            {
                std::ofstream o(full, std::ios::binary);
                o << std::string(n, 'z');
            }
            // big=1: the 5000-byte files are 3 GiB + 5000 bytes instead (sparse: no blocks are allocated), so that sums pass 2^31 and 2^32
            if (n == 5000 && ex.cfg.num("big", 0)) fs::resize_file(full, (3ull << 30) + 5000);
        }
        nodes.push_back(st.str("node"));
    }
    nodes.insert(nodes.begin(), "-");
    for (auto &node : nodes) {
        std::string rel = rel_of(node);
        std::string full = rel.empty() ? base : base + "/" + rel;
        std::string s = "\"e\":\"Node\",\"node\":" + jstr(node);
        try {
            Path p(full);
            s += std::string(",\"exists\":") + (p.exists() ? "true" : "false") + ",\"file\":" + (p.isFile() ? "true" : "false") + ",\"dir\":" + (p.isDirectory() ? "true" : "false");
            s += ",\"size\":" + std::to_string(p.size());
            if (p.isDirectory()) {
                std::vector<std::string> kids;
                for (auto &c : p.listChildren()) kids.push_back(hex(c.toString()));
                std::sort(kids.begin(), kids.end());
                s += ",\"kids\":[";
                for (size_t k = 0; k < kids.size(); ++k) s += (k ? "," : "") + jstr(kids[k]);
                s += "]";
                // trailing separator must not change the answers
                Path pt(full + "/");
                s += std::string(",\"tdir\":") + (pt.isDirectory() ? "true" : "false") + ",\"tsize\":" + std::to_string(pt.size());
            } else {
                bool threw = false;
                try {
                    p.listChildren();
                } catch (const tulz::Exception &e) {
                    threw = e.type == Path::NotDirectory;
                }
                s += std::string(",\"kids_throws\":") + (threw ? "true" : "false");
            }
            // the filesystem's own view
            std::error_code ec;
            s += std::string(",\"fs_dir\":") + (fs::is_directory(full, ec) ? "true" : "false");
        } catch (const tulz::Exception &e) {
            s += ",\"exc\":" + std::to_string(e.type);
        }
        out().raw(s);
    }
    {
        // the same questions through relative paths (working directory = the root of the tree), plain and with a leading "./"
        std::string old_cwd = fs::current_path().string();
        fs::current_path(base);
        for (auto &node : nodes) {
            std::string rel = rel_of(node);
            if (rel.empty()) continue;
            for (int variant = 0; variant < 2; ++variant) {
                std::string rp = variant == 0 ? rel : "./" + rel;
                std::string s = "\"e\":\"Rel\",\"node\":" + jstr(node) + ",\"variant\":" + std::to_string(variant);
                try {
                    Path p(rp);
                    s += std::string(",\"exists\":") + (p.exists() ? "true" : "false") + ",\"file\":" + (p.isFile() ? "true" : "false") + ",\"dir\":" +
                         (p.isDirectory() ? "true" : "false") + ",\"abs\":" + (p.isAbsolute() ? "true" : "false");
                    s += ",\"size\":" + std::to_string(p.size());
                    if (p.isDirectory()) {
                        size_t n = 0;
                        for (auto &c : p.listChildren()) {
                            (void) c;
                            ++n;
                        }
                        s += ",\"nkids\":" + std::to_string(n);
                    }
                } catch (const tulz::Exception &e) {
                    s += ",\"exc\":" + std::to_string(e.type);
                }
                out().raw(s);
            }
        }
        fs::current_path(old_cwd);
    }
    {
        // descriptors: asking the same questions again and again must not consume more and more of them (a per-call leak
        // makes every answer wrong once the tree is large enough to exhaust RLIMIT_NOFILE)
        auto ask_all = [&] {
            for (auto &node : nodes) {
                std::string rel = rel_of(node);
                try {
                    Path p(rel.empty() ? base : base + "/" + rel);
                    (void) p.exists();
                    (void) p.isFile();
                    (void) p.isDirectory();
                    (void) p.size();
                    if (p.isDirectory()) (void) p.listChildren();
                } catch (const tulz::Exception &) {
                }
            }
        };
        int f0 = open_fds();
        ask_all();
        int f1 = open_fds();
        ask_all();
        int f2 = open_fds();
        out().line("\"e\":\"Fds\",\"f0\":%d,\"f1\":%d,\"f2\":%d", f0, f1, f2);
    }
    {
        Path missing(base + "/no such entry");
        bool nf = false;
        try {
            missing.size();
        } catch (const tulz::Exception &e) {
            nf = e.type == Path::NotFound;
        }
        {   // the empty path names nothing (a default-constructed Path, or the parent of a separator-free name)
            Path empty("");
            Path dflt;
            out().raw(std::string("\"e\":\"Empty\",\"exists\":") + (empty.exists() || dflt.exists() ? "true" : "false") + ",\"file\":" +
                      (empty.isFile() || dflt.isFile() ? "true" : "false") + ",\"dir\":" + (empty.isDirectory() || dflt.isDirectory() ? "true" : "false") +
                      ",\"abs\":" + (empty.isAbsolute() ? "true" : "false"));
        }
        out().raw(std::string("\"e\":\"Missing\",\"exists\":") + (missing.exists() ? "true" : "false") + ",\"file\":" + (missing.isFile() ? "true" : "false") +
                  ",\"dir\":" + (missing.isDirectory() ? "true" : "false") + ",\"size_throws\":" + (nf ? "true" : "false"));
    }
    {
        // a Path is a name, not a snapshot of what the name referred to: the SAME objects are asked again after the entries
        // behind their names have changed kind (directory -> file, file -> directory, missing -> directory)
        std::string dnode, fnode;
        for (const auto &st : ex.steps) {
            std::string rel = rel_of(st.str("node"));
            if (rel.find('/') != std::string::npos) continue;   // top level only: swapping a parent would take children along
            if (st.str("kind") == "dir" && dnode.empty()) dnode = base + "/" + rel;
            if (st.str("kind") != "dir" && fnode.empty()) fnode = base + "/" + rel;
        }
        std::vector<std::pair<std::string, std::unique_ptr<Path>>> objs;
        if (!dnode.empty()) objs.emplace_back("dir->file", std::make_unique<Path>(dnode));
        if (!fnode.empty()) objs.emplace_back("file->dir", std::make_unique<Path>(fnode));
        objs.emplace_back("missing->dir", std::make_unique<Path>(base + "/later on"));
        auto ask = [&](const char *when) {
            for (auto &[what, p] : objs) {
                std::error_code ec2;
                std::string full = p->toString();
                out().raw("\"e\":\"Again\",\"when\":" + jstr(when) + ",\"what\":" + jstr(what) + ",\"exists\":" + (p->exists() ? "true" : "false") + ",\"file\":" +
                          (p->isFile() ? "true" : "false") + ",\"dir\":" + (p->isDirectory() ? "true" : "false") + ",\"fs_exists\":" + (fs::exists(full, ec2) ? "true" : "false") +
                          ",\"fs_file\":" + (fs::is_regular_file(full, ec2) ? "true" : "false") + ",\"fs_dir\":" + (fs::is_directory(full, ec2) ? "true" : "false"));
            }
        };
        ask("before");
        std::error_code ec3;
        if (!dnode.empty()) {
            fs::remove_all(dnode, ec3);
            std::ofstream o(dnode, std::ios::binary);
            o << "now a file";
        }
        if (!fnode.empty()) {
            fs::remove(fnode, ec3);
            fs::create_directory(fnode, ec3);
        }
        fs::create_directory(base + "/later on", ec3);
        ask("after");
    }
    std::error_code ec;
    fs::remove_all(base, ec);
}

void run_visitor(const Execution &ex) {
    std::string base = ex.cfg.str("dir", "/tmp") + "/v-" + ex.id + "-" + std::to_string(getpid());
    // the second test directory is deep: its absolute path is far longer than NAME_MAX (255)
    std::string deep = base + "/d2 x";
    for (int k = 0; k < 6; ++k) deep += "/" + std::string(60, (char) ('p' + k));
    fs::create_directories(base + "/d1");
    fs::create_directories(deep);
    // root=1: directory 0 (where the history starts and where Chdir(0) leads) is the file system's root, the one directory
    // whose name ends in a separator
    std::string dir0 = ex.cfg.num("root", 0) != 0 ? std::string("/") : base;
    fs::current_path(dir0);
    std::string dirs[3] = {dir0, base + "/d1", deep};
    std::vector<std::unique_ptr<tulz::DirectoryVisitor>> stack;
    int i = 0;
    for (const auto &st : ex.steps) {
        std::string op = st.str("op");
        int d = (int) st.num("d", 0);
        size_t vi = (size_t) st.num("v", 1) - 1;
        if (op == "Construct") {
            if (d == 0 && i % 2 == 0) stack.push_back(std::make_unique<tulz::DirectoryVisitor>(Path("")));
            else if (d == 0) stack.push_back(std::make_unique<tulz::DirectoryVisitor>());
            else if (i % 2 == 0) stack.push_back(std::make_unique<tulz::DirectoryVisitor>(Path(dirs[d])));
            else {   // default constructor + set + visit
                auto v = std::make_unique<tulz::DirectoryVisitor>();
                v->set(Path(dirs[d]));
                v->visit();
                stack.push_back(std::move(v));
            }
        } else if (op == "SetDir") {
            stack.at(vi)->set(d == 0 ? Path("") : Path(dirs[d]));
        } else if (op == "Visit") {
            stack.at(vi)->visit();
        } else if (op == "Restore") {
            stack.at(vi)->restore();
        } else if (op == "Chdir") {
            fs::current_path(dirs[d]);   // behind the visitors' back
        } else {
            stack.pop_back();
        }
        std::string cwd = fs::current_path().string();
        std::string tcwd = Path::getWorkingDirectory().toString();
        int idx = cwd == dirs[0] ? 0 : cwd == dirs[1] ? 1 : cwd == dirs[2] ? 2 : -1;
        out().raw("\"e\":\"Cwd\",\"i\":" + std::to_string(i) + ",\"cwd\":" + std::to_string(idx) + ",\"agree\":" + (tcwd == cwd ? "true" : "false"));
        ++i;
    }
    stack.clear();
    fs::current_path("/");
    std::error_code ec;
    fs::remove_all(base, ec);
}

void run_exec(const Execution &ex) {
    std::string m = ex.cfg.str("mode", "str");
    if (m == "str") run_str(ex);
    else if (m == "tree") run_tree(ex);
    else run_visitor(ex);
}

}  // namespace

int main(int argc, char **argv) { return drive(argc, argv, run_exec); }
