// Iterator algebra of a tulz container against its operator[]: every form of stepping and arithmetic that
// RandomAccessIndexIterator offers, at every position. Returns false on the first disagreement.
#pragma once
#include <cstddef>
#include <iterator>

namespace hr {

template <class C>
bool iter_algebra_ok(C &c) {
    const std::ptrdiff_t n = (std::ptrdiff_t) c.size();
    auto b = c.begin();
    auto e = c.end();
    if (e - b != n || std::distance(b, e) != n || b - e != -n) return false;
    if ((b == e) != (n == 0) || (b != e) != (n != 0) || (b < e) != (n > 0) || (e > b) != (n > 0) || !(b <= e) || !(e >= b)) return false;
    for (std::ptrdiff_t i = 0; i < n; ++i) {
        auto p = b + i;
        if (&*p != &c[(size_t) i] || p - b != i || e - p != n - i) return false;
        auto m = e - (n - i);
        if (!(m == p) || m != p) return false;
        auto q = b;
        q += i;
        if (!(q == p)) return false;
        q -= i;
        if (!(q == b)) return false;
        // postfix / prefix increment
        auto x = p;
        auto old = x++;
        if (old - b != i || x - b != i + 1) return false;
        auto y = p;
        auto &ry = ++y;
        if (&ry != &y || y - b != i + 1) return false;
        // postfix / prefix decrement (from one past p back to p, and from p to p - 1 where that exists)
        auto z = x;
        auto oldz = z--;
        if (oldz - b != i + 1 || z - b != i || &*z != &c[(size_t) i]) return false;
        auto w = x;
        auto &rw = --w;
        if (&rw != &w || w - b != i) return false;
        if (i > 0) {
            auto v = p;
            v--;
            if (v - b != i - 1 || &*v != &c[(size_t) i - 1]) return false;
        }
        if ((p < e) != true || (p >= b) != true || (p > b) != (i > 0) || (p <= b) != (i == 0)) return false;
    }
    // a backwards walk with the postfix decrement visits the elements last to first
    std::ptrdiff_t k = n;
    for (auto it = e; it != b;) {
        it--;
        --k;
        if (k < 0 || &*it != &c[(size_t) k]) return false;
    }
    return k == 0;
}

}  // namespace hr
