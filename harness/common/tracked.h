// Lifetime-tracking element type (C09, C14).
//
// Identity is a serial number stored *in the object*, so bitwise relocation (memcpy / realloc) is
// transparent, while a bitwise duplicate that is destroyed twice, a destructor on raw storage, a
// value that is never destroyed, or a copy from a dead object are all visible in the registry.
// Build with -fno-lifetime-dse (GCC would otherwise delete the poisoning stores of the destructor).
#pragma once
#include <algorithm>
#include <cstdint>
#include <string>
#include <vector>

namespace trk {

struct Registry {
    struct Info {
        int payload = 0;
        bool alive = false;
        int destroyed = 0;
    };
    std::vector<Info> serials{Info()};  // serial 0 is "none"
    std::vector<std::string> anomalies;
    long shells_destroyed = 0;
    long constructed = 0;

    int fresh(int payload) {
        Info i;
        i.payload = payload;
        i.alive = true;
        serials.push_back(i);
        ++constructed;
        return (int) serials.size() - 1;
    }
    void anomaly(const std::string &s) {
        if (anomalies.size() < 50) anomalies.push_back(s);
    }
    void destroy(int serial, const char *how) {
        if (serial <= 0 || serial >= (int) serials.size()) {
            anomaly(std::string(how) + " of unknown serial " + std::to_string(serial));
            return;
        }
        Info &i = serials[serial];
        ++i.destroyed;
        if (!i.alive) anomaly(std::string("double ") + how + " of value " + std::to_string(i.payload));
        i.alive = false;
    }
    std::vector<int> live_payloads() const {
        std::vector<int> v;
        for (size_t s = 1; s < serials.size(); ++s)
            if (serials[s].alive) v.push_back(serials[s].payload);
        std::sort(v.begin(), v.end());
        return v;
    }
    void reset() {
        serials.assign(1, Info());
        anomalies.clear();
        shells_destroyed = 0;
        constructed = 0;
    }
};

inline Registry &reg() {
    static Registry r;
    return r;
}

struct Tracked {
    static constexpr uint32_t LIVE = 0x7AC4ED01u, SHELL = 0x7AC4ED02u, DEAD = 0xDEADBEEFu;
    uint32_t magic;
    int serial;
    int payload;

    Tracked() : magic(LIVE), serial(reg().fresh(0)), payload(0) {}
    explicit Tracked(int p) : magic(LIVE), serial(reg().fresh(p)), payload(p) {}
    Tracked(const Tracked &o) : magic(LIVE), payload(o.payload) {
        if (o.magic != LIVE) reg().anomaly("copy-construct from an object that holds no value (magic " + std::to_string(o.magic) + ")");
        serial = reg().fresh(o.payload);
    }
    Tracked(Tracked &&o) noexcept : magic(LIVE), serial(o.serial), payload(o.payload) {
        if (o.magic != LIVE) {
            reg().anomaly("move-construct from an object that holds no value (magic " + std::to_string(o.magic) + ")");
            serial = reg().fresh(o.payload);
        }
        o.magic = SHELL;
        o.serial = 0;
    }
    void drop_own(const char *how) {
        if (magic == LIVE)
            reg().destroy(serial, how);
        else if (magic != SHELL)
            reg().anomaly(std::string("assignment to storage that holds no object (magic ") + std::to_string(magic) + ")");
    }
    Tracked &operator=(const Tracked &o) {
        if (this == &o) return *this;
        if (o.magic != LIVE) reg().anomaly("copy-assign from an object that holds no value");
        drop_own("destruction-by-overwrite");
        magic = LIVE;
        payload = o.payload;
        serial = reg().fresh(o.payload);
        return *this;
    }
    Tracked &operator=(Tracked &&o) noexcept {
        if (this == &o) return *this;
        if (o.magic != LIVE) reg().anomaly("move-assign from an object that holds no value");
        drop_own("destruction-by-overwrite");
        magic = LIVE;
        payload = o.payload;
        serial = o.serial;
        o.magic = SHELL;
        o.serial = 0;
        return *this;
    }
    ~Tracked() {
        if (magic == LIVE)
            reg().destroy(serial, "destruction");
        else if (magic == SHELL)
            ++reg().shells_destroyed;
        else
            reg().anomaly("destructor ran on storage that holds no element (magic " + std::to_string(magic) + ")");
        magic = DEAD;
        serial = -1;
    }
    bool operator==(const Tracked &o) const { return payload == o.payload; }
    bool operator!=(const Tracked &o) const { return payload != o.payload; }
};

}  // namespace trk
