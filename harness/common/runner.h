// Shared plumbing of all replay harnesses.
//
//   harness <script-file> <out-file> [shard k n]
//
// The script file is line based:
//   X <id> key=value ...      start of an execution (configuration)
//   S key=value ...           one step of its script
//   E                         end of the execution
// Every execution runs in a forked child (crashes, sanitizer aborts and deadlocks are
// contained and turned into events by the parent). The child appends ndjson lines to the
// output file; every line carries "x":<id>.
#pragma once
#include <fcntl.h>
#include <signal.h>
#include <sys/time.h>
#include <sys/wait.h>
#include <unistd.h>

#include <cstdarg>
#include <cstdio>
#include <cstdlib>
#include <cstring>
#include <fstream>
#include <functional>
#include <map>
#include <sstream>
#include <string>
#include <vector>

extern "C" void rd_ignore(int) __attribute__((weak));
extern "C" void rd_atomic_yield(int) __attribute__((weak));
extern "C" void rd_access_yield(int, unsigned) __attribute__((weak));   // ... and plain accesses, with a given probability   // race detector (if linked): atomic operations become scheduling points   // race detector (if linked): logging is not program behaviour

namespace hr {

struct KV {
    std::map<std::string, std::string> m;
    bool has(const std::string &k) const { return m.count(k) != 0; }
    std::string str(const std::string &k, const std::string &d = "") const {
        auto it = m.find(k);
        return it == m.end() ? d : it->second;
    }
    long num(const std::string &k, long d = 0) const {
        auto it = m.find(k);
        return it == m.end() ? d : strtol(it->second.c_str(), nullptr, 10);
    }
};

inline KV parse_kv(std::istringstream &is) {
    KV kv;
    std::string tok;
    while (is >> tok) {
        auto p = tok.find('=');
        if (p == std::string::npos)
            kv.m[tok] = "1";
        else
            kv.m[tok.substr(0, p)] = tok.substr(p + 1);
    }
    return kv;
}

struct Execution {
    std::string id;
    KV cfg;
    std::vector<KV> steps;
};

// ---- output -------------------------------------------------------------------------------
struct Out {
    int fd = -1;
    std::string buf;
    std::string xid;
    void open(const char *path) { fd = ::open(path, O_WRONLY | O_CREAT | O_APPEND, 0644); }
    void flush() {
        size_t off = 0;
        while (off < buf.size()) {
            ssize_t n = ::write(fd, buf.data() + off, buf.size() - off);
            if (n <= 0) break;
            off += (size_t) n;
        }
        buf.clear();
    }
    // line(fmt...) writes {"x":"<id>",<fmt>}\n ; fmt must be the inner part of a JSON object
    void line(const char *fmt, ...) __attribute__((format(printf, 2, 3))) {
        if (rd_ignore) rd_ignore(1);
        char tmp[8192];
        va_list ap;
        va_start(ap, fmt);
        vsnprintf(tmp, sizeof tmp, fmt, ap);
        va_end(ap);
        buf += "{\"x\":\"" + xid + "\",";
        buf += tmp;
        buf += "}\n";
        flush();  // line-wise: a crash must not lose what was observed before it
        if (rd_ignore) rd_ignore(-1);
    }
    void raw(const std::string &inner) {
        if (rd_ignore) rd_ignore(1);
        buf += "{\"x\":\"" + xid + "\"," + inner + "}\n";
        flush();  // line-wise: a crash must not lose what was observed before it
        if (rd_ignore) rd_ignore(-1);
    }
};

inline Out &out() {
    static Out o;
    return o;
}

inline std::string jstr(const std::string &s) {
    std::string r = "\"";
    for (unsigned char c : s) {
        if (c == '"' || c == '\\') {
            r += '\\';
            r += (char) c;
        } else if (c < 0x20 || c >= 0x7f) {
            char b[8];
            snprintf(b, sizeof b, "\\u%04x", c);
            r += b;
        } else
            r += (char) c;
    }
    return r + "\"";
}

template <typename T>
inline std::string jlist(const std::vector<T> &v) {
    std::string r = "[";
    for (size_t i = 0; i < v.size(); ++i) {
        if (i) r += ",";
        r += std::to_string(v[i]);
    }
    return r + "]";
}

// ---- driver -------------------------------------------------------------------------------
using ExecFn = std::function<void(const Execution &)>;

// Streams the script: executions are parsed one at a time and handed to `sink` (a harness process
// must stay small: every execution forks it, and LeakSanitizer scans its whole heap).
inline void read_script(const char *path, int shard, int nshards, const std::function<void(const Execution &)> &sink) {
    std::ifstream in(path);
    std::string line;
    Execution cur;
    bool open = false, mine = false;
    int idx = 0;
    while (std::getline(in, line)) {
        if (line.empty()) continue;
        if (line[0] == 'X') {
            mine = (idx % nshards == shard);
            ++idx;
            open = true;
            if (!mine) continue;
            std::istringstream is(line);
            std::string tag;
            is >> tag;
            cur = Execution();
            is >> cur.id;
            cur.cfg = parse_kv(is);
        } else if (line[0] == 'S' && open) {
            if (!mine) continue;
            std::istringstream is(line);
            std::string tag;
            is >> tag;
            cur.steps.push_back(parse_kv(is));
        } else if (line[0] == 'E' && open) {
            if (mine) sink(cur);
            open = false;
        }
    }
}

inline int drive(int argc, char **argv, const ExecFn &fn, const ExecFn *warm_fn = nullptr) {
    bool warmed = false;
    if (argc < 3) {
        fprintf(stderr, "usage: %s <script> <out> [shard k n] [nofork]\n", argv[0]);
        return 2;
    }
    int shard = 0, nshards = 1;
    bool nofork = false;
    for (int i = 3; i < argc; ++i) {
        if (!strcmp(argv[i], "shard") && i + 2 < argc) {
            shard = atoi(argv[i + 1]);
            nshards = atoi(argv[i + 2]);
            i += 2;
        } else if (!strcmp(argv[i], "nofork"))
            nofork = true;
    }
    out().open(argv[2]);
    if (out().fd < 0) {
        perror("open out");
        return 2;
    }
    long timeout_s = getenv("HR_EXEC_TIMEOUT") ? atol(getenv("HR_EXEC_TIMEOUT")) : 20;
    int wall_hits = 0;
    read_script(argv[1], shard, nshards, [&](const Execution &ex) {
        out().xid = ex.id;
        if (nofork) {
            fn(ex);
            out().flush();
            return;
        }
        if (warm_fn && !warmed) {   // lets a harness fill process-wide caches before the first fork
            warmed = true;
            (*warm_fn)(ex);
        }
        fflush(nullptr);
        int errpipe[2];
        if (pipe(errpipe) != 0) _exit(2);
        pid_t pid = fork();
        if (pid == 0) {
            close(errpipe[0]);
            dup2(errpipe[1], 2);
            close(errpipe[1]);
            // an execution may use timeout_s seconds of CPU time (SIGPROF ends it: a busy hang); the wall-clock alarm
            // is only a backstop for a blocked hang, generous enough for a machine that runs many checks at once
            struct itimerval cpu;
            memset(&cpu, 0, sizeof cpu);
            cpu.it_value.tv_sec = timeout_s;
            setitimer(ITIMER_PROF, &cpu, nullptr);
            alarm((unsigned) (wall_hits >= 2 ? timeout_s : timeout_s * 6));   // after two blocked hangs it is the code, not the machine
            fn(ex);
            out().flush();
            fflush(nullptr);
            _exit(0);
        }
        close(errpipe[1]);
        std::string err;
        char b[4096];
        ssize_t n;
        while ((n = read(errpipe[0], b, sizeof b)) > 0)
            if (err.size() < 60000) err.append(b, (size_t) n);
        close(errpipe[0]);
        int st = 0;
        waitpid(pid, &st, 0);
        if (WIFSIGNALED(st) && WTERMSIG(st) == SIGALRM) ++wall_hits;
        // a sanitizer report names who released the memory far down ("freed by thread ..."): keep the head of that part too
        std::string freed;
        auto fp = err.find("freed by thread");
        if (fp != std::string::npos) freed = err.substr(fp, 6000);
        if (WIFSIGNALED(st)) {
            out().raw("\"e\":\"Crash\",\"sig\":" + std::to_string(WTERMSIG(st)) + ",\"stderr\":" + jstr(err.substr(0, 1500)) + ",\"freed_by\":" + jstr(freed));
        } else if (WIFEXITED(st) && WEXITSTATUS(st) != 0) {
            out().raw("\"e\":\"Crash\",\"sig\":0,\"exit\":" + std::to_string(WEXITSTATUS(st)) + ",\"stderr\":" + jstr(err.substr(0, 1500)) + ",\"freed_by\":" + jstr(freed));
        } else if (!err.empty() && getenv("HR_SHOW_STDERR")) {
            out().line("\"e\":\"Stderr\",\"stderr\":%s", jstr(err.substr(0, 1500)).c_str());
        }
        out().line("\"e\":\"End\"");
        out().flush();
    });
    return 0;
}

}  // namespace hr
