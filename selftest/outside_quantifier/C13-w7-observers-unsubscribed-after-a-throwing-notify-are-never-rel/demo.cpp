// C13 demo: a full-depth wildcard shrink must remove every dead branch, and
// exists()/depth() must agree with the stored keys -- also after a notify that
// was aborted by a throwing observer callback.
#include <tulz/observer/routing/SubjectRouter.h>
#include <tulz/observer/routing/RoutingKeyBuilder.h>
#include <tulz/observer/USubscription.h>

#include <cstdio>
#include <stdexcept>
#include <vector>
#include <string>

using namespace tulz;

static int failures = 0;
#define CHECK(cond) do { if (!(cond)) { std::printf("FAIL line %d: %s\n", __LINE__, #cond); ++failures; } } while (0)

int main() {
    SubjectRouter router;

    auto aKey   {RoutingKeyBuilder{"a"}.build()};
    auto abKey  {RoutingKeyBuilder{"a", "b"}.build()};
    auto abcKey {RoutingKeyBuilder{"a", "b", "c"}.build()};
    auto adKey  {RoutingKeyBuilder{"a", "d"}.build()};
    auto all2   {RoutingKeyBuilder{}.all().all().build()};
    auto all3   {RoutingKeyBuilder{}.all().all().all().build()};

    std::vector<std::string> log;
    bool failOnce = true;

    auto subAbc = router.subscribe(abcKey, [&] {
        log.emplace_back("/a/b/c");
        if (failOnce) {
            failOnce = false;
            throw std::runtime_error("handler failed");
        }
    });
    auto subAd = router.subscribe(adKey, [&] { log.emplace_back("/a/d"); });

    CHECK(router.depth() == 4);

    // the first delivery to /a/b/c fails in the user's callback
    try {
        router.notify(abcKey);
        CHECK(!"the exception must reach the caller");
    } catch (const std::runtime_error&) {}

    // ... the router keeps working afterwards
    log.clear();
    router.notify(abcKey);
    router.notify(all2);
    CHECK((log == std::vector<std::string>{"/a/b/c", "/a/d"}));

    // /a/b/c dies: no live subscription at or below /a/b any more
    subAbc.unsubscribe();
    CHECK(!subAbc.isValid());

    log.clear();
    router.notify(all3);
    router.notify(all2);
    CHECK((log == std::vector<std::string>{"/a/d"}));

    router.shrink(all3); // full depth

    CHECK(!router.exists(abcKey));
    CHECK(!router.exists(abKey));
    CHECK(router.exists(adKey));
    CHECK(router.exists(aKey));
    CHECK(router.depth() == 3);
    CHECK(!router.exists(all3));

    // deliveries are unchanged by the shrink
    log.clear();
    router.notify(all3);
    router.notify(all2);
    CHECK((log == std::vector<std::string>{"/a/d"}));

    // and once /a/d dies too, nothing is left
    subAd.unsubscribe();
    router.shrink(all3);
    CHECK(!router.exists(aKey));
    CHECK(router.depth() == 1);

    if (failures == 0)
        std::printf("OK\n");
    return failures == 0 ? 0 : 1;
}
