#!/bin/sh
# usage: build_and_run.sh <source tree>
set -e
SRC="$1"
[ -n "$SRC" ] || { echo "usage: $0 <source tree>"; exit 2; }
HERE="$(cd "$(dirname "$0")" && pwd)"
OUT="$(mktemp -d)"
trap 'rm -rf "$OUT"' EXIT
g++ -std=c++20 -O1 -g -Wno-error -I"$SRC/include" \
    "$HERE/demo.cpp" "$SRC"/src/observer/routing/*.cpp \
    -o "$OUT/demo"
"$OUT/demo"
