#!/bin/sh
# usage: build_and_run.sh <source tree>
set -e
SRC=${1:?source tree}
HERE=$(cd "$(dirname "$0")" && pwd)
OUT=$(mktemp -d)
g++ -std=c++20 -O1 -g -pthread -rdynamic -I"$SRC/include" \
    "$HERE/demo.cpp" \
    "$SRC/src/threading/ThreadPool.cpp" "$SRC/src/threading/Thread.cpp" "$SRC/src/threading/Runnable.cpp" \
    -ldl -o "$OUT/demo"
timeout 50 "$OUT/demo"
