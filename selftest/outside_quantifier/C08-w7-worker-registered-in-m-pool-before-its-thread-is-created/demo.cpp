// C08 / m1: a start() whose thread creation fails (EAGAIN from pthread_create,
// i.e. the process hit its thread / memory limit) must not poison the pool:
// the next stop() still has to return, leave getThreadCount() == 0, destroy the
// queued task, and a later start() has to work again.
#include <tulz/threading/ThreadPool.h>
#include <tulz/threading/Thread.h>

#include <atomic>
#include <chrono>
#include <cstdio>
#include <cstdlib>
#include <system_error>
#include <thread>
#include <dlfcn.h>
#include <pthread.h>
#include <errno.h>
#include <unistd.h>

static std::atomic<int> g_failCreate{0};   // number of pthread_create calls to fail

extern "C" int pthread_create(pthread_t *t, const pthread_attr_t *a, void *(*fn)(void *), void *arg) {
    using Fn = int (*)(pthread_t *, const pthread_attr_t *, void *(*)(void *), void *);
    static Fn real = (Fn) dlsym(RTLD_NEXT, "pthread_create");
    if (g_failCreate.load() > 0) {
        --g_failCreate;
        return EAGAIN; // what the kernel answers when RLIMIT_NPROC / memory is exhausted
    }
    return real(t, a, fn, arg);
}

static std::atomic<int> g_alive{0}, g_ran{0};

struct Task : tulz::Runnable {
    Task() { ++g_alive; }
    ~Task() override { --g_alive; }
    void run() override { ++g_ran; }
};

static int fail(const char *msg) {
    std::printf("FAIL: %s\n", msg);
    std::fflush(stdout);
    _exit(1);
}

int main() {
    // watchdog: a hanging stop() is a failure too
    std::thread([] { std::this_thread::sleep_for(std::chrono::seconds(20)); fail("watchdog: hang"); }).detach();

    tulz::ThreadPool pool;
    pool.setMaxThreadCount(2);

    // 1. an ordinary session
    pool.start(new Task);
    while (g_ran.load() < 1) std::this_thread::yield();
    pool.stop();
    if (pool.getThreadCount() != 0) fail("thread count after first stop");

    // 2. the OS refuses to create the worker thread
    g_failCreate = 1;
    bool thrown = false;
    try {
        pool.start(new Task);
    } catch (const std::system_error &e) {
        thrown = true;
        std::printf("start(): thread creation failed as arranged: %s\n", e.what());
    }
    if (!thrown) fail("pthread_create interposer was not used");

    // 3. the owner shuts the pool down
    try {
        pool.stop();
    } catch (const std::exception &e) {
        std::printf("stop() threw: %s\n", e.what());
        fail("stop() did not complete after a failed start()");
    }
    if (pool.getThreadCount() != 0) fail("getThreadCount() != 0 after stop()");
    if (g_alive.load() != 0) fail("queued task not destroyed by stop()");

    // 4. and uses it again
    int before = g_ran.load();
    pool.start(new Task);
    for (int i = 0; i < 5000 && g_ran.load() == before; ++i)
        std::this_thread::sleep_for(std::chrono::milliseconds(1));
    if (g_ran.load() == before) fail("start() after stop() does not run the task");
    pool.stop();
    if (pool.getThreadCount() != 0) fail("thread count after last stop");
    if (g_alive.load() != 0) fail("task leaked");

    std::printf("PASS\n");
    std::fflush(stdout);
    _exit(0);
}
