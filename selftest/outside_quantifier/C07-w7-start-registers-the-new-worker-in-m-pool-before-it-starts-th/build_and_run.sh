#!/bin/sh
# usage: build_and_run.sh <source tree>
set -e
SRC=${1:?source tree}
OUT=$(mktemp -d)
g++ -std=c++20 -O1 -g -pthread -I"$SRC/include" \
    "$(dirname "$0")/demo.cpp" \
    "$SRC/src/threading/ThreadPool.cpp" "$SRC/src/threading/Thread.cpp" "$SRC/src/threading/Runnable.cpp" \
    -ldl -o "$OUT/demo"
timeout 55 "$OUT/demo"
