// C07 demo: a start() whose worker thread cannot be created (pthread_create
// fails with EAGAIN, e.g. the process is at its thread limit) throws
// std::system_error.  The pool must stay usable afterwards: the task that was
// queued by the failed call and every later task are executed exactly once as
// soon as a worker can be created, and stop() destroys what is left.
//
// pthread_create is interposed so that the failure can be injected exactly once.
#include <tulz/threading/ThreadPool.h>

#include <atomic>
#include <cerrno>
#include <chrono>
#include <cstdio>
#include <dlfcn.h>
#include <pthread.h>
#include <system_error>
#include <thread>

using namespace std::chrono_literals;

static std::atomic<bool> g_failNext{false};

extern "C" int pthread_create(pthread_t *t, const pthread_attr_t *a, void *(*fn)(void *), void *arg) {
    using Fn = int (*)(pthread_t *, const pthread_attr_t *, void *(*)(void *), void *);
    static Fn real = (Fn) dlsym(RTLD_NEXT, "pthread_create");
    if (g_failNext.exchange(false))
        return EAGAIN;
    return real(t, a, fn, arg);
}

static std::atomic<int> g_runs[8], g_dtors[8], g_seq{0}, g_pos[8];

struct Task : tulz::Runnable {
    int id;
    explicit Task(int id) : id(id) {}
    ~Task() override { ++g_dtors[id]; }
    void run() override { g_pos[id] = g_seq++; ++g_runs[id]; }
};

static int scenario(int maxThreads) {
    for (int i = 0; i < 8; ++i) { g_runs[i] = 0; g_dtors[i] = 0; g_pos[i] = -1; }
    g_seq = 0;
    int bad = 0;

    tulz::ThreadPool pool;
    pool.setMaxThreadCount(maxThreads);
    pool.setExpiryTimeout(-1);

    bool threw = false;
    g_failNext = true;
    try {
        pool.start(new Task(0));            // thread creation fails inside
    } catch (const std::system_error &e) {
        threw = true;
        std::printf("  start(task 0) threw: %s\n", e.what());
    }
    g_failNext = false;
    if (!threw) { std::printf("  failure was not injected?\n"); return 1; }

    pool.start(new Task(1));                // resources are back: must work
    pool.start(new Task(2));

    for (int i = 0; i < 400 && (g_runs[0] + g_runs[1] + g_runs[2]) < 3; ++i)
        std::this_thread::sleep_for(5ms);

    for (int i = 0; i < 3; ++i) {
        std::printf("  task %d: runs=%d position=%d\n", i, g_runs[i].load(), g_pos[i].load());
        if (g_runs[i] != 1) bad = 1;
    }
    if (bad) std::printf("  tasks were never executed although the pool was neither stopped nor cleared\n");

    try {
        pool.stop();
    } catch (const std::exception &e) {
        std::printf("  stop() threw: %s\n", e.what());
        bad = 1;
    }
    for (int i = 0; i < 3; ++i)
        if (g_dtors[i] != 1) { std::printf("  task %d: destroyed %d times after stop()\n", i, g_dtors[i].load()); bad = 1; }
    return bad;
}

int main() {
    int bad = 0;
    std::printf("max thread count 1\n");
    bad |= scenario(1);
    std::printf("max thread count 4\n");
    bad |= scenario(4);
    std::printf(bad ? "FAIL\n" : "OK\n");
    std::fflush(stdout);
    // a failed stop() leaves joinable workers behind; do not run destructors of
    // anything else, just report
    std::_Exit(bad);
}
