#!/bin/sh
# usage: build_and_run.sh <source tree>
set -e
SRC="${1:?usage: $0 <source tree>}"
HERE="$(cd "$(dirname "$0")" && pwd)"
OUT="$(mktemp -d)"
trap 'rm -rf "$OUT"' EXIT
g++ -std=c++20 -O1 -g -I"$SRC/include" "$HERE/demo.cpp" \
    "$SRC/src/threading/Thread.cpp" "$SRC/src/threading/Runnable.cpp" \
    -o "$OUT/demo" -pthread -ldl
timeout 50 "$OUT/demo"
