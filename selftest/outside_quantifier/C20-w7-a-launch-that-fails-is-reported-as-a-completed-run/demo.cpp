// C20 demo (m1): a launch that fails must not report completion.
//
// pthread_create is interposed so that the demo can make exactly one thread
// launch fail with EAGAIN (what a process at its thread/memory limit gets).
// std::thread turns that into std::system_error thrown out of Thread::start().
// The callable was never invoked, so isFinished() has to stay false; a caller
// that uses isFinished() as "the result is there" must not be told it is.
#include <tulz/threading/Thread.h>

#include <dlfcn.h>
#include <pthread.h>
#include <atomic>
#include <cerrno>
#include <cstdio>
#include <string>
#include <system_error>

static std::atomic<int> g_failLaunches{0};

extern "C" int pthread_create(pthread_t *th, const pthread_attr_t *attr, void *(*fn)(void *), void *arg) {
    using create_t = int (*)(pthread_t *, const pthread_attr_t *, void *(*)(void *), void *);
    static create_t real = reinterpret_cast<create_t>(dlsym(RTLD_NEXT, "pthread_create"));
    if (g_failLaunches.load() > 0) {
        g_failLaunches.fetch_sub(1);
        return EAGAIN;
    }
    return real(th, attr, fn, arg);
}

static int g_bad = 0;
#define CHECK(cond, msg) do { if (!(cond)) { std::printf("VIOLATION: %s\n", msg); ++g_bad; } } while (0)

static std::atomic<int> g_runs{0}, g_destroyed{0};

struct Job : tulz::Runnable {
    std::string name = "a job that owns something";
    ~Job() override { ++g_destroyed; }
    void run() override { ++g_runs; }
};

int main() {
    // --- callable overload -------------------------------------------------
    {
        int calls = 0;
        int result = 0;
        auto work = [&calls](int &out) { ++calls; out = 42; };

        tulz::Thread t;
        bool threw = false;
        g_failLaunches = 1;
        try {
            t.start(work, result);
        } catch (const std::system_error &) {
            threw = true;
        }
        CHECK(threw, "the interposed launch failure did not surface (demo broken)");
        CHECK(calls == 0, "callable ran although the launch failed");
        // the callable has not returned (it was never called): completion must not be reported
        CHECK(!t.isFinished(), "callable: isFinished() is true although the callable never ran");
        if (t.isFinished())
            std::printf("  a waiter polling isFinished() would now read result=%d (expected 42)\n", result);

        // the retry goes through and behaves normally
        t.start(work, result);
        t.join();
        CHECK(t.isFinished() && calls == 1 && result == 42, "retry did not run the callable exactly once");
    }

    // --- Runnable overload -------------------------------------------------
    {
        auto *job = new Job;
        tulz::Thread t;
        bool threw = false;
        g_failLaunches = 1;
        try {
            t.start(job);
        } catch (const std::system_error &) {
            threw = true;
        }
        CHECK(threw, "the interposed launch failure did not surface (demo broken)");
        CHECK(g_runs == 0 && g_destroyed == 0, "runnable touched although the launch failed");
        CHECK(!t.isFinished(), "Runnable: isFinished() is true although run() was never called");

        t.start(job);
        t.join();
        CHECK(t.isFinished() && g_runs == 1 && g_destroyed == 1, "retry did not run and destroy the Runnable once");
    }

    if (g_bad) { std::printf("FAIL (%d violations)\n", g_bad); return 1; }
    std::printf("PASS\n");
    return 0;
}
